#!/bin/sh
# Builds the three fact extractors offline and warms the dependency cache used by the MIR driver.
set -e
cd "$(dirname "$0")"
export CARGO_NET_OFFLINE=true
mkdir -p .work/tools-target
(cd tools/mirfacts && CARGO_TARGET_DIR=../../.work/tools-target/mirfacts cargo build --release --offline)
if [ -f tools/gramfacts/Cargo.toml ]; then
  (cd tools/gramfacts && CARGO_TARGET_DIR=../../.work/tools-target/gramfacts cargo build --release --offline)
fi
(cd tools/srcfacts && CARGO_TARGET_DIR=../../.work/tools-target/srcfacts cargo build --release --offline)
# one extraction on the current tree: compiles /repo's dependencies into .work/mir-target
python3 -c "import sys; sys.path.insert(0,'rules'); import core; print('facts:', core.ensure_facts())"
