"""C10 - oneway is propagated from the interface and oneway methods must return void."""
from absint import *
from domain import *
import cfg
from c07 import order_rule


def propagation_rule(ctx, rep, prop):
    """T1 (shared with C07: a method of a oneway interface is oneway when its arguments are checked)"""
    facts = ctx.mir
    fn = facts.fn("validation::set_up_oneway_interface")
    el_variants = facts.variants("ast::InterfaceElement")
    rep.floor("T1", "InterfaceElement variants", len(el_variants), 2)
    cells = 0
    for iow in (False, True):
        for elname in el_variants:
            for mow in ((False, True) if elname == "Method" else (None,)):
                cells += 1
                if elname == "Method":
                    meth = struct_val(facts, "ast::Method", "method", {"oneway": Const("bool", mow)})
                    el = enum_val(facts, "ast::InterfaceElement", "Method", {0: meth})
                else:
                    el = enum_val(facts, "ast::InterfaceElement", elname, {0: Opaque("member", None)})
                elc = Cell(el)
                itf = struct_val(facts, "ast::Interface", "interface", {"oneway": Const("bool", iow)})
                m = Machine(facts, on_next=lambda il, elc=elc: Ref(elc, True), loop_once=True)
                paths = m.run("validation::set_up_oneway_interface", [Ref(Cell(itf), True), sym_ref("diagnostics", mut=True)])
                key = "interface.oneway=%s|%s|method.oneway=%s" % (iow, elname, mow)
                if len(paths) != 1 or paths[0].exit != "return":
                    rep.fail("T1", "%s|T1|%s|paths" % (prop, key), cfg.where(fn), "expected one returning path, got %r" % ([p.exit for p in paths],))
                    continue
                p = paths[0]
                effs = [e for e in p.effects if e[0] not in ("iterate", "iterate_end", "next", "next_end")]
                # the iteration: a native chain (iterate) or a `for` loop (next) - over interface.elements, forwards
                iters = [("iterate", e[1], e[2], e[3]) for e in p.effects if e[0] == "iterate"] + \
                        [("next", "for", (e[1][1] if isinstance(e[1], tuple) and len(e[1]) == 2 and e[1][0] in ("iter", "iter_mut") else e[1]), fmt_label(e[1])) for e in p.effects if e[0] == "next"]
                pushes = [diag_of(e) for e in effs if e[0] == "push" and e[1] == "diagnostics"]
                assigns = [(e[1], e[2]) for e in effs if e[0] == "assign"]
                other = [e for e in effs if e[0] not in ("push", "assign")]
                if not iow:
                    exp = ([], [])
                elif elname != "Method":
                    exp = ([], [])
                elif mow:
                    exp = ([("Warning", "method.oneway_range")], [])
                else:
                    exp = ([], [("method.oneway", ("const", "bool", True))])
                got = ([(d["kind"], d["range"]) for d in pushes], assigns)
                early = iteration_problems(p)
                ok = got == exp and not other and not early and (not iow or all(i[2] == "interface.elements" and "rev" not in i[3] for i in iters))
                if iow:
                    ok = ok and len(iters) == 1
                rep.check(ok, "T1", "%s|T1|%s" % (prop, key), pushes[0]["where"] if pushes else cfg.where(fn),
                          "cell (%s): expected diagnostics %r and assignments %r, extracted %r, other effects %r%s" % (key, exp[0], exp[1], got, other, ("; " + "; ".join(early)) if early else ""),
                          witness={"interface_oneway": iow, "member": elname, "method_oneway": mow},
                          sample={"cell": key, "diagnostics": repr(got[0]), "assignments": repr(got[1])})
    rep.floor("T1", "propagation cells", cells, 6)



def run(ctx, rep):
    rep.exhaustive = True  # all propagation and return-type cells: the finite space the property quantifies over is enumerated completely
    facts = ctx.mir
    rep.rule("T1", "A3 tabulation of validation::set_up_oneway_interface (through its iterator chain) over interface.oneway x element variant x method.oneway: "
                   "not oneway -> no effect; Const -> nothing; oneway method -> one Warning on method.oneway_range and no assignment; otherwise the single effect method.oneway = true")
    rep.rule("T2", "A3 tabulation of validation::check_method over method.oneway x 17 return-type categories: one Error on return_type.symbol_range iff oneway and not void; check_method_args always called")
    rep.rule("T3", "A4 set_up_oneway_interface strictly before check_methods in the per-file closure, guarded only by 'item is an interface'")
    propagation_rule(ctx, rep, "C10")

    # ---- T2
    fm = facts.fn("validation::check_method")
    cats = categories(facts)
    rep.floor("T2", "type categories", len(cats), 17)
    n = 0
    for ow in (False, True):
        for cname, kind in cats:
            n += 1
            rt = type_node(facts, "method.return_type", kind)
            meth = struct_val(facts, "ast::Method", "method", {"oneway": Const("bool", ow), "return_type": rt})
            m = Machine(facts, opaque_fns=["validation::check_method_args"])
            paths = m.run("validation::check_method", [Ref(Cell(meth)), sym_ref("diagnostics", mut=True)])
            key = "oneway=%s|%s" % (ow, cname)
            if len(paths) != 1 or paths[0].exit != "return":
                rep.fail("T2", "C10|T2|%s|paths" % key, cfg.where(fm), "expected one returning path, got %r" % ([p.exit for p in paths],))
                continue
            p = paths[0]
            pushes = [diag_of(e) for e in p.effects if e[0] == "push" and e[1] == "diagnostics"]
            callsx = [e for e in p.effects if e[0] == "call"]
            other = [e for e in p.effects if e[0] not in ("push", "call")]
            exp = [("Error", "method.return_type.symbol_range")] if (ow and cname != "Void") else []
            got = [(d["kind"], d["range"]) for d in pushes]
            # check_method_args(method, diagnostics) exactly once, after the return-type rule
            args_ok = len(callsx) == 1 and callsx[0][1] == "validation::check_method_args" and callsx[0][2][0] == "method"
            ok = got == exp and args_ok and not other
            rep.check(ok, "T2", "C10|T2|%s" % key, pushes[0]["where"] if pushes else cfg.where(fm),
                      "cell (%s): expected %r then check_method_args(method, ..); extracted %r, calls %r, other %r" % (key, exp, got, [c[1] for c in callsx], other),
                      witness={"method_oneway": ow, "return_type": cname}, sample={"cell": key, "diagnostics": repr(got)})
    rep.floor("T2", "return-type cells", n, 34)

    # ---- T2b: every method gets the return-type rule: the per-method closure of check_methods calls check_method on every path
    found = False
    for c in facts.closures_of("validation::check_methods"):
        f = facts.fns[c]
        pdc = cfg.post_dominators(f["body"])
        s_ = cfg.call_sites(f["body"], lambda x: x == "validation::check_method")
        if s_ and any(b in pdc.get(0, set()) for b, _ in s_):
            found = True
    rep.check(found, "T2", "C10|T2|every-method-checked", cfg.where(facts.fn("validation::check_methods")),
              "check_method must run for every method, i.e. on every path through the per-method closure of check_methods (before any early return such as the duplicate-name one)",
              witness="oneway int f(); declared after another method named f: no return-type Error" if not found else None)
    import c15
    c15.simple_walker(ctx, rep, "C10", "traverse::walk_methods", "walk_methods")
    # ---- T3
    order_rule(facts, rep, "C10", ["validation::set_up_oneway_interface", "validation::check_methods"])
    # guard: the call of set_up_oneway_interface is control-dependent only on `ast.item` being Item::Interface
    clo = None
    for c in facts.closures_of("validation::validate"):
        if cfg.call_sites(facts.fns[c]["body"], lambda x: x == "validation::set_up_oneway_interface"):
            clo = facts.fns[c]
    if clo is not None:
        body = clo["body"]
        site = cfg.call_sites(body, lambda x: x == "validation::set_up_oneway_interface")[0][0]
        dom = cfg.dominators(body)
        # switches dominating the site on the path from the last dominating call (check_containers)
        calls_dom = [b for b in dom[site] if body["blocks"][b]["term"]["k"] == "call" and b != site]
        last_call = max(calls_dom, key=lambda b: len(dom[b])) if calls_dom else 0
        between = [b for b in dom[site] if len(dom[b]) > len(dom[last_call]) and body["blocks"][b]["term"]["k"] == "switch"]
        descr = []
        ok = True
        for b in between:
            blk = body["blocks"][b]
            # the switch operand must be the discriminant of (ast).item
            d = None
            for s in blk["stmts"]:
                if s["k"] == "assign" and s["rv"]["k"] == "discriminant":
                    d = s["rv"]["place"]
            name = [e.get("name") for e in d["p"] if e["k"] == "field"] if d else None
            descr.append(name)
            if not d or name != ["item"]:
                ok = False
        rep.check(ok and len(between) == 1, "T3", "C10|T3|guard", cfg.where(clo, body["blocks"][site]["term"]),
                  "set_up_oneway_interface is guarded by exactly one test: the item is an interface (found switches on %r)" % (descr,),
                  sample={"guards": repr(descr)})
    import common_g
    rep.floor("IN", "grammar actions feeding this rule", common_g.emit_inputs(ctx, rep, "C10"), 5)
    import loopstate
    loopstate.rule(ctx, rep, "C10", ['validation::set_up_oneway_interface', 'validation::check_methods'])
    import pipeline
    pipeline.rule(ctx, rep, "C10", ['resolve_types', 'set_up_oneway_interface', 'check_methods'])
    rep.rule("LX", "lexical agreement (C03 A10, re-evaluated here): the property quantifies over documents - token classes, their priorities, the keyword rule, comments and white space must be the reference ones (a changed comment / number / keyword regex silently drops or merges members)")
    import lexical
    lexical.rules(ctx, rep, "C10", {"trivia", "classes", "priority", "keywords", "tokenizer"})
    rep.assumptions += ["TB-1 rustc MIR", "TB-4 tabulator", "iterator chain modelled for one generic element: iter_mut/filter_map/for_each visit every element once in order (std)"]
    import common_g
    n, _ = common_g.emit(ctx, rep, "C10", {"oneway"}, "T4")
    rep.floor("T4", "oneway wiring obligations (flag = presence of the keyword, oneway_range spans it)", n, 3)
    rep.rule("T4", "A9: Interface.oneway / Method.oneway are the presence of the ONEWAY keyword and oneway_range spans it")
