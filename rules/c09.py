"""C09 - duplicate method names, duplicate and mixed transact codes are flagged precisely."""
import itertools
from absint import *
from domain import *
from closures import run_closure
import cfg
import walkers
from c15 import contains_label, simple_walker


def has(label, needle):
    return needle in fmt_label(label)


def classify(d):
    """diagnostic -> class of this property (or 'other')"""
    r, rel = d["range"], d["related"] or []
    rl = [fmt_label(x) for x in rel]
    # the stored first occurrence, read through get(..) or through an occupied entry of the name map
    if d["kind"] == "Error" and r == "method.symbol_range" and len(rl) == 1 and "method_names" in rl[0] and ("::get(" in rl[0]) and rl[0].endswith("symbol_range)"):
        return "dup_name"
    if d["kind"] == "Error" and r == "method.transact_code_range" and len(rl) == 1 and rl[0] in ("first_without.transact_code_range", "first_with.transact_code_range"):
        return "mixed:" + rl[0].split(".")[0]
    if d["kind"] == "Error" and r == "method.transact_code_range" and len(rl) == 1 and "method_ids" in rl[0] and "::get(" in rl[0] and rl[0].endswith("transact_code_range)"):
        return "dup_code"
    return "other(%s,%s,%s)" % (d["kind"], fmt_label(r), rl)


def run(ctx, rep):
    facts = ctx.mir
    rep.rule("M1", "A3: step function of the per-method closure of validation::check_methods extracted with opaque predicates (name seen, first-with / first-without markers, id map empty, code present, code seen)")
    rep.rule("M2", "exhaustive exploration of the extracted abstract machine from the initial state in product with a monitor written from the statement (duplicate name: one Error pointing back, no state change, nothing else; "
                   "mixed: exactly once, at the step that first makes both kinds present; duplicate code: one Error pointing to the stored method; first occurrences preserved)")
    rep.rule("M3", "walk_methods yields methods only (constants never take part); check_methods passes its closure to walk_methods")
    clos = facts.closures_of("validation::check_methods")
    if len(clos) != 1:
        rep.fail("M1", "C09|M1|anchor-missing|closure", None, "check_methods must have exactly one closure, found %d" % len(clos))
        return
    cpath = clos[0]
    cf = facts.fn(cpath)
    steps = {}
    for W, O, C in itertools.product((0, 1), repeat=3):
        fw = AdtVal("std::option::Option", 1, {0: Cell(Ref(Cell(Opaque("first_with", "ast::Method"))))}, None, "Some") if W else AdtVal("std::option::Option", 0, {}, None, "None")
        fo = AdtVal("std::option::Option", 1, {0: Cell(Ref(Cell(Opaque("first_without", "ast::Method"))))}, None, "Some") if O else AdtVal("std::option::Option", 0, {}, None, "None")
        code = AdtVal("std::option::Option", 1, {0: Cell(Opaque("code", "u32"))}, None, "Some") if C else AdtVal("std::option::Option", 0, {}, None, "None")
        meth = struct_val(facts, "ast::Method", "method", {"transact_code": code})
        vals = {"diagnostics": Opaque("diagnostics"), "method_names": Opaque("method_names"), "first_method_with_id": fw,
                "first_method_without_id": fo, "method_ids": Opaque("method_ids")}
        paths, cells = run_closure(facts, cpath, vals, [Ref(Cell(meth))], opaque_fns=["validation::check_method"])
        for p in paths:
            N = I = D = None
            for l, v in p.conds:
                s = fmt_label(l)
                # a map's own answer to "is this key stored": variant of get(..) / entry(..), or contains_key(..)
                seen_v = None
                if isinstance(l, tuple) and l[0] == "variant" and ("::get(" in s or "::entry(" in s) and "HashMap" in s:
                    seen_v = 1 if v in ("Some", "Occupied") else 0
                elif "::contains_key(" in s and "HashMap" in s:
                    seen_v = 1 if v else 0
                if seen_v is not None and "method_names" in s and "method_ids" not in s:
                    N = seen_v
                elif seen_v is not None and "method_ids" in s and "method_names" not in s:
                    D = seen_v
                elif "is_empty" in s and "method_ids" in s:
                    I = 1 if v else 0
                else:
                    rep.fail("M1", "C09|M1|unknown-predicate|%s" % s[:80], cfg.where(cf), "the closure branches on %s which the model does not know" % s)
            steps[(W, O, C, N, I, D)] = p
    rep.floor("M1", "extracted step-function paths", len(steps), 12)

    def lookup(W, O, I, N, C, D):
        hits = []
        for (w, o, c, n, i, d), p in steps.items():
            if (w, o, c) != (W, O, C):
                continue
            if n is not None and n != N:
                continue
            if i is not None and i != I:
                continue
            if d is not None and d != D:
                continue
            hits.append(p)
        return hits

    # ---- M2 exploration
    init = (0, 0, 1)
    seen = set([init])
    work = [init]
    transitions = 0
    while work:
        W, O, I = work.pop()
        for N, C, D in itertools.product((0, 1), repeat=3):
            if D and not C:
                continue
            if D and I:
                continue  # an occupied entry implies a non-empty id map
            transitions += 1
            key = "W=%d,O=%d,I=%d|N=%d,C=%d,D=%d" % (W, O, I, N, C, D)
            hits = lookup(W, O, I, N, C, D)
            if len(hits) != 1:
                rep.fail("M2", "C09|M2|%s|paths" % key, cfg.where(cf), "%d extracted paths match abstract step %s" % (len(hits), key))
                continue
            p = hits[0]
            if p.exit != "return":
                rep.fail("M2", "C09|M2|%s|exit" % key, cfg.where(cf), "step %s ends with %s %r (reachable state)" % (key, p.exit, p.ret))
                continue
            diags = [classify(diag_of(e)) for e in p.pushes("diagnostics")]
            assigns = [(e[1], fmt_label(e[2])) for e in p.effects if e[0] == "assign"]
            callsx = [e for e in p.effects if e[0] == "call"]
            cm = [c for c in callsx if c[1] == "validation::check_method"]
            def store_of(c, mapname):
                """(key, value) when call c stores into `mapname`: insert(map, k, v) or VacantEntry::insert(entry(map, k).Vacant.0, v)"""
                if "HashMap" in c[1] and c[1].endswith("::insert") and base_label(c[2][0]) == mapname:
                    return (c[2][1], c[2][2])
                if "VacantEntry" in c[1] and c[1].endswith("::insert"):
                    src = c[2][0]
                    while isinstance(src, tuple) and src and src[0] == "field":
                        src = src[1]
                    if isinstance(src, tuple) and src[0] == "call" and src[1].endswith("::entry") and base_label(src[2][0]) == mapname:
                        return (src[2][1], c[2][1])
                return None
            lookups = [c for c in callsx if "HashMap" in c[1] and c[1].rsplit("::", 1)[1] in ("get", "entry", "contains_key", "is_empty") and base_label(c[2][0]) in ("method_names", "method_ids")] + \
                      [c for c in callsx if "OccupiedEntry" in c[1] and c[1].endswith("::get")]
            ins_names = [c for c in callsx if store_of(c, "method_names")]
            ins_ids = [c for c in callsx if store_of(c, "method_ids")]
            other = [c for c in callsx if c not in cm + ins_names + ins_ids + lookups] + [e for e in p.effects if e[0] not in ("call", "push", "assign", "unwrap")]
            # monitor
            if N:
                exp_d, exp_a = ["dup_name"], []
                exp_ins, exp_vins = 0, 0
                W2, O2, I2 = W, O, I
            else:
                exp_d = []
                if C and O and not W:
                    exp_d.append("mixed:first_without")
                if not C and W and not O:
                    exp_d.append("mixed:first_with")
                exp_a = []
                if C and not W:
                    exp_a.append(("first_method_with_id", "method"))
                if not C and not O:
                    exp_a.append(("first_method_without_id", "method"))
                if C and D:
                    exp_d.append("dup_code")
                exp_ins, exp_vins = 1, (1 if C and not D else 0)
                W2, O2 = (1 if C else W), (O if C else 1)
                I2 = 0 if C else I
            got_a = [(a, "method" if "method" in v and "Some" in v else v) for a, v in assigns]
            ins_ok = len(ins_names) == exp_ins and all(store_of(c, "method_names") == ("method.name", "method") for c in ins_names)
            vin_ok = len(ins_ids) == exp_vins and all(has(store_of(c, "method_ids")[0], "code") and store_of(c, "method_ids")[1] == "method" for c in ins_ids)
            ok = (diags == exp_d and got_a == exp_a and ins_ok and vin_ok and not other and len(cm) == 1 and cm[0][2][0] == "method")
            rep.check(ok, "M2", "C09|M2|%s" % key, cfg.where(cf),
                      "abstract step %s: monitor expects diagnostics %r, marker updates %r, stores into the name map x%d (method.name -> method), stores into the code map x%d (code -> method); "
                      "extracted diagnostics %r, updates %r, name stores %r, code stores %r, other effects %r" % (
                          key, exp_d, exp_a, exp_ins, exp_vins, diags, got_a, [fmt_label(store_of(c, "method_names")) for c in ins_names], [fmt_label(store_of(c, "method_ids")) for c in ins_ids], [fmt_label(o[1:3]) for o in other]),
                      witness={"state": {"first_with_id_set": W, "first_without_id_set": O, "ids_empty": I}, "input": {"name_seen": N, "has_code": C, "code_seen": D}},
                      sample={"step": key, "diagnostics": diags, "updates": got_a})
            nxt = (W2, O2, I2)
            if nxt not in seen:
                seen.add(nxt)
                work.append(nxt)
    rep.analysed["abstract states reached"] = sorted(seen)
    rep.analysed["abstract transitions checked"] = transitions
    rep.floor("M2", "abstract states", len(seen), 4)
    rep.check(all((i == 1) == (w == 0) for w, o, i in seen), "M2", "C09|M2|invariant", cfg.where(cf),
              "invariant found by exploration: the id map is empty exactly when no method with a code was seen (so the code's two 'mixed' conditions coincide with the monitor's)")

    # ---- M3
    simple_walker(ctx, rep, "C09", "traverse::walk_methods", "walk_methods")
    fm = facts.fn("validation::check_methods")
    paths = Machine(facts, opaque_fns=["traverse::walk_methods"]).run("validation::check_methods", [sym_ref("file"), sym_ref("diagnostics", mut=True)])
    ok = len(paths) == 1 and [e[1] for e in paths[0].effects if e[0] == "call" and not e[1].startswith("std::collections")] == ["traverse::walk_methods"]
    if ok:
        c = [e for e in paths[0].effects if e[0] == "call" and e[1] == "traverse::walk_methods"][0]
        ok = c[2][0] == "file" and has(c[2][1], "closure:" + cpath)
    rep.check(ok, "M3", "C09|M3|check_methods-shape", cfg.where(fm), "check_methods = walk_methods(file, <per-method closure>) over fresh, empty maps / markers")
    # initial state: markers None, maps new
    body = fm["body"]
    news = cfg.call_sites(body, lambda c: c.endswith("HashMap::<K, V>::new"))
    rep.check(len(news) == 2, "M3", "C09|M3|fresh-maps", cfg.where(fm), "both maps start empty (HashMap::new x2), found %d" % len(news))
    import common_g
    rep.floor("IN", "grammar actions feeding this rule", common_g.emit_inputs(ctx, rep, "C09"), 5)
    import loopstate
    loopstate.rule(ctx, rep, "C09", ['validation::check_methods'])
    import pipeline
    pipeline.rule(ctx, rep, "C09", ['check_methods'])
    rep.rule("LX", "lexical agreement (C03 A10, re-evaluated here): the property quantifies over documents - token classes, their priorities, the keyword rule, comments and white space must be the reference ones (a changed comment / number / keyword regex silently drops or merges members)")
    import lexical
    lexical.rules(ctx, rep, "C09", {"trivia", "classes", "priority", "keywords", "tokenizer"})
    rep.assumptions += ["TB-1 rustc MIR", "TB-4 tabulator", "TB-3 HashMap get/insert/entry semantics (the abstract predicates 'name seen' / 'code seen' are the map's own answers)"]
    rep.not_decided.append("u32 parsing of zero-padded / overflowing codes (std; wiring of transact_code is the grammar rule)")
