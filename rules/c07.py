"""C07 - argument direction rules follow the argument's type category exactly."""
import json, os
from core import VERIF
from absint import *
from domain import *
import cfg


def spec():
    return json.load(open(os.path.join(VERIF, "spec", "direction.json")))


def run(ctx, rep):
    rep.exhaustive = True  # 17 categories x 4 directions x 2 = 136 cells: the finite space the property quantifies over is enumerated completely
    facts = ctx.mir
    sp = spec()
    rep.rule("T1", "A3 tabulation of validation::get_requirement_for_arg_direction over all type categories vs spec/direction.json")
    rep.rule("T2", "A3 tabulation of the loop body of validation::check_method_args (callee inlined) over category x direction x method.oneway: "
                   "number of Error pushes = [type rule broken] + [oneway and out/inout], each on the direction's own range or the empty range at the type start; no other effect")
    rep.rule("T3", "A4 call order in the per-file closure of validation::validate: resolve_types < set_up_oneway_interface < check_methods; check_methods -> check_method -> check_method_args on every path")
    rep.rule("T4", "A9 Direction action maps DIRECTION token texts to In/Out/InOut with the token's range (see wiring rules)")
    cats = categories(facts)
    dirs = directions(facts)
    rep.floor("T1", "type categories", len(cats), 17)
    rep.floor("T1", "directions", len(dirs), 4)
    missing = [c for c, _ in cats if c not in sp["categories"]]
    for c in missing:
        rep.fail("T1", "C07|T1|category-without-spec|%s" % c, None,
                 "type category %s (generated from the ADTs) has no row in spec/direction.json" % c)
    fn_arg = facts.fn("validation::check_method_args")
    fn_req = facts.fn("validation::get_requirement_for_arg_direction")

    # ---- T2 (T1 is implied cell by cell: the table of the inlined callee is what T2 observes;
    # T1 additionally reports the requirement class returned per category for diagnosis)
    cells = 0
    for cname, kind in cats:
        cls = sp["categories"].get(cname)
        if cls is None:
            continue
        # T1: requirement class
        t = type_node(facts, "type_", kind)
        paths = Machine(facts).run("validation::get_requirement_for_arg_direction", [Ref(Cell(t))])
        ok = len(paths) == 1 and paths[0].exit == "return" and isinstance(paths[0].ret, AdtVal)
        req = paths[0].ret.vname if ok else None
        rep.check(ok, "T1", "C07|T1|%s|single-return" % cname, cfg.where(fn_req),
                  "get_requirement_for_arg_direction(%s) must return one requirement on one path" % cname,
                  sample={"category": cname, "requirement": req})
        for dname, dval in dirs:
            for oneway in (False, True):
                cells += 1
                t = type_node(facts, "arg.arg_type", kind)
                arg = struct_val(facts, "ast::Arg", "arg", {"arg_type": t, "direction": dval})
                meth = struct_val(facts, "ast::Method", "method", {"oneway": Const("bool", oneway)})
                m = Machine(facts, on_next=lambda il, arg=arg: Ref(Cell(arg)), loop_once=True)
                try:
                    paths = m.run("validation::check_method_args", [Ref(Cell(meth)), sym_ref("diagnostics", mut=True)])
                except Unsupported as e:
                    rep.fail("T2", "C07|T2|unsupported", cfg.where(fn_arg), "tabulator cannot interpret check_method_args: %s" % e)
                    return
                cellkey = "%s|%s|oneway=%s" % (cname, dname, oneway)
                # one generic argument is pushed through the per-argument code (for loop or for_each alike)
                iters = [e for pth in paths for e in pth.effects if e[0] in ("next", "iterate") and "method.args" in fmt_label(e[1:3])]
                if len(paths) != 1 or paths[0].exit != "return" or not iters:
                    rep.fail("T2", "C07|T2|%s|paths" % cellkey, cfg.where(fn_arg),
                             "expected exactly one path through the per-argument code for a concrete cell (iterating method.args), got %r" % ([p.exit for p in paths],))
                    continue
                p = paths[0]
                other = only_pushes(p)
                diags = [diag_of(e) for e in p.pushes("diagnostics")]
                exp_type = (dname in sp["broken_when"][cls]) if cls != "unstated" else None
                exp_oneway = oneway and dname in sp["oneway_forbids"]
                n = len(diags)
                if exp_type is None:
                    count_ok = n in (int(exp_oneway), int(exp_oneway) + 1)
                    expected = "%d or %d" % (int(exp_oneway), int(exp_oneway) + 1)
                else:
                    count_ok = n == int(exp_type) + int(exp_oneway)
                    expected = str(int(exp_type) + int(exp_oneway))
                exp_range = "arg.direction.range" if dname != "Unspecified" else ("empty_at", "arg.arg_type.symbol_range.start")
                shape_ok = all(d["kind"] == "Error" and d["range"] == exp_range for d in diags)
                ok = count_ok and shape_ok and not other
                msg = ("cell (%s, direction %s, oneway method %s): expected %s Error(s) on %s and nothing else; extracted: %s%s"
                       % (cname, dname, oneway, expected, exp_range, [(d["kind"], d["range"]) for d in diags],
                          ", other effects %r" % (other,) if other else ""))
                rep.check(ok, "T2", "C07|T2|%s" % cellkey, diags[0]["where"] if diags else cfg.where(fn_arg), msg,
                          detail={"diagnostics": [(d["kind"], repr(d["range"]), d["where"]) for d in diags], "other_effects": repr(other)},
                          witness={"category": cname, "direction": dname, "method_oneway": oneway},
                          sample={"cell": cellkey, "errors": n, "range": repr(exp_range)})
    rep.analysed["T2 cells"] = cells
    rep.floor("T2", "direction table cells", cells, 136)

    # ---- T3 call order
    order_rule(facts, rep, "C07", ["validation::resolve_types", "validation::set_up_oneway_interface", "validation::check_methods"])
    # check_methods closure calls check_method first; check_method calls check_method_args on every path
    cm = facts.fn("validation::check_method")
    pd = cfg.post_dominators(cm["body"])
    sites = cfg.call_sites(cm["body"], lambda c: c == "validation::check_method_args")
    rep.check(len(sites) >= 1 and any(b in pd.get(0, set()) for b, _ in sites), "T3", "C07|T3|check_method->check_method_args", cfg.where(cm),
              "every normal path through check_method calls check_method_args", sample={"sites": [b for b, _ in sites]})
    clos = [p for p in facts.closures_of("validation::check_methods")]
    found = False
    for c in clos:
        f = facts.fns[c]
        pdc = cfg.post_dominators(f["body"])
        s = cfg.call_sites(f["body"], lambda x: x == "validation::check_method")
        if s and any(b in pdc.get(0, set()) for b, _ in s):
            found = True
    rep.check(found, "T3", "C07|T3|check_methods-closure->check_method", cfg.where(facts.fn("validation::check_methods")),
              "the per-method closure of check_methods calls check_method on every path (before any early return)")
    rep.rule("T5", "nothing post-processes the diagnostics between the checks and the result: every call on a Vec<Diagnostic> reachable from validation is push / sort (no dedup, retain, truncate), so 'exactly one Error per broken rule' survives to the caller")
    import c03
    c03.append_only_rule(ctx, rep, "C07")
    rep.rule("RES", "inherits C05 rules A-E (re-evaluated here): the category this table is indexed by is the one resolution assigns - walker reaches every type node, resolve_type classifies per AIDL scoping, built-in tables, name-matching predicates")
    import c05
    c05.resolution_rules(ctx, rep, "C07")
    import common_g
    rep.floor("IN", "grammar actions feeding this rule", common_g.emit_inputs(ctx, rep, "C07"), 5)
    import loopstate
    loopstate.rule(ctx, rep, "C07", ['validation::check_method_args', 'validation::check_methods', 'validation::get_requirement_for_arg_direction'])
    rep.rule("T1", "inherits C10 T1 (re-evaluated here): in a oneway interface every method is oneway by the time its arguments are checked - the oneway column of the direction table is the propagated flag")
    import c10
    c10.propagation_rule(ctx, rep, "C07")
    import pipeline
    pipeline.rule(ctx, rep, "C07", ['resolve_types', 'check_methods'])
    rep.rule("LX", "lexical agreement (C03 A10, re-evaluated here): the property quantifies over documents - token classes, their priorities, the keyword rule, comments and white space must be the reference ones (a changed comment / number / keyword regex silently drops or merges members)")
    import lexical
    lexical.rules(ctx, rep, "C07", {"trivia", "classes", "priority", "keywords", "tokenizer"})
    rep.assumptions += ["TB-1 rustc MIR", "TB-4 the tabulator (validated by selftest mutants)",
                        "per-argument loop carries no state between iterations other than the append-only diagnostics vector (checked: only effects are pushes)"]


def order_rule(facts, rep, prop, names):
    """each named callee is called in the per-file closure, and each call dominates the next"""
    clo = None
    for c in facts.closures_of("validation::validate"):
        f = facts.fns[c]
        if all(cfg.call_sites(f["body"], lambda x, n=n: x == n) for n in names[-1:]):
            clo = f
    if clo is None:
        rep.fail("T3", "%s|T3|anchor-missing|validate-closure" % prop, None, "no closure of validation::validate calls %s" % names[-1])
        return
    dom = cfg.dominators(clo["body"])
    prev = None
    for n in names:
        sites = cfg.call_sites(clo["body"], lambda x, n=n: x == n)
        if len(sites) != 1:
            rep.fail("T3", "%s|T3|call-count|%s" % (prop, n), cfg.where(clo), "expected exactly one call of %s in the per-file closure, found %d" % (n, len(sites)))
            prev = None
            continue
        b = sites[0][0]
        if prev is not None:
            pb, pn = prev
            # prev must come before: prev block dominates b, or (for the conditional oneway set-up) every
            # path reaching b passed the branch point after prev; we require: b is not reachable to prev and prev reaches b
            ok = reaches(clo["body"], pb, b) and not reaches(clo["body"], b, pb)
            rep.check(ok, "T3", "%s|T3|order|%s<%s" % (prop, pn, n), cfg.where(clo, sites[0][1]),
                      "%s must run strictly before %s in the per-file validation closure" % (pn, n),
                      sample={"before": pn, "after": n, "blocks": [pb, b]})
        prev = (b, n)
    # check_methods must be reached on every path that has a tree: it post-dominates resolve_types
    pd = cfg.post_dominators(clo["body"])
    first = cfg.call_sites(clo["body"], lambda x: x == names[0])
    last = cfg.call_sites(clo["body"], lambda x: x == names[-1])
    if first and last:
        rep.check(last[0][0] in pd.get(first[0][0], set()), "T3", "%s|T3|%s-always-runs" % (prop, names[-1]), cfg.where(clo, last[0][1]),
                  "%s runs on every path on which %s ran" % (names[-1], names[0]))


def reaches(body, a, b):
    sm = cfg.succ_map(body)
    seen = set()
    st = list(sm.get(a, []))
    while st:
        n = st.pop()
        if n == b:
            return True
        if n in seen:
            continue
        seen.add(n)
        st.extend(sm.get(n, []))
    return False
