"""A model of the generated parser: the LR automaton exported by gramfacts driven by a re-implementation of
lalrpop_util 0.19.8's `state_machine::Parser` (shift / reduce loop and `error_recovery`, transcribed from
lalrpop-util-0.19.8/src/state_machine.rs).  Used to explore *token strings* on the extracted automaton; the
repository's parser itself is never run."""


class Auto(object):
    def __init__(self, a):
        self.states = a["states"]
        self.act = []
        for s in self.states:
            m = {}
            for t, tgt in s["shifts"].items():
                m[t] = ("s", tgt)
            for r in s["reduces"]:
                for la in r["lookahead"]:
                    if la in m:
                        raise ValueError("conflict in exported automaton at state %d on %s" % (s["index"], la))
                    m[la] = ("r", r["production"])
            self.act.append(m)

    def action(self, state, tok):
        return self.act[state].get(tok)

    def goto(self, state, nt):
        return self.states[state]["gotos"][nt]


class Result(object):
    def __init__(self):
        self.ok = False          # a parse result was produced (Ok)
        self.error = None        # unrecoverable error: index of the offending token (len(tokens) = EOF)
        self.errors = []         # offending token index of every recovered error
        self.reductions = []     # (nonterminal, symbols tuple, first token idx, last token idx (exclusive))
        self.recovered = []      # (start idx, end idx exclusive) of every `error` symbol


def parse(auto, tokens, track=()):
    """tokens: list of terminal display names.  Returns Result."""
    res = Result()
    states = [0]
    spans = []  # (lo, hi) per symbol
    n = len(tokens)
    pos = [0]

    def next_token():
        if pos[0] < n:
            pos[0] += 1
            return pos[0] - 1
        return None

    def do_reduce(prod, la_idx):
        k = len(prod["symbols"])
        if k:
            lo, hi = spans[-k][0], spans[-1][1]
            del states[-k:]
            del spans[-k:]
        else:
            at = la_idx if la_idx is not None else n
            lo = hi = spans[-1][1] if spans else 0
            lo = hi = max(hi, 0)
        if prod.get("is_start_production"):
            return True
        if prod["nonterminal"] in track:
            res.reductions.append((prod["nonterminal"], tuple(prod["symbols"]), lo, hi))
        states.append(auto.goto(states[-1], prod["nonterminal"]))
        spans.append((lo, hi))
        return False

    def accepts(error_state, stk, tok):
        stk = list(stk) + [error_state]
        while True:
            a = auto.action(stk[-1], tok if tok is not None else "EOF")
            if a is None:
                return False
            if a[0] == "r":
                prod = a[1]
                if prod.get("is_start_production"):
                    return True
                k = len(prod["symbols"])
                if k:
                    del stk[-k:]
                stk.append(auto.goto(stk[-1], prod["nonterminal"]))
            else:
                return True

    def recover(la):
        """returns ('tok', idx) | ('eof',) | ('fail',)"""
        err_at = la if la is not None else n
        dropped = []
        # reductions allowed on `error`
        while True:
            a = auto.action(states[-1], "error")
            if a is not None and a[0] == "r":
                if do_reduce(a[1], la):
                    res.ok = True
                    return ("done",)
            else:
                break
        states_len = len(states)
        while True:
            top = None
            tokname = tokens[la] if la is not None else None
            for t in range(states_len - 1, -1, -1):
                a = auto.action(states[t], "error")
                if a is not None and a[0] == "s":
                    if accepts(a[1], states[:t + 1], tokname):
                        top = t
                        break
            if top is not None:
                break
            if la is None:
                res.error = err_at
                return ("fail",)
            dropped.append(la)
            la = next_token()
        if top < len(spans):
            start = spans[top][0]
        elif dropped:
            start = dropped[0]
        elif top > 0:
            start = spans[top - 1][1]
        else:
            start = 0
        if dropped:
            end = dropped[-1] + 1
        elif states_len - 1 > top:
            end = spans[-1][1]
        elif la is not None:
            end = la
        else:
            end = start
        del states[top + 1:]
        del spans[top:]
        es = auto.action(states[top], "error")[1]
        states.append(es)
        spans.append((start, end))
        res.errors.append(err_at)
        res.recovered.append((start, end))
        return ("tok", la) if la is not None else ("eof",)

    la = next_token()
    while True:
        if la is None:
            # parse_eof
            while True:
                a = auto.action(states[-1], "EOF")
                if a is not None and a[0] == "r":
                    if do_reduce(a[1], None):
                        res.ok = True
                        return res
                else:
                    r = recover(None)
                    if r[0] in ("fail",):
                        return res
                    if r[0] == "done":
                        return res
                    if r[0] == "tok":
                        raise RuntimeError("token at EOF")
        a = auto.action(states[-1], tokens[la])
        if a is not None and a[0] == "s":
            states.append(a[1])
            spans.append((la, la + 1))
            la = next_token()
            continue
        if a is not None and a[0] == "r":
            if do_reduce(a[1], la):
                res.error = la  # ExtraToken
                return res
            continue
        r = recover(la)
        if r[0] == "fail" or r[0] == "done":
            return res
        la = r[1] if r[0] == "tok" else None
