"""A9 grammar-action wiring: join of GRAMFACTS (lowered productions, symbol kinds) with the
abstract interpretation of the generated `__action{i}` functions in MIRFACTS."""
import re
from absint import *
from domain import *

OPAQUE = ["ast::Range::new", "ast::Position::new", "javadoc::get_javadoc",
          "ast::Type::simple_type", "ast::Type::array", "ast::Type::list", "ast::Type::non_generic_list", "ast::Type::map", "ast::Type::non_generic_map",
          "diagnostic::Diagnostic::from_error_recovery"]
PURE = OPAQUE + ["core::str::<impl str>::parse", "std::slice::<impl [T]>::join"]


def sym_label(j, sym):
    return "S%d:%s" % (j, sym["name"])


class Action(object):
    def __init__(self, gram, facts, prod):
        self.prod = prod
        self.index = prod["action"]
        self.nt = prod["nonterminal"]
        self.symbols = prod["symbols"]
        self.defn = gram["lowered"]["action_fn_defns"][self.index]
        self.fn_path = "rules::aidl::__action%d" % self.index
        self.fn = facts.fn(self.fn_path)
        self.labels = [sym_label(j, s) for j, s in enumerate(self.symbols)]

    def where(self):
        return "src/aidl.lalrpop:%d (%s, alternative %d, __action%d)" % (self.prod["line"], self.nt, self.prod["alternative"], self.index)

    def run(self, facts, **kw):
        args = [sym_ref("lookup"), sym_ref("diagnostics", mut=True), sym_ref("input")]
        body = self.fn["body"]
        if body["arg_count"] != 3 + len(self.symbols):
            raise KeyError("anchor-missing: __action%d has %d params, production has %d symbols" % (self.index, body["arg_count"], len(self.symbols)))
        for j, s in enumerate(self.symbols):
            ty = body["locals"][4 + j]["ty"]
            inner = None
            m = re.match(r"\(usize, (.*), usize\)$", ty)
            inner = m.group(1) if m else None
            val = Opaque(self.labels[j], inner)
            if inner and inner.startswith("&"):
                val = Ref(Cell(Opaque(self.labels[j], inner[1:].replace("'input ", ""))))
            args.append(AdtVal("tuple", None, {0: Cell(Opaque("L%d" % j, "usize")), 1: Cell(val), 2: Cell(Opaque("R%d" % j, "usize"))}))
        opaque = kw.pop("opaque_fns", OPAQUE)
        pure = kw.pop("pure_fns", PURE)
        m = Machine(facts, opaque_fns=opaque, pure_fns=pure, loop_once=True, **kw)
        return m.run(self.fn_path, args)


def user_actions(gram, facts):
    """actions whose code was written by the grammar's author: productions of written nonterminals
    and of instances of user macros (CommaSeparated<T>); lalrpop's canned actions for `*`, `+`, `?`
    and parenthesised groups are part of TB-2"""
    origin = gram["lowered"]["nonterminal_origin"]
    out = []
    for p in gram["lowered"]["productions"]:
        d = gram["lowered"]["action_fn_defns"][p["action"]]
        if d["kind"] != "user":
            continue
        o = origin.get(p["nonterminal"])
        if o is not None and o.get("kind") not in ("macro",):
            continue
        out.append(Action(gram, facts, p))
    return out
