"""Loop-carried state: locals written in one iteration of a loop and read in a later one.

The tabulator analyses a loop for ONE generic element (loop_once) - sound for "what happens per element" only when an
iteration's behaviour does not depend on earlier iterations.  This module finds, structurally on the MIR CFG, every local
that is (a) written inside a natural loop and (b) live at the loop head along in-loop paths (read before being fully
overwritten).  The iterator itself (the local handed to Iterator::next) is expected; everything else must be in a
reviewed table of the rule that tabulates the function."""
import json
import cfg
from mirlib import callee_info


def natural_loops(body):
    sm = cfg.succ_map(body)
    preds = {}
    for n, ss in sm.items():
        for s in ss:
            preds.setdefault(s, []).append(n)
    loops = {}
    for tail, head in cfg.back_edges(body):
        nodes = loops.setdefault(head, set([head]))
        st = [tail]
        while st:
            n = st.pop()
            if n in nodes:
                continue
            nodes.add(n)
            st += preds.get(n, [])
    return loops


def _places_in_operand(o):
    if isinstance(o, dict) and o.get("k") in ("copy", "move"):
        return [o["place"]]
    return []


def _uses_defs_stmt(s):
    """(uses, full_defs, partial_defs) as local indices"""
    import dataflow
    uses, full, part = [], [], []
    if s["k"] == "assign":
        rv = s["rv"]
        for o in dataflow.operands_of_rvalue(rv):
            for pl in _places_in_operand(o):
                uses.append(pl["l"])
        for pl, how in dataflow.places_of_rvalue(rv):
            uses.append(pl["l"])
            if how == "refmut" and not any(isinstance(e, dict) and e.get("k") == "deref" for e in pl["p"]):
                part.append(pl["l"])   # `&mut local(.field)`: whoever receives the borrow may write the local
        lhs = s["lhs"]
        if lhs["p"]:
            # write through a projection: for `(*_x).f = ..` the pointer is used, for `_x.f = ..` the local is partially written
            if any(isinstance(e, dict) and e.get("k") == "deref" for e in lhs["p"]):
                uses.append(lhs["l"])
            else:
                part.append(lhs["l"])
        else:
            full.append(lhs["l"])
    elif s["k"] in ("storage_live",):
        full.append(s["l"])
    elif s["k"] in ("storage_dead",):
        full.append(s["l"])
    elif s["k"] == "set_discriminant":
        part.append(s["place"]["l"])
    return uses, full, part


def _uses_defs_term(t):
    uses, full, part = [], [], []
    k = t["k"]
    if k == "call":
        for a in t["args"]:
            for pl in _places_in_operand(a):
                uses.append(pl["l"])
        f = t.get("func")
        for pl in _places_in_operand(f):
            uses.append(pl["l"])
        d = t["dest"]
        if d["p"]:
            part.append(d["l"])
        else:
            full.append(d["l"])
    elif k == "switch":
        for pl in _places_in_operand(t.get("discr")):
            uses.append(pl["l"])
    elif k == "drop":
        uses.append(t["place"]["l"])
    elif k == "assert":
        for pl in _places_in_operand(t.get("cond")):
            uses.append(pl["l"])
    return uses, full, part


def carried(body):
    """[(head_block, local, name_or_None, written_at_blocks)] for every loop of the body"""
    sm = cfg.succ_map(body)
    names = {}
    for d in body.get("debug", []):
        if "l" in d["place"] and not d["place"]["p"]:
            names.setdefault(d["place"]["l"], d["name"])
    out = []
    blocks = dict((b["i"], b) for b in body["blocks"])
    for head, nodes in sorted(natural_loops(body).items()):
        # per block: gen (upward-exposed uses) / kill (full defs)
        gen, kill, writes = {}, {}, {}
        for n in nodes:
            b = blocks[n]
            g, k = set(), set()
            items = [_uses_defs_stmt(s) for s in b["stmts"]] + [_uses_defs_term(b["term"])]
            for uses, full, part in items:
                for u in uses:
                    if u not in k:
                        g.add(u)
                for p in part:
                    if p not in k:
                        g.add(p)   # partial write keeps the rest of the old value alive
                    writes.setdefault(p, set()).add(n)
                for f in full:
                    k.add(f)
                    writes.setdefault(f, set()).add(n)
            gen[n], kill[n] = g, k
        live_in = dict((n, set()) for n in nodes)
        changed = True
        while changed:
            changed = False
            for n in nodes:
                lo = set()
                for s in sm.get(n, []):
                    if s in nodes:
                        lo |= live_in[s]
                li = gen[n] | (lo - kill[n])
                if li != live_in[n]:
                    live_in[n] = li
                    changed = True
        for l in sorted(live_in[head]):
            if l in writes:
                out.append((head, l, names.get(l), sorted(writes[l])))
    return out


# ---------------------------------------------------------------------------------------------
# rule LC: state carried from one element to the next
# ---------------------------------------------------------------------------------------------

DEFAULT_OK_TYPES = ("std::vec::Vec<diagnostic::Diagnostic>",)


def iterator_locals(body, nodes):
    """locals handed (by &mut) to Iterator::next inside the loop"""
    blocks = dict((b["i"], b) for b in body["blocks"])
    out = set()
    for n in nodes:
        b = blocks[n]
        t = b["term"]
        if t["k"] != "call":
            continue
        ci = callee_info(t)
        nm = (ci.get("resolved") or ci["def"]) if ci else ""
        if not nm.endswith("::next") or len(t["args"]) != 1 or t["args"][0]["k"] not in ("move", "copy"):
            continue
        tmp = t["args"][0]["place"]["l"]
        seen = set()
        work = [tmp]
        while work:   # follow `_a = &mut *_b` / `_a = &mut _b` / `_a = move _b` back to the borrowed local
            x = work.pop()
            if x in seen:
                continue
            seen.add(x)
            for bb in nodes:
                for s in blocks[bb]["stmts"]:
                    if s["k"] != "assign" or s["lhs"]["l"] != x or s["lhs"]["p"]:
                        continue
                    rv = s["rv"]
                    if rv["k"] == "ref" and rv["bk"] == "mut":
                        pl = rv["place"]
                        if not pl["p"]:
                            out.add(pl["l"])
                        elif all(isinstance(e, dict) and e.get("k") == "deref" for e in pl["p"]):
                            work.append(pl["l"])
                    elif rv["k"] == "use" and rv["op"]["k"] in ("move", "copy") and not rv["op"]["place"]["p"]:
                        work.append(rv["op"]["place"]["l"])
    return out


def state_of(facts, pth):
    """names of the state a function / closure carries from one element (iteration / call) to the next:
    loop-carried locals (except the loop's own iterator) and captures taken by mutable reference"""
    f = facts.fns[pth]
    body = f["body"]
    st = []
    loops = natural_loops(body)
    its = set()
    for head, nodes in loops.items():
        its |= iterator_locals(body, nodes)
    tys = dict((i, d.get("ty")) for i, d in enumerate(body.get("locals", []))) if isinstance(body.get("locals"), list) else {}
    for head, l, name, w in carried(body):
        if l in its:
            continue
        st.append(("loop", name or "_%d" % l, tys.get(l)))
    for c in f.get("captures") or []:
        by = c.get("by") or ""
        if "Mutable" in by or (by == "ByValue" and c.get("mutable")):
            st.append(("capture", c["name"], c["ty"]))
    return st


def load_table():
    import os
    import core
    t = json.load(open(os.path.join(core.VERIF, "spec", "carried_state.json")))
    return dict((k, v) for k, v in t.items() if not k.startswith("_"))


def outer_fn(pth):
    return pth.split("::{closure")[0]


def is_callback_type(ty):
    """a caller-provided callback: a type parameter (`F`), a closure type, `impl FnMut(..)` / `dyn FnMut(..)` (possibly behind a reference)"""
    import re
    t = ty.strip()
    while t.startswith("&"):
        t = t[1:].strip()
        if t.startswith("mut "):
            t = t[4:].strip()
    if t.startswith("{closure@"):
        return True
    if re.match(r"^[A-Z][A-Za-z0-9_]*$", t):          # a generic type parameter
        return True
    return re.match(r"^(impl |dyn )(for<[^>]*> )?(std::ops::)?(Fn|FnMut|FnOnce)\(", t) is not None


def rule(ctx, rep, prop, prefixes, table=None):
    """LC: every function / closure whose path starts with one of `prefixes` carries only the reviewed state
    `table` = {path: {name: reason}}; by default allowed: the diagnostics vector (append-only, checked by the effect rules),
    callbacks (type parameter F / closure types) whose state belongs to the caller"""
    import cfg as _cfg
    facts = ctx.mir
    if table is None:
        table = load_table()
    rep.rule("LC", "state carried between elements: in %s and the closures nested in them, every loop-carried local (written in a natural loop and live at its head, the loop's own iterator excepted) and every capture by mutable reference "
                   "is the diagnostics vector, a caller's callback, or listed in spec/carried_state.json - otherwise the one-generic-element tables do not describe later elements" % ", ".join(prefixes))
    n = 0
    for pth in sorted(facts.fns):
        if not any(pth == p or pth.startswith(p + "::") for p in prefixes):
            continue
        f = facts.fns[pth]
        if f.get("derived"):
            continue
        n += 1
        allowed = table.get(outer_fn(pth), [])
        used = {}
        for kind, name, ty in state_of(facts, pth):
            default_ok = (ty in DEFAULT_OK_TYPES) or (ty is not None and is_callback_type(ty))
            entry = None
            if not default_ok:
                for e in allowed:
                    if e["ty"] == ty and used.get(ty, 0) < e["max"]:
                        entry = e
                        used[ty] = used.get(ty, 0) + 1
                        break
            ok = default_ok or entry is not None
            rep.check(ok, "LC", "%s|LC|%s|%s" % (prop, pth, name), _cfg.where(f),
                      "%s keeps `%s` (%s, type %s) from one element to the next: the per-element tables of this property describe ONE generic element and are valid for every element only when no such state exists "
                      "(reviewed state of %s: %r)" % (pth, name, kind, ty, outer_fn(pth), ["%s x%d" % (e["ty"], e["max"]) for e in allowed]),
                      sample={"fn": pth, "state": name, "kind": kind, "why": entry["why"] if entry else "diagnostics vector / caller's callback"})
    rep.floor("LC", "functions and closures scanned for carried state (%s)" % prop, n, 1)
    return n
