"""C02 - well-formed documents yield a tree that mirrors the source, whatever the layout."""
from absint import *
from domain import *
import cfg
import common_g
import lexical
import wiring


def run(ctx, rep):
    facts = ctx.mir
    rep.rule("A9", "wiring: every user-written grammar action is interpreted abstractly (one symbolic value per production symbol) and every AST field it builds is compared with spec/wiring.json by symbol role: "
                   "names <- the IDENT in the stated role through text-preserving conversions, flags <- presence of the optional keyword, children <- the child symbols in source order, "
                   "qualified names re-joined with '.', recovered members dropped by flatten only, CommaSeparated keeps order, wrappers forward their symbol")
    rep.rule("A10.ii", "trivia: the skipped patterns accept exactly Unicode-whitespace runs, line comments and block comments (DFA equality with independently written references)")
    rep.rule("A10.i/iii/iv", "token classes equal the reference classes, ties are resolved as in the reference, only keywords outrank identifiers (so near-keyword names such as inout2, Listing are names)")
    rep.rule("A10.vi", "exact tokenizer comparison: with every pattern read under the regex crate's leftmost-first semantics (gramfacts lf_dfa), the class assigned to EVERY string equals the reference specification's (product of all token automata, shortest distinguishing string on failure)")
    rep.rule("B2", "non-interference of layout: no field other than ranges / doc depends on a position capture, on `input` or on `lookup`")
    rep.rule("CT", "type constructors of ast::Type record name / kind / children / ranges as given (tabulated)")
    n, stats = common_g.emit(ctx, rep, "C02", {"value", "flatten", "arity", "direction"}, "A9")
    rep.floor("A9", "wiring obligations (values)", n, 120)
    rep.floor("A9", "user-written grammar actions", stats["user_actions"], 60)
    lexical.rules(ctx, rep, "C02", {"trivia", "classes", "priority", "keywords", "finite", "tokenizer"})
    # ---- B2: layout non-interference
    obls, _ = wiring.analyse(ctx)
    import grammar
    bad = 0
    nchk = 0
    for a in grammar.user_actions(ctx.gram, facts):
        try:
            paths = a.run(facts, opaque_fns=["ast::Range::new", "ast::Position::new", "javadoc::get_javadoc", "diagnostic::Diagnostic::from_error_recovery"])
        except Unsupported:
            continue
        for p in paths:
            for fname, val in fields_of(facts, p.ret):
                nchk += 1
                if fname.endswith("_range") or fname == "doc" or fname.endswith("range"):
                    continue
                lv = leaves(lab(val), [])
                dep = [x for x in lv if x in ("input", "lookup") or x.endswith(":@L") or x.endswith(":@R") or x.startswith("L") and x[1:].isdigit() or x.startswith("R") and x[1:].isdigit()]
                if dep:
                    bad += 1
                    rep.fail("B2", "C02|B2|%s|%s" % (a.nt, fname), a.where(), "field %s built by %s depends on layout-dependent inputs %r: spacing or comments would change the tree" % (fname, a.nt, dep))
    rep.check(bad == 0, "B2", "C02|B2|summary", None, "no tree field outside ranges / doc depends on positions, the input text or the line lookup", sample={"fields examined": nchk})
    rep.floor("B2", "fields examined for layout dependence", nchk, 150)
    # ---- CT constructors
    ctor_rules(ctx, rep, "C02", ranges=False)
    rep.rule("J1", "shared with C18: the doc field is filled by a byte-indexed backward scan; every str index in it is provably a byte offset (a layout with non-ASCII text in a comment must not cut the slice wrongly or panic)")
    import c18
    c18.dimension_rule(ctx, rep, "C02")
    # the tree the grammar actions build is the tree the caller gets: stored as returned by the parser, handed to validation as stored
    import c12 as _c12
    rep.rule("H3", "inherits C12 H3 / H7 (re-evaluated here): add_content stores exactly what the generated parser returned (the tree of a successful parse is kept "
                   "whatever diagnostics the actions pushed), and validate passes every stored result through validation::validate")
    _c12.add_content_rule(ctx, rep, "C02", "H3")
    _c12.inherit_h7(ctx, rep, "C02")
    import c14 as _c14
    _c14.tree_kept_rule(ctx, rep, "C02", "R8")   # "every member in source order" also after validation: the tree is returned with the nodes the actions built
    rep.assumptions += ["TB-2 the generated parser calls the actions as the grammar says and the runtime lexer is longest-match with the match-block priority", "TB-1 rustc MIR", "TB-4 tabulator",
                        "lalrpop's canned actions for `*`, `+`, `?`, `( )` keep order (TB-2)"]
    rep.not_decided.append("that the generated LR tables implement the grammar (TB-2; gramfacts cross-checks tables against the front-end, outside the registered checks)")


def leaves(l, out):
    if isinstance(l, tuple):
        for x in l:
            leaves(x, out)
    elif isinstance(l, str):
        out.append(l)
    return out


def fields_of(facts, v, prefix=""):
    """(field name, value) for AST struct values nested in Option / tuples"""
    v = deref_val(v)
    out = []
    if isinstance(v, AdtVal):
        if v.ty.startswith("ast::") and v.variant is None:
            names = [f["name"] for f in facts.adt(v.ty)["variants"][0]["fields"]]
            for i, c in sorted(v.fields.items()):
                out.append((names[i], c.val))
        else:
            for i, c in sorted(v.fields.items()):
                out += fields_of(facts, c.val)
    return out


CTORS = {
    "ast::Type::simple_type": (["name", "kind", "lookup", "start", "end"], {"name": "name", "kind": "kind", "generic_types": [], "symbol_range": ("start", "end"), "full_range": ("start", "end")}),
    "ast::Type::array": (["param", "lookup", "start", "end", "fr_start", "fr_end"], {"kind": "Array", "generic_types": ["param"], "symbol_range": ("start", "end"), "full_range": ("fr_start", "fr_end")}),
    "ast::Type::list": (["param", "lookup", "start", "end", "fr_start", "fr_end"], {"kind": "List", "generic_types": ["param"], "symbol_range": ("start", "end"), "full_range": ("fr_start", "fr_end")}),
    "ast::Type::non_generic_list": (["lookup", "start", "end"], {"kind": "List", "generic_types": [], "symbol_range": ("start", "end"), "full_range": ("start", "end")}),
    "ast::Type::map": (["key_param", "value_param", "lookup", "start", "end", "fr_start", "fr_end"], {"kind": "Map", "generic_types": ["key_param", "value_param"], "symbol_range": ("start", "end"), "full_range": ("fr_start", "fr_end")}),
    "ast::Type::non_generic_map": (["lookup", "start", "end"], {"kind": "Map", "generic_types": [], "symbol_range": ("start", "end"), "full_range": ("start", "end")}),
}


def ctor_rules(ctx, rep, prop, ranges):
    facts = ctx.mir
    n = 0
    for path, (params, exp) in sorted(CTORS.items()):
        fn = facts.fn(path)
        args = [sym_ref("lookup") if p == "lookup" else Opaque(p) for p in params]
        paths = Machine(facts, opaque_fns=["ast::Range::new"], pure_fns=["ast::Range::new"]).run(path, args)
        ok = len(paths) == 1 and isinstance(paths[0].ret, AdtVal) and paths[0].ret.ty == "ast::Type" and not paths[0].effects
        det = {}
        if ok:
            r = paths[0].ret
            names = [f["name"] for f in facts.adt("ast::Type")["variants"][0]["fields"]]
            vals = dict((names[i], c.val) for i, c in r.fields.items())
            for k, e in exp.items():
                v = vals.get(k)
                if k == "kind":
                    okk = (lab(v) == e) if e == "kind" else (isinstance(v, AdtVal) and v.vname == e)
                elif k == "name":
                    okk = lab(v) == e
                elif k == "generic_types":
                    okk = isinstance(v, VecVal) and [lab(c.val) for c in v.elems] == e
                else:
                    okk = lab(v) == ("call", "ast::Range::new", ("lookup", e[0], e[1]))
                det[k] = fmt_label(lab(v))
                is_range = k.endswith("_range")
                if is_range == ranges:
                    n += 1
                    rep.check(okk, "CT", "%s|CT|%s|%s" % (prop, path, k), cfg.where(fn), "%s must set %s from %r; extracted %s" % (path, k, e, det[k]), sample={"ctor": path, "field": k, "value": det[k]})
        else:
            rep.fail("CT", "%s|CT|%s|shape" % (prop, path), cfg.where(fn), "%s must build one ast::Type on one path" % path)
    rep.floor("CT", "constructor field obligations", n, 8)
