"""A8 panic-site inventory over user-written bodies reachable from the entry points."""
import re
from mirlib import callee_info
import dataflow

PANIC_CALLS = re.compile(r"(^|::)(unwrap|expect|unwrap_err|expect_err)$")
PANICKING = re.compile(r"core::panicking::|std::rt::begin_panic|std::panicking::|::panic_fmt|::panic$|::unreachable_display|::panic_display|::panic_nounwind|::panic_cannot_unwind")


# std / core APIs documented to panic for some arguments (denylist; everything else in std is taken as total, TB-3).
# The names are matched on the resolved callee path.
MAY_PANIC = re.compile(r"""(
    vec::Vec::<[^>]*>::(insert|remove|swap_remove|drain|split_off|splice|extend_from_within|reserve_exact)$
  | VecDeque::<[^>]*>::(insert|swap|drain|range|split_off)$
  | <impl\ \[T\]>::(split_at|split_at_mut|swap|copy_from_slice|clone_from_slice|chunks|chunks_mut|chunks_exact|chunks_exact_mut|rchunks|rchunks_mut|rchunks_exact
                    |windows|rotate_left|rotate_right|select_nth_unstable|select_nth_unstable_by|select_nth_unstable_by_key|copy_within|fill_with|split_first_chunk|as_chunks|repeat)$
  | string::String::(insert|insert_str|remove|truncate|split_off|drain|replace_range)$
  | <impl\ str>::(split_at|split_at_mut|repeat)$
  | iter::Iterator::(step_by|sum|product)$
  | RefCell::?<[^>]*>::(borrow|borrow_mut|replace|swap|replace_with)$
  | core::num::<impl\ [a-z0-9]+>::(pow|abs|div_euclid|rem_euclid|next_power_of_two|isqrt|ilog|ilog2|ilog10|div_ceil|next_multiple_of|div_floor|strict_[a-z_]+|unchecked_[a-z_]+)$
  | char::methods::<impl\ char>::(from_digit|to_digit|is_digit)$
  | std::process::(exit|abort)$ | std::thread:: | std::sync::.*::(lock|read|write)$
  | std::time::Instant::(duration_since|elapsed)$ | time::Duration::(from_secs_f32|from_secs_f64|mul_f32|mul_f64|div_f32|div_f64)$
  | ::(unwrap_unchecked|get_unchecked|get_unchecked_mut|from_utf8_unchecked|unreachable_unchecked|assume_init|transmute)$
  | std::env::(var|args)$
)""", re.X)


def sites(facts, reach, skip=lambda p: False):
    out = []
    for p in sorted(reach):
        f = facts.fns[p]
        if f.get("derived") or skip(p):
            continue
        n = {}
        for b in f["body"]["blocks"]:
            if b["cleanup"]:
                continue
            t = b["term"]
            kind = None
            detail = None
            if t["k"] == "assert":
                if t["msg"] in ("misaligned", "null_deref"):
                    continue  # debug-build pointer checks inserted by rustc on reference derefs of raw pointers (none on safe references)
                kind = "assert:" + t["msg"] + (":" + t["binop"] if t.get("binop") else "")
                detail = ""
            elif t["k"] == "call":
                ci = callee_info(t)
                if ci is None:
                    continue
                name = ci.get("resolved") or ci["def"]
                d = ci["def"]
                if PANIC_CALLS.search(name):
                    kind = "unwrap"
                    detail = name
                elif PANICKING.search(name) or (t["target"] is None and "panic" in name):
                    kind = "panic"
                    detail = name
                elif d in ("std::ops::Index::index", "std::ops::IndexMut::index_mut"):
                    kind = "index"
                    detail = " ".join((ci.get("args") or [])[:2])
                elif name.endswith("get_by_cluster") or name.endswith("LineColLookup::<'source>::get"):
                    kind = "lookup"
                    detail = name
                elif re.search(r"RefCell<.*>::(borrow|borrow_mut)$", name):
                    kind = "borrow"
                    detail = name
                elif MAY_PANIC.search(name):
                    kind = "may-panic-call"
                    detail = name
            if kind is None:
                continue
            n[kind] = n.get(kind, 0) + 1
            out.append({"fn": p, "kind": kind, "detail": detail, "ordinal": n[kind], "span": t["span"], "bb": b["i"],
                        "where": "%s:%d:%d (%s)" % (t["span"]["file"], t["span"]["line"], t["span"]["col"], p)})
    return out
