"""A8 panic-site inventory over user-written bodies reachable from the entry points."""
import re
from mirlib import callee_info
import dataflow

PANIC_CALLS = re.compile(r"(^|::)(unwrap|expect|unwrap_err|expect_err)$")
PANICKING = re.compile(r"core::panicking::|std::rt::begin_panic|std::panicking::|::panic_fmt|::panic$|::unreachable_display|::panic_display|::panic_nounwind|::panic_cannot_unwind")


def sites(facts, reach, skip=lambda p: False):
    out = []
    for p in sorted(reach):
        f = facts.fns[p]
        if f.get("derived") or skip(p):
            continue
        n = {}
        for b in f["body"]["blocks"]:
            if b["cleanup"]:
                continue
            t = b["term"]
            kind = None
            detail = None
            if t["k"] == "assert":
                if t["msg"] in ("misaligned", "null_deref"):
                    continue  # debug-build pointer checks inserted by rustc on reference derefs of raw pointers (none on safe references)
                kind = "assert:" + t["msg"] + (":" + t["binop"] if t.get("binop") else "")
                detail = ""
            elif t["k"] == "call":
                ci = callee_info(t)
                if ci is None:
                    continue
                name = ci.get("resolved") or ci["def"]
                d = ci["def"]
                if PANIC_CALLS.search(name):
                    kind = "unwrap"
                    detail = name
                elif PANICKING.search(name) or (t["target"] is None and "panic" in name):
                    kind = "panic"
                    detail = name
                elif d in ("std::ops::Index::index", "std::ops::IndexMut::index_mut"):
                    kind = "index"
                    detail = " ".join((ci.get("args") or [])[:2])
                elif name.endswith("get_by_cluster") or name.endswith("LineColLookup::<'source>::get"):
                    kind = "lookup"
                    detail = name
                elif re.search(r"RefCell<.*>::(borrow|borrow_mut)$", name):
                    kind = "borrow"
                    detail = name
                elif name.endswith("::split_at") or name.endswith("::swap") or name.endswith("::remove") and "Vec" in name or name.endswith("::insert") and "vec::Vec" in name:
                    kind = "may-panic-call"
                    detail = name
            if kind is None:
                continue
            n[kind] = n.get(kind, 0) + 1
            out.append({"fn": p, "kind": kind, "detail": detail, "ordinal": n[kind], "span": t["span"], "bb": b["i"],
                        "where": "%s:%d:%d (%s)" % (t["span"]["file"], t["span"]["line"], t["span"]["col"], p)})
    return out
