"""C16 - pointing at a name finds the symbol that carries it."""
import itertools
from absint import *
from domain import *
from tables import symbol_values
import cfg

DIMS = {  # label of a bound -> (which bound, which coordinate)
    "range.start.line_col.0": ("start", 0), "range.start.line_col.1": ("start", 1),
    "range.end.line_col.0": ("end", 0), "range.end.line_col.1": ("end", 1),
}
QUERY = {"q.0": 0, "q.1": 1}


def literal(label):
    """(op, bound, coord) for a comparison literal between a range bound and the query coordinate of the same dimension"""
    if not (isinstance(label, tuple) and len(label) == 3 and label[0] in ("gt", "lt", "ge", "le", "eq", "ne")):
        return None
    op, a, b = label
    if a in DIMS and b in QUERY and DIMS[a][1] == QUERY[b]:
        return (op, DIMS[a][0], DIMS[a][1], False)
    if b in DIMS and a in QUERY and DIMS[b][1] == QUERY[a]:
        return (op, DIMS[b][0], DIMS[b][1], True)  # swapped operands
    return None


def holds(op, rel, swapped):
    # rel = sign(bound - query); swapped: the literal is written query OP bound
    r = -rel if swapped else rel
    return {"gt": r > 0, "lt": r < 0, "ge": r >= 0, "le": r <= 0, "eq": r == 0, "ne": r != 0}[op]


def run(ctx, rep):
    rep.exhaustive = True  # 81 order types, 11 symbol variants: the finite space the property quantifies over is enumerated completely
    facts = ctx.mir
    rep.rule("Q1", "A3 path enumeration of traverse::range_contains with its six integers opaque: every branch literal must be a comparison between a bound and the query coordinate of the same dimension; "
                   "the resulting boolean function is compared with `start <=lex position <=lex end` (inclusive) over all 81 order types")
    rep.rule("Q2", "find_symbol_at_line_col = find_symbol(ast, filter, |s| range_contains(s.get_range(), position))")
    rep.rule("Q3", "A3 table of Symbol::get_range over all Symbol variants: the node's symbol_range (the name range)")
    rep.rule("Q4", "inherits C15: first symbol in traversal order, package included, any depth (see C15 rules; re-evaluated here)")
    fn = facts.fn("traverse::range_contains")
    q = AdtVal("tuple", None, {0: Cell(Opaque("q.0", "usize")), 1: Cell(Opaque("q.1", "usize"))})
    paths = Machine(facts).run("traverse::range_contains", [sym_ref("range", "ast::Range"), q])
    rep.floor("Q1", "paths of range_contains", len(paths), 2)
    ok_shape = True
    for p in paths:
        ret_lit = isinstance(p.ret, Opaque) and literal(p.ret.label) is not None   # `a && (b <= c)`: the last comparison is returned as it is
        if p.exit != "return" or not ((isinstance(p.ret, Const) and p.ret.kind == "bool") or ret_lit) or p.effects:
            ok_shape = False
            rep.fail("Q1", "C16|Q1|shape", cfg.where(fn), "range_contains must be loop-free, effect-free and return a constant bool per path; got exit=%s ret=%r effects=%r" % (p.exit, p.ret, p.effects))
        for l, v in p.conds:
            if literal(l) is None:
                ok_shape = False
                rep.fail("Q1", "C16|Q1|literal|%s" % fmt_label(l), cfg.where(fn),
                         "branch on %s is not a comparison between a range bound and the query coordinate of the same dimension" % fmt_label(l))
    if ok_shape:
        n = 0
        for rels in itertools.product((-1, 0, 1), repeat=4):
            rel = {("start", 0): rels[0], ("start", 1): rels[1], ("end", 0): rels[2], ("end", 1): rels[3]}
            # spec: start <=lex q  and q <=lex end
            le_start = rel[("start", 0)] < 0 or (rel[("start", 0)] == 0 and rel[("start", 1)] <= 0)
            le_end = rel[("end", 0)] > 0 or (rel[("end", 0)] == 0 and rel[("end", 1)] >= 0)
            spec = le_start and le_end
            matching = []
            for p in paths:
                if all(holds(literal(l)[0], rel[(literal(l)[1], literal(l)[2])], literal(l)[3]) == v for l, v in p.conds):
                    matching.append(p)
            n += 1
            key = "start.line%sq.line,start.col%sq.col,end.line%sq.line,end.col%sq.col" % tuple("<=>"[r + 1] for r in rels)
            if len(matching) != 1:
                rep.fail("Q1", "C16|Q1|order|%s|paths" % key, cfg.where(fn), "%d paths match order type %s" % (len(matching), key))
                continue
            r_ = matching[0].ret
            if isinstance(r_, Const):
                got = r_.v
            else:
                ll = literal(r_.label)
                got = holds(ll[0], rel[(ll[1], ll[2])], ll[3])
            rep.check(got == spec, "Q1", "C16|Q1|order|%s" % key, cfg.where(fn),
                      "order type (%s): containment must be %s (inclusive at both ends, lexicographic on (line, column)); the code returns %s" % (key, spec, got),
                      witness={"order_type": key, "expected": spec, "got": got},
                      sample={"order_type": key, "contains": got})
        rep.floor("Q1", "order types", n, 81)

    # ---- Q2
    fs = facts.fn("traverse::find_symbol_at_line_col")
    paths = Machine(facts, opaque_fns=["traverse::find_symbol"]).run(
        "traverse::find_symbol_at_line_col", [sym_ref("ast"), Opaque("filter"), AdtVal("tuple", None, {0: Cell(Opaque("q.0")), 1: Cell(Opaque("q.1"))})])
    ok = False
    detail = None
    clos = facts.closures_of("traverse::find_symbol_at_line_col")
    if len(paths) == 1 and paths[0].exit == "return" and len(clos) == 1:
        effs = [e for e in paths[0].effects if e[0] == "call"]
        if len(effs) == 1 and effs[0][1] == "traverse::find_symbol" and effs[0][2][0] == "ast" and effs[0][2][1] == "filter":
            ret_ok = lab(paths[0].ret) == ("call", "traverse::find_symbol", effs[0][2])
            env = AdtVal("closure:" + clos[0], None, {0: Cell(AdtVal("tuple", None, {0: Cell(Opaque("q.0")), 1: Cell(Opaque("q.1"))}, "position"))})
            body = facts.fns[clos[0]]["body"]
            cap = facts.fns[clos[0]]["captures"]
            if len(cap) == 1 and cap[0]["by"].startswith("ByRef"):
                env = AdtVal("closure:" + clos[0], None, {0: Cell(Ref(Cell(Opaque("position"))))})
            elif len(cap) == 1:
                env = AdtVal("closure:" + clos[0], None, {0: Cell(Opaque("position"))})
            cp = Machine(facts, opaque_fns=["traverse::range_contains", "symbol::Symbol::<'a>::get_range"]).run(clos[0], [Ref(Cell(env), True), sym_ref("smb")])
            if len(cp) == 1:
                detail = [fmt_label(e[1:3]) for e in cp[0].effects] + [fmt_label(lab(cp[0].ret))]
                want = ("call", "traverse::range_contains", (("call", "symbol::Symbol::<'a>::get_range", ("smb",)), "position"))
                ok = ret_ok and lab(cp[0].ret) == want
    rep.check(ok, "Q2", "C16|Q2|lookup-shape", cfg.where(fs),
              "find_symbol_at_line_col must be find_symbol(ast, filter, |s| range_contains(s.get_range(), position)); extracted %r" % (detail,),
              sample={"closure": detail})

    # ---- Q3
    fg = facts.fn("symbol::Symbol::<'a>::get_range")
    syms = symbol_values(facts)
    rep.floor("Q3", "Symbol variants", len(syms), 11)
    for vname, sv in syms:
        paths = Machine(facts).run("symbol::Symbol::<'a>::get_range", [Ref(Cell(sv))])
        got = [fmt_label(lab(p.ret)) for p in paths]
        ok = len(paths) == 1 and paths[0].exit == "return" and lab(paths[0].ret) == "node.symbol_range" and not paths[0].effects
        rep.check(ok, "Q3", "C16|Q3|%s" % vname, cfg.where(fg), "Symbol::%s.get_range() must be the node's symbol_range (name range); extracted %r" % (vname, got),
                  sample={"variant": vname, "range": got})

    # ---- Q0: the coordinates stored in the name ranges
    rep.rule("Q0", "shared with C04 (P0, P1, P4): the line/column stored in every range is line-col's grapheme-cluster lookup (the unit editors and the documented API use) of the very offset the parser reported, on the caller's own text")
    import c04
    import c12
    c04.position_rules(ctx, rep, "C16")
    c12.content_untouched(ctx, rep, "P0", "C16")
    # ---- W: the name ranges themselves (grammar wiring)
    rep.rule("W", "C04 W2 re-evaluated for the name ranges: every symbol_range spans exactly the name token(s) of its node")
    import common_g
    nW, _ = common_g.emit(ctx, rep, "C16", {"range"}, "W", r"\|symbol_range$")
    rep.floor("W", "symbol_range wiring obligations", nW, 15)
    # ---- Q4: traversal obligations shared with C15
    import c15
    c15.symbol_walker_rules(ctx, rep, "C16")
    rep.rule("V5", "inherits C15 V5: find_symbol asks the predicate in the walker's order from the first symbol on and returns the first match")
    c15.wrapper_rules(ctx, rep, "C16")
    rep.rule("LX", "lexical agreement (C03 A10, re-evaluated here): the property quantifies over documents - token classes, their priorities, the keyword rule, comments and white space must be the reference ones (a changed comment / number / keyword regex silently drops or merges members)")
    import lexical
    lexical.rules(ctx, rep, "C16", {"trivia", "classes", "priority", "keywords", "tokenizer"})
    rep.assumptions += ["TB-1 rustc MIR", "TB-4 tabulator", "the name range itself is exact (C04 W2)"]
    rep.not_decided.append("line / column arithmetic for multi-byte text and CRLF inside the line-col crate (TB-3)")
