"""Loading and basic queries over MIRFACTS (the JSON written by tools/mirfacts)."""
import json, sys
from collections import defaultdict


def place_str(p):
    s = "_%d" % p["l"]
    for e in p["p"]:
        k = e["k"]
        if k == "deref":
            s = "(*%s)" % s
        elif k == "field":
            s = "%s.%s" % (s, e["name"] if e.get("name") is not None else e["i"])
        elif k == "downcast":
            s = "(%s as %s)" % (s, e.get("name") or e["variant"])
        elif k == "index":
            s = "%s[_%d]" % (s, e["local"])
        elif k == "cindex":
            s = "%s[%s%d]" % (s, "-" if e["from_end"] else "", e["offset"])
        elif k == "subslice":
            s = "%s[%d..%s%d]" % (s, e["from"], "-" if e["from_end"] else "", e["to"])
        else:
            s = "%s.<%s>" % (s, k)
    return s


def const_str(c):
    if "fn" in c:
        f = c["fn"]
        return "fn:" + (f.get("resolved") or f["def"])
    for k in ("str", "bool", "int", "char"):
        if k in c:
            return "%s:%r" % (k, c[k])
    if "promoted" in c:
        return "promoted[%d]" % c["promoted"]
    return "const(%s)" % c["display"]


def op_str(o):
    k = o["k"]
    if k in ("copy", "move"):
        return ("move " if k == "move" else "") + place_str(o["place"])
    if k == "const":
        return const_str(o["c"])
    return k


def rv_str(rv):
    k = rv["k"]
    if k == "use":
        return op_str(rv["op"])
    if k == "ref":
        return "&%s%s" % ("mut " if rv["bk"] == "mut" else "", place_str(rv["place"]))
    if k == "aggregate":
        if rv["agg"] == "adt":
            return "%s::%s{%s}" % (rv["adt"], rv["variant_name"], ", ".join(
                "%s: %s" % (n, op_str(o)) for n, o in zip(rv["fields"], rv["ops"])))
        if rv["agg"] == "closure":
            return "closure %s [%s]" % (rv["closure"], ", ".join(op_str(o) for o in rv["ops"]))
        return "%s(%s)" % (rv["agg"], ", ".join(op_str(o) for o in rv["ops"]))
    if k == "binop":
        return "%s(%s, %s)" % (rv["op"], op_str(rv["a"]), op_str(rv["b"]))
    if k == "unop":
        return "%s(%s)" % (rv["op"], op_str(rv["a"]))
    if k == "discriminant":
        return "discriminant(%s)" % place_str(rv["place"])
    if k == "cast":
        return "%s as %s [%s]" % (op_str(rv["op"]), rv["ty"], rv["kind"])
    if k == "copy_for_deref":
        return "deref_copy %s" % place_str(rv["place"])
    if k == "rawptr":
        return "&raw %s" % place_str(rv["place"])
    if k == "repeat":
        return "[%s; %s]" % (op_str(rv["op"]), rv["n"])
    return k


def callee_of(term):
    """Resolved callee path of a call terminator (or None for indirect calls)."""
    f = term["func"]
    if f["k"] == "const" and "fn" in f["c"]:
        fn = f["c"]["fn"]
        return fn.get("resolved") or fn["def"]
    return None


def callee_info(term):
    f = term["func"]
    if f["k"] == "const" and "fn" in f["c"]:
        return f["c"]["fn"]
    return None


def term_str(t):
    k = t["k"]
    if k == "goto":
        return "goto bb%d" % t["target"]
    if k == "switch":
        return "switch %s [%s, otherwise bb%d]" % (op_str(t["discr"]), ", ".join(
            "%d->bb%d" % (v, b) for v, b in t["targets"]), t["otherwise"])
    if k == "call":
        ci = callee_info(t)
        name = (ci.get("resolved") or ci["def"]) if ci else op_str(t["func"])
        if ci and ci.get("resolved") is None and ci.get("trait"):
            name = "<%s>::%s" % (",".join(ci["args"][:1]), ci["def"])
        return "%s = %s(%s) -> %s" % (place_str(t["dest"]), name, ", ".join(op_str(a) for a in t["args"]),
                                      "bb%d" % t["target"] if t["target"] is not None else "!")
    if k == "assert":
        return "assert(%s == %s, %s %s) -> bb%d" % (op_str(t["cond"]), t["expected"], t["msg"], t.get("binop") or "", t["target"])
    if k == "drop":
        return "drop(%s) -> bb%d" % (place_str(t["place"]), t["target"])
    return k


def dump_fn(f, out=sys.stdout, body=None):
    b = body or f["body"]
    print("fn %s  [%s:%d]" % (f["path"], f["span"]["file"], f["span"]["line"]), file=out)
    names = {}
    for d in b["debug"]:
        if "l" in d["place"]:
            names.setdefault(place_str(d["place"]), d["name"])
    for l in b["locals"]:
        nm = names.get("_%d" % l["i"])
        print("  let _%d: %s%s" % (l["i"], l["ty"], "  // " + nm if nm else ""), file=out)
    for d in b["debug"]:
        if "l" in d["place"] and d["place"]["p"]:
            print("  debug %s => %s" % (d["name"], place_str(d["place"])), file=out)
    for blk in b["blocks"]:
        print("  bb%d%s:" % (blk["i"], " (cleanup)" if blk["cleanup"] else ""), file=out)
        for s in blk["stmts"]:
            if s["k"] == "assign":
                print("    %s = %s   // L%d" % (place_str(s["lhs"]), rv_str(s["rv"]), s["span"]["line"]), file=out)
            elif s["k"] == "set_discriminant":
                print("    discriminant(%s) = %d" % (place_str(s["place"]), s["variant"]), file=out)
        t = blk["term"]
        print("    %s%s" % (term_str(t), "   // L%d" % t["span"]["line"] if "span" in t else ""), file=out)


class Facts:
    def __init__(self, path):
        with open(path) as fh:
            text = fh.read()
        import aliases
        text, self.aliases = aliases.canonicalize(text)   # renamed private functions -> the names the rules use
        d = json.loads(text)
        self.raw = d
        self.nonce = d.get("nonce")
        self.fns = {f["path"]: f for f in d["fns"]}
        self.adts = {a["path"]: a for a in d["adts"]}
        self.statics = d["statics"]

    def fn(self, path):
        f = self.fns.get(path)
        if f is None:
            raise KeyError("anchor-missing: function %s" % path)
        return f

    def closures_of(self, path, nested=False):
        """closures defined directly in `path` (nested=True: also closures inside those closures)"""
        out = sorted(p for p in self.fns if p.startswith(path + "::{closure#"))
        if not nested:
            out = [p for p in out if "::" not in p[len(path) + 2:]]
        return out

    def adt(self, path):
        a = self.adts.get(path)
        if a is None:
            raise KeyError("anchor-missing: ADT %s" % path)
        return a

    def variants(self, path):
        return [v["name"] for v in self.adt(path)["variants"]]


def blocks(body, include_cleanup=False):
    return [b for b in body["blocks"] if include_cleanup or not b["cleanup"]]


def successors(term, with_unwind=False):
    k = term["k"]
    out = []
    if k == "goto":
        out = [term["target"]]
    elif k == "switch":
        out = [b for _, b in term["targets"]] + [term["otherwise"]]
    elif k == "call":
        if term["target"] is not None:
            out = [term["target"]]
    elif k in ("assert", "drop"):
        out = [term["target"]]
    if with_unwind and isinstance(term.get("unwind"), int):
        out.append(term["unwind"])
    return out


def calls(body, include_cleanup=False):
    """Yield (block index, terminator) for every call terminator."""
    for b in blocks(body, include_cleanup):
        if b["term"]["k"] == "call":
            yield b["i"], b["term"]


if __name__ == "__main__":
    facts = Facts(sys.argv[1])
    for name in sys.argv[2:]:
        hit = [p for p in facts.fns if p == name] or [p for p in facts.fns if name in p]
        for p in hit:
            dump_fn(facts.fns[p])
            for i, pb in enumerate(facts.fns[p]["promoted"]):
                print(" promoted[%d]:" % i)
                dump_fn(facts.fns[p], body=pb)
