"""The finite abstract domains the properties quantify over, generated from the ADT definitions
of the analysed tree (a new variant without a spec row therefore fails closed)."""
from absint import *

TYPEKIND = "ast::TypeKind"
ANDROID = "ast::AndroidTypeKind"
RESOLVED = "ast::ResolvedItemKind"
DIRECTION = "ast::Direction"
DIAG = "diagnostic::Diagnostic"
DIAGKIND = "diagnostic::DiagnosticKind"


def categories(facts, key_label="key"):
    """[(category name, TypeKind abstract value)] - 17 on the pinned tree"""
    out = []
    for v in facts.adt(TYPEKIND)["variants"]:
        n = v["name"]
        if n == "AndroidType":
            for a in facts.variants(ANDROID):
                out.append((a, enum_val(facts, TYPEKIND, n, {0: enum_val(facts, ANDROID, a)})))
        elif n == "ResolvedItem":
            for a in facts.variants(RESOLVED):
                out.append(("Resolved:" + a, enum_val(facts, TYPEKIND, n, {0: Opaque(key_label, "std::string::String"), 1: enum_val(facts, RESOLVED, a)})))
        else:
            if v["fields"]:
                raise KeyError("anchor-missing: TypeKind::%s has a payload the domain generator does not know" % n)
            out.append((n, enum_val(facts, TYPEKIND, n)))
    return out


def directions(facts, label="arg.direction"):
    out = []
    for v in facts.adt(DIRECTION)["variants"]:
        if v["fields"]:
            out.append((v["name"], enum_val(facts, DIRECTION, v["name"], {0: Opaque(label + ".range", "ast::Range")})))
        else:
            out.append((v["name"], enum_val(facts, DIRECTION, v["name"])))
    return out


def type_node(facts, label, kind, **over):
    o = {"kind": kind}
    o.update(over)
    return struct_val(facts, "ast::Type", label, o)


DIAG_FIELDS = {}


def register_diag_fields(facts):
    """field order of diagnostic::Diagnostic / RelatedInfo as defined in the analysed tree"""
    DIAG_FIELDS["names"] = dict((i, f["name"]) for i, f in enumerate(facts.adt(DIAG)["variants"][0]["fields"]))
    DIAG_FIELDS["rel_range"] = [f["name"] for f in facts.adt("diagnostic::RelatedInfo")["variants"][0]["fields"]].index("range")


def diag_of(effect):
    """summary of a `push` effect of a Diagnostic aggregate: (kind, range label, context const)"""
    v = effect[2]
    if not isinstance(v, AdtVal) or v.ty != DIAG:
        return {"kind": "?", "range": lab(v), "value": repr(v)}
    out = {}
    names = DIAG_FIELDS.get("names") or {0: "kind", 1: "range", 2: "message", 3: "context_message", 4: "hint", 5: "related_infos"}
    for i, c in v.fields.items():
        out[names.get(i, str(i))] = c.val
    k = out.get("kind")
    kind = k.vname if isinstance(k, AdtVal) else lab(k)
    rng = out.get("range")
    rel = out.get("related_infos")
    rels = None
    if isinstance(rel, VecVal):
        rels = []
        for c in rel.elems:
            rv = c.val
            if isinstance(rv, AdtVal):
                # RelatedInfo { range, message }
                rr = [lab(x.val) for i, x in sorted(rv.fields.items())]
                rels.append(range_label(rv.fields[DIAG_FIELDS.get("rel_range", 0)].val))
            else:
                rels.append(lab(rv))
    ctx = deref_val(out.get("context_message"))
    ctxs = None
    if isinstance(ctx, AdtVal) and ctx.variant is not None:
        ctxs = lab(ctx.fields[0].val) if 0 in ctx.fields else "None"
    return {"kind": kind, "range": range_label(rng), "related": rels, "where": effect[3], "built_at": v.site, "context": ctxs, "message": lab(out.get("message"))}


def range_label(v):
    """normalise a Range abstract value to a readable provenance: either a label string or
    ('empty_at', label) for the idiom Range{start: p.clone(), end: p.clone()}"""
    v = deref_val(v)
    if isinstance(v, AdtVal) and v.ty == "ast::Range" and set(v.fields) == {0, 1}:
        a, b = lab(v.fields[0].val), lab(v.fields[1].val)
        if v.label is not None and a == join_label(v.label, "start") and b == join_label(v.label, "end"):
            return v.label
        if a == b:
            return ("empty_at", a)
        return ("range", a, b)
    return lab(v)


def only_pushes(path, target="diagnostics"):
    """effects other than pushes to `target` (and bookkeeping) - must be empty for pure checkers"""
    other = []
    for e in path.effects:
        if e[0] == "push" and e[1] == target:
            continue
        if e[0] in ("next", "next_end", "iterate", "iterate_end"):
            continue
        other.append(e)
    from absint import iteration_problems
    other += [("early-exit", x) for x in iteration_problems(path)]
    return other
