"""C05 - every user-type reference is resolved per AIDL scoping, or reported unknown."""
import json, os
from core import VERIF
from absint import *
from domain import *
from closures import run_closure
import cfg
import walkers

RT = "validation::resolve_type"
FQN = "ast::AndroidTypeKind::from_qualified_name"
FN = "ast::AndroidTypeKind::from_name"
FTN = "ast::AndroidTypeKind::from_type_name"
CBQ = "ast::AndroidTypeKind::can_be_qualified"


def alias(l):
    if isinstance(l, tuple) and l and l[0] == "call":
        name, args = l[1], l[2]
        s = fmt_label(l)
        if name.startswith("std::iter::Iterator::") and name.rsplit("::", 1)[1] in ("min", "find", "find_map", "max", "next", "last", "min_by", "min_by_key", "max_by", "max_by_key", "nth"):
            if "declared_parcelables" in s and "imports" not in s.replace("declared_parcelables", ""):
                return "DECL_MATCH"
            if "imports" in s:
                return "IMPORT_MATCH"
        if name == FQN:
            return ("FQN", args[0])
        if name in (FN, FTN):
            return ("FN", args[0])
        if name == CBQ:
            return ("CBQ", args[0])
        if name.endswith("::get") and len(args) == 2 and args[0] == "defined":
            return ("DEFINED", args[1])
        if name.endswith("::contains") and len(args) == 2 and args[0] == "imports":
            return ("IMPORTED", args[1])
    return l


def cond_map(p):
    m = {}
    for l, v in p.conds:
        if isinstance(l, tuple) and l[0] == "variant":
            m[l[1]] = v
        else:
            m[l] = v
    return m


def resolve_type_paths(facts, kind):
    t = type_node(facts, "type_", kind)
    m = Machine(facts, opaque_fns=[FQN, FN, FTN, CBQ], pure_fns=[FQN, FN, FTN, CBQ, "std::iter::Iterator::min", "std::iter::Iterator::find",
                                                                "std::iter::Iterator::min_by_key", "std::iter::Iterator::min_by", "std::iter::Iterator::max"], alias=alias)
    return m.run(RT, [Ref(Cell(t), True), sym_ref("imports"), sym_ref("declared_parcelables"), sym_ref("defined"), sym_ref("diagnostics", mut=True)])


def resolve_type_rules(ctx, rep, prop="C05", builtin_precedence=True):
    facts = ctx.mir
    fn = facts.fn(RT)
    cats = categories(facts)
    # P7 already-classified nodes are left alone
    for cname, kind in cats:
        if cname == "Unresolved":
            continue
        paths = resolve_type_paths(facts, kind)
        ok = len(paths) == 1 and paths[0].exit == "return" and not paths[0].effects
        rep.check(ok, "B", "%s|B|already-classified|%s" % (prop, cname), cfg.where(fn), "resolve_type must leave a %s node untouched (no diagnostic, no assignment)" % cname)
    paths = resolve_type_paths(facts, enum_val(facts, TYPEKIND, "Unresolved"))
    rep.floor("B", "paths of resolve_type on an unresolved node", len(paths), 6)
    n_item = n_fwd = n_android = n_err = 0
    for i, p in enumerate(paths):
        cm = cond_map(p)
        assigns = [e for e in p.effects if e[0] == "assign"]
        pushes = [diag_of(e) for e in p.pushes("diagnostics")]
        other = [e for e in p.effects if e[0] not in ("assign", "push")]
        desc = "; ".join("%s=%s" % (fmt_label(k), v) for k, v in cm.items())
        key = "%s|B|path|%s" % (prop, desc[:160])
        w = assigns[0][3] if assigns else (pushes[0]["where"] if pushes else cfg.where(fn))
        # P1: exactly one outcome
        one = (len(assigns) == 1 and assigns[0][1] == "type_.kind" and not pushes) or (not assigns and len(pushes) == 1)
        if not rep.check(one and p.exit == "return" and not other, "B", key + "|one-outcome", w,
                         "on the path [%s] an unresolved reference must end with exactly one of: a classification (assignment of type_.kind) or one Error; extracted assignments %r, diagnostics %r, other effects %r, exit %s" % (
                             desc, [fmt_label(a[2]) for a in assigns], [(d["kind"], d["range"]) for d in pushes], [fmt_label(o[1:3]) for o in other], p.exit),
                         sample={"path": desc, "outcome": fmt_label(assigns[0][2]) if assigns else "Error"}):
            continue
        if pushes:
            n_err += 1
            d = pushes[0]
            ok = d["kind"] == "Error" and d["range"] == "type_.symbol_range"
            fits_none = cm.get("IMPORT_MATCH") == "None" and cm.get("DECL_MATCH") == "None" and (
                cm.get(("FN", "type_.name")) == "None" or cm.get(("FQN", "type_.name")) == "Some")
            rep.check(ok and fits_none, "B", key + "|error", d["where"],
                      "the 'unknown type' Error must sit on the name (type_.symbol_range) and be raised only when no import matches, no forward declaration matches and the name is no built-in: path [%s], diagnostic %r" % (desc, (d["kind"], d["range"])))
            continue
        val = assigns[0][2]
        ok = False
        msg = ""
        if isinstance(val, tuple) and val[0] == "adt" and val[1] == TYPEKIND and val[2] == "ResolvedItem":
            fields = dict(val[3])
            k, kind = fields.get(0), fields.get(1)
            if k == "IMPORT_MATCH.Some.0":
                n_item += 1
                # the built-in question is asked about the MATCHED PATH (android.os.IBinder is the built-in, demo.IBinder is the project's item)
                o3 = cm.get(("FQN", k)) == "None" or not builtin_precedence
                if kind == ("adt", RESOLVED, "UnknownImport", ()):
                    o1 = cm.get(("DEFINED", k)) == "None"
                else:
                    o1 = cm.get(("DEFINED", k)) == "Some" and kind == ("field", ("DEFINED", k), "Some.0")
                ok = o3 and o1 and cm.get("IMPORT_MATCH") == "Some"
                msg = ("resolution through an import: the stored key must be the matched import path, its kind what the project registers under that very key (unknown import otherwise), "
                       "and - a built-in stays a built-in even when imported - a built-in lookup on the matched path or on the name must have answered None first "
                       "[built-in checked first: %s, kind from the same key: %s]" % (o3, o1))
            elif k == "DECL_MATCH.Some.0":
                n_fwd += 1
                ok = kind == ("adt", RESOLVED, "ForwardDeclaredParcelable", ()) and cm.get("DECL_MATCH") == "Some" and cm.get("IMPORT_MATCH") == "None"
                msg = "a forward declaration is used only when it matched and no import did, and yields ForwardDeclaredParcelable"
            else:
                msg = "ResolvedItem key of unknown origin %s" % fmt_label(k)
        elif isinstance(val, tuple) and val[0] == "adt" and val[1] == TYPEKIND and val[2] == "AndroidType":
            n_android += 1
            a = dict(val[3]).get(0)
            ok = isinstance(a, tuple) and a[0] == "field" and isinstance(a[1], tuple) and a[1][0] in ("FQN", "FN") and a[2] == "Some.0" and cm.get(a[1]) == "Some"
            if ok and cm.get("IMPORT_MATCH") == "Some":
                # an import matched: only the matched path decides whether this is the built-in (an imported project item that merely has a built-in's simple name resolves through its import)
                ok = a[1] == ("FQN", "IMPORT_MATCH.Some.0")
            elif ok:
                ok = a[1][1] == "type_.name"
                if ok and a[1][0] == "FN":
                    # by SIMPLE name a reference is a built-in only as the last resort: the imports and the forward declarations were searched and did not match
                    # (an imported or forward-declared project item named like a built-in resolves to that item)
                    ok = cm.get("IMPORT_MATCH") == "None" and cm.get("DECL_MATCH") == "None"
            msg = "a built-in classification must be the answer of a built-in lookup: on the matched import path (by qualified name) when an import matched; on the written name otherwise - by simple name only after the imports and the forward declarations did not match"
        else:
            msg = "unexpected classification %s" % fmt_label(val)
        rep.check(ok, "D", key + "|order", w, "path [%s] assigns %s: %s" % (desc, fmt_label(val), msg), sample={"path": desc, "assigned": fmt_label(val)})
    rep.check(n_item >= 2 and n_fwd >= 1 and n_android >= 2 and n_err >= 1, "B", "%s|B|outcome-classes" % prop, cfg.where(fn),
              "resolve_type must be able to produce every outcome class (imported item with known / unknown kind: %d, forward declaration: %d, built-in: %d, Error: %d)" % (n_item, n_fwd, n_android, n_err))


def builtin_tables(ctx, rep, prop="C05"):
    facts = ctx.mir
    sp = json.load(open(os.path.join(VERIF, "spec", "builtins.json")))
    variants = facts.variants(ANDROID)
    rep.floor("C", "AndroidTypeKind variants", len(variants), 4)
    for v in variants:
        if v not in sp["names"]:
            rep.fail("C", "%s|C|builtin-without-spec|%s" % (prop, v), None, "built-in %s is not in spec/builtins.json" % v)
    for fname, table in (("get_name", sp["names"]), ("can_be_qualified", sp["can_be_qualified"]), ("get_qualified_name", sp["qualified"])):
        fn = facts.fn("ast::AndroidTypeKind::" + fname)
        for v, exp in sorted(table.items()):
            paths = Machine(facts).run("ast::AndroidTypeKind::" + fname, [Ref(Cell(enum_val(facts, ANDROID, v)))])
            got = deref_val(paths[0].ret) if len(paths) == 1 else None
            gv = got.v if isinstance(got, Const) else None
            rep.check(len(paths) == 1 and gv == exp, "C", "%s|C|%s|%s" % (prop, fname, v), cfg.where(fn),
                      "AndroidTypeKind::%s(%s) must be %r, extracted %r" % (fname, v, exp, gv), sample={"fn": fname, "variant": v, "value": gv})
    # get_all lists every variant
    if "ast::AndroidTypeKind::get_all" in facts.fns:
        fa = facts.fn("ast::AndroidTypeKind::get_all")
        paths = Machine(facts).run("ast::AndroidTypeKind::get_all", [])
        got = sorted(c.val.vname for c in paths[0].ret.elems) if len(paths) == 1 and isinstance(paths[0].ret, VecVal) else None
        rep.check(got == sorted(variants), "C", "%s|C|get_all" % prop, cfg.where(fa), "get_all() must list every built-in variant %r, extracted %r" % (sorted(variants), got))
    else:
        rep.ok("C", "no get_all(): every lookup below must itself search a list of all variants", {"get_all": "absent"})
    # lookups: get_all().into_iter().find(|at| at.<getter>() == arg)
    for fname, getter in (("from_name", "IBinder-name"), ("from_qualified_name", "qualified")):
        path = "ast::AndroidTypeKind::" + fname
        fn = facts.fn(path)
        paths = Machine(facts, pure_fns=["std::iter::Iterator::find"]).run(path, [sym_ref("arg")])
        ok = len(paths) == 1 and not [e for e in paths[0].effects if e[0] != "iterate"]
        retl = fmt_label(lab(paths[0].ret)) if paths else ""
        ok = ok and retl.startswith("std::iter::Iterator::find((iter, (vec, ") and all(v in retl for v in variants)
        clos = facts.closures_of(path)
        tbl = {}
        if ok and len(clos) == 1:
            for v in variants:
                cp, _ = run_closure(facts, clos[0], {"name" if fname == "from_name" else "qualified_name": Opaque("arg")}, [Ref(Cell(enum_val(facts, ANDROID, v)))])
                if len(cp) == 2:
                    # returns eq(const, arg)
                    lbls = set(fmt_label(l) for p in cp for l, _ in p.conds)
                    tbl[v] = sorted(lbls)
                elif len(cp) == 1:
                    tbl[v] = [fmt_label(lab(cp[0].ret))]
        exp_ok = ok and len(tbl) == len(variants)
        for v in variants:
            want = sp["names"][v] if fname == "from_name" else sp["qualified"].get(v)
            if want is not None:
                exp_ok = exp_ok and any(("(const, str, %s)" % want) in x and "arg" in x and x.startswith("(eq") for x in tbl.get(v, []))
        rep.check(exp_ok, "C", "%s|C|%s" % (prop, fname), cfg.where(fn),
                  "%s(x) must be get_all().into_iter().find(|b| b.%s == x); extracted result %s, per-variant predicate %r" % (fname, "get_name()" if fname == "from_name" else "get_qualified_name()", retl[:120], tbl),
                  sample={"fn": fname, "predicates": tbl})
    # Item::get_kind
    fk = facts.fn("ast::Item::get_kind")
    for v in facts.variants("ast::Item"):
        paths = Machine(facts).run("ast::Item::get_kind", [Ref(Cell(enum_val(facts, "ast::Item", v, {0: Opaque("node")})))])
        got = paths[0].ret.vname if len(paths) == 1 and isinstance(paths[0].ret, AdtVal) else None
        rep.check(got == sp["item_kind"].get(v), "C", "%s|C|get_kind|%s" % (prop, v), cfg.where(fk), "Item::%s.get_kind() must be %s, extracted %s" % (v, sp["item_kind"].get(v), got),
                  sample={"item": v, "kind": got})
    rep.floor("C", "Item variants", len(facts.variants("ast::Item")), 3)
    # collect_item_keys: values -> flat_map(ast) -> map(key, kind) -> collect
    ck = "parser::Parser::<ID>::collect_item_keys"
    fck = facts.fn(ck)
    body = fck["body"]
    chain = [c for _, t in sorted(cfg.call_sites(body, lambda c: True)) for c in [callee_name(t)]]
    want = ["values", "flat_map", "map", "collect"]
    got = [c.rsplit("::", 1)[1] for c in chain]
    if got != want:
        # the same registration written as a loop: for every stored result that has a tree, insert (tree.get_key(), tree.item.get_kind())
        okl, detl = False, None
        try:
            fr_ = struct_val(facts, "parser::ParseFileResult", "fr", {})
            m_ = Machine(facts, opaque_fns=["ast::Aidl::get_key", "ast::Item::get_kind"], pure_fns=["ast::Aidl::get_key", "ast::Item::get_kind"], loop_once=True,
                         on_next=lambda il: Ref(Cell(fr_)))
            ps_ = m_.run(ck, [sym_ref("self")])
            ins = []
            for p_ in ps_:
                if iteration_problems(p_) or p_.exit != "return":
                    ins.append(("early-exit",))
                tree = [v for l, v in p_.conds if isinstance(l, tuple) and l[0] == "variant" and fmt_label(l[1]) == "fr.ast"]
                calls_ = [e for e in p_.effects if e[0] == "call" and e[1].endswith("::insert")]
                srcs_ = [e for e in p_.effects if e[0] == "next"]
                ins.append((tuple(tree), tuple(tuple(fmt_label(x) for x in c[2][1:3]) if len(c[2]) >= 3 else (c[1],) + tuple(fmt_label(x) for x in c[2]) for c in calls_), tuple(fmt_label(x[1]) for x in srcs_)))
            detl = sorted(set(ins))
            want_l = sorted(set([(("Some",), (("ast::Aidl::get_key(fr.ast.Some.0)", "ast::Item::get_kind(fr.ast.Some.0.item)"),), ("std::collections::HashMap::<K, V, S, A>::values(self.lalrpop_results)",)),
                                 (("None",), (), ("std::collections::HashMap::<K, V, S, A>::values(self.lalrpop_results)",))]))
            okl = detl == want_l
        except (Unsupported, KeyError, IndexError, TypeError) as e:
            detl = "%s: %s" % (type(e).__name__, e)
        rep.check(okl, "C", "%s|C|collect_item_keys|chain" % prop, cfg.where(fck),
                  "collect_item_keys must register, for every stored result that has a tree, (tree.get_key(), tree.item.get_kind()) - as values().flat_map(tree).map((key, kind)).collect() or as the equivalent loop; "
                  "extracted adaptor chain %r, loop form %r" % (got, detl), sample={"form": "loop", "per element": detl})
        return
    rep.ok("C", "%s|C|collect_item_keys|chain" % prop, {"form": "chain", "adaptors": got})
    clos = facts.closures_of(ck)
    okm = False
    det = None
    # the entry builder is a closure of collect_item_keys or a function of the crate handed to an adaptor by name (`.map(item_key_entry)`)
    named = []
    for b in body["blocks"]:
        t = b["term"]
        if t["k"] == "call":
            for a in t["args"]:
                if a["k"] == "const" and isinstance(a["c"].get("fn"), dict):
                    nm = a["c"]["fn"].get("resolved") or a["c"]["fn"]["def"]
                    if nm in facts.fns and nm not in named:
                        named.append(nm)
    for c in list(clos) + named:
        cargs = [sym_ref("f")] if c in named else [Ref(Cell(AdtVal("closure:" + c, None, {})), True), sym_ref("f")]
        cp = Machine(facts, opaque_fns=["ast::Aidl::get_key", "ast::Item::get_kind"], pure_fns=["ast::Aidl::get_key", "ast::Item::get_kind"]).run(c, cargs)
        if len(cp) == 1 and isinstance(cp[0].ret, AdtVal) and cp[0].ret.ty == "tuple" and len(cp[0].ret.fields) == 2:
            det = [fmt_label(lab(cp[0].ret.fields[i].val)) for i in (0, 1)]
            okm = det == ["ast::Aidl::get_key(f)", "ast::Item::get_kind(f.item)"]
    rep.check(okm, "C", "%s|C|collect_item_keys|entry" % prop, cfg.where(fck), "each registered entry must be (tree.get_key(), tree.item.get_kind()); extracted %r" % (det,), sample={"entry": det})


NAME = ["CAP:type_.name"]   # label of the name being matched inside the predicate closure (set per closure)


def atom_of(l):
    """known atoms of the name-matching predicates: EQ, SUF, DOT (possibly negated) or None"""
    NM = NAME[0]
    neg = False
    while isinstance(l, tuple) and l and l[0] == "not":
        neg = not neg
        l = l[1]
    a = None
    if isinstance(l, tuple) and l[0] in ("eq", "ne") and set([l[1], l[2]]) == set([NM, "ELEM"]):
        a = "EQ"
        if l[0] == "ne":
            neg = not neg
    elif isinstance(l, tuple) and l[0] == "call" and l[1].endswith("::ends_with") and len(l[2]) == 2 and l[2][0] == "ELEM" \
            and l[2][1] == ("fmt", ".{}", (("fmtarg", "display", NM),)):
        a = "SUF"
    elif isinstance(l, tuple) and l[0] == "call" and l[1].endswith("::contains") and len(l[2]) == 2 and l[2][0] == "ELEM" and l[2][1] in (("const", "int", 46), ("const", "char", "."), ("const", "str", ".")):
        a = "DOT"
    return (a, neg) if a else None


def predicate_table(facts, clo):
    """truth table {valuation tuple over (EQ,SUF,DOT): bool} of a matching closure, or an error string"""
    import itertools
    from closures import run_closure
    cf = facts.fns[clo]
    caps = {}
    for c in cf["captures"]:
        nm = c["name"].lstrip("*")
        caps[nm] = Opaque("CAP:" + nm)
    # what the closure captures: for a closure created in resolve_type the captured values are read off resolve_type's tabulation
    # (so a pre-computed `format!(".{}", type_.name)` is seen as what it is); otherwise the closure's only captured string is the name
    labels = closure_capture_labels(facts, clo) if clo.startswith(RT + "::") else None
    if labels is not None and len(labels) == len(cf["captures"]):
        for c, l in zip(cf["captures"], labels):
            while isinstance(l, tuple) and l and l[0] in ("ref", "mut") and len(l) >= 2:
                l = l[1]
            caps[c["name"].lstrip("*")] = Opaque(l)
        NAME[0] = "type_.name"
    else:
        strs = [c["name"].lstrip("*") for c in cf["captures"] if c["ty"] in ("std::string::String", "&str", "str", "&std::string::String")]
        if len(strs) != 1:
            return "the predicate closure captures %d strings (expected exactly the name being matched)" % len(strs)
        NAME[0] = "CAP:" + strs[0]
    try:
        ps, _ = run_closure(facts, clo, caps, [Ref(Cell(Ref(Cell(Opaque("ELEM", "std::string::String")))))],
                            pure_fns=["rules::aidl::core::str::<impl str>::ends_with", "rules::aidl::core::str::<impl str>::contains", "std::str::<impl str>::ends_with", "std::str::<impl str>::contains"])
    except (Unsupported, KeyError) as e:
        return "not analysable: %s" % e
    rows = []
    for p in ps:
        if p.effects or p.exit != "return":
            return "the predicate has effects / does not return: %r" % ([fmt_label(e[1:3]) for e in p.effects],)
        conds = []
        for l, v in p.conds:
            a = atom_of(l)
            if a is None:
                return "the predicate branches on %s, which is none of: name == element, element.ends_with('.' + name), element.contains('.')" % fmt_label(l)
            conds.append((a[0], (not v) if a[1] else v))
        r = deref_val(p.ret)
        if isinstance(r, Const) and r.kind == "bool":
            out = r.v
        else:
            a = atom_of(lab(r))
            if a is None:
                return "the predicate returns %s, which is none of the known atoms" % fmt_label(lab(r))
            out = a
        rows.append((conds, out))
    table = {}
    for val in itertools.product((False, True), repeat=3):
        env = dict(zip(("EQ", "SUF", "DOT"), val))
        hit = [o for c, o in rows if all(env[a] == v for a, v in c)]
        if len(hit) != 1:
            return "ambiguous paths for %r" % (env,)
        o = hit[0]
        table[val] = o if isinstance(o, bool) else (env[o[0]] != o[1])
    return table


def closure_capture_labels(facts, clo):
    """labels of the values a predicate closure created in resolve_type captures, read off a tabulation of resolve_type
    (None when the closure object does not show up, e.g. it is created in a helper)"""
    t = type_node(facts, "type_", enum_val(facts, TYPEKIND, "Unresolved"))
    m = Machine(facts, opaque_fns=[FQN, FN, FTN, CBQ], pure_fns=[FQN, FN, FTN, CBQ, "std::iter::Iterator::min", "std::iter::Iterator::find",
                                                                "std::iter::Iterator::min_by_key", "std::iter::Iterator::min_by", "std::iter::Iterator::max"])
    try:
        paths = m.run(RT, [Ref(Cell(t), True), sym_ref("imports"), sym_ref("declared_parcelables"), sym_ref("defined"), sym_ref("diagnostics", mut=True)])
    except (Unsupported, KeyError):
        return None
    want = "closure:" + clo

    def search(l):
        if isinstance(l, tuple) and l:
            if l[0] == "adt" and len(l) == 4 and l[1] == want:
                return [x[1] for x in sorted(l[3])]
            for x in l:
                r = search(x)
                if r is not None:
                    return r
        return None
    for p in paths:
        for l, v in p.conds:
            r = search(l)
            if r is not None:
                return r
        for e in p.effects:
            r = search(tuple(e[1:3]) if len(e) > 2 else e)
            if r is not None:
                return r
    return None


def passes_type_name(facts, fn, host):
    """some argument of the call resolve_type -> host is (a view of) type_.name"""
    body = fn["body"]
    named = set()
    changed = True
    while changed:
        changed = False
        for b in body["blocks"]:
            for st in b["stmts"]:
                if st["k"] != "assign" or st["lhs"]["p"] or st["lhs"]["l"] in named:
                    continue
                rv = st["rv"]
                pl = rv.get("place") if rv["k"] in ("ref", "copy_for_deref") else (rv["op"].get("place") if rv["k"] in ("use", "cast") and rv["op"]["k"] in ("move", "copy") else None)
                if pl is None:
                    continue
                if pl["l"] == 1 and any(isinstance(e, dict) and e.get("k") == "field" and e.get("name") == "name" for e in pl["p"]):
                    named.add(st["lhs"]["l"]); changed = True
                elif pl["l"] in named:
                    named.add(st["lhs"]["l"]); changed = True
            t = b["term"]
            if t["k"] == "call" and not t["dest"]["p"] and t["dest"]["l"] not in named:
                ci = callee_info_(t)
                nm = (ci.get("resolved") or ci["def"]) if ci else ""
                if nm.rsplit("::", 1)[-1] in ("deref", "as_str", "as_ref", "borrow") and t["args"] and t["args"][0]["k"] in ("move", "copy") and t["args"][0]["place"]["l"] in named:
                    named.add(t["dest"]["l"]); changed = True
    for b in body["blocks"]:
        t = b["term"]
        if t["k"] == "call":
            ci = callee_info_(t)
            if ci and (ci.get("resolved") or ci["def"]) == host:
                return any(a["k"] in ("move", "copy") and a["place"]["l"] in named for a in t["args"])
    return False


def matching_rules(ctx, rep, prop="C05"):
    """rule E: the two searches of resolve_type use the name-matching predicates the statement gives"""
    import itertools
    facts = ctx.mir
    fn = facts.fn(RT)
    import c11
    import dataflow
    found = {}
    # resolve_type and the private helpers it calls (a search extracted into a helper function is still the search)
    reach, _ = dataflow.reachable_fns(facts, [RT])
    hosts = [RT] + sorted(p for p in reach if p != RT and p.startswith("validation::") and "{closure" not in p and not facts.fns[p].get("derived"))
    for host in hosts:
        hf = facts.fns[host]
        for b in hf["body"]["blocks"]:
            t = b["term"]
            if b["cleanup"] or t["k"] != "call":
                continue
            ci = callee_info_(t)
            if not ci:
                continue
            name = (ci.get("resolved") or ci["def"])
            meth = name.rsplit("::", 1)[1]
            a0 = (ci.get("args") or [""])[0]
            if meth in ("filter", "find", "position", "any", "find_map") and "hash_set::Iter" in a0 and len(t["args"]) == 2:
                clo = c11.closure_of_arg(facts, hf, t, 1)
                if clo:
                    found.setdefault(clo, (meth, t))
                    if host != RT:
                        rep.check(passes_type_name(facts, fn, host), "E", "%s|E|%s|called-with-name" % (prop, host), cfg.where(hf),
                                  "the search helper %s must be called from resolve_type with the name of the type being resolved" % host)
    rep.floor("E", "name-matching predicates in resolve_type", len(found), 2)
    specs = {"import": lambda EQ, SUF, DOT: EQ or SUF, "forward declaration": lambda EQ, SUF, DOT: EQ and not DOT}
    seen = set()
    for clo, (meth, t) in sorted(found.items()):
        tb = predicate_table(facts, clo)
        if isinstance(tb, str):
            rep.fail("E", "%s|E|%s|shape" % (prop, clo), cfg.where(fn, t), "name-matching predicate %s: %s (the rule knows the idioms built from these three tests only; anything else must be read)" % (clo, tb))
            continue
        which = [k for k, f in specs.items() if all(tb[v] == bool(f(*v)) for v in tb)]
        seen |= set(which)
        rep.check(len(which) == 1, "E", "%s|E|%s" % (prop, clo), cfg.where(fn, t),
                  "the name-matching predicate %s must be either `name == import || import.ends_with('.' + name)` (imports: exact or dot-bounded suffix match, so XFoo never matches Foo) or "
                  "`name == declaration && !declaration.contains('.')` (unqualified forward declarations); its truth table over (equal, dot-suffix, contains-dot) is %r" % (
                      clo, dict((str(k), v) for k, v in sorted(tb.items()))),
                  witness="import q.MyFoo; ... Foo x;  // `Foo` must not resolve through `q.MyFoo`" if not which else None,
                  sample={"closure": clo, "predicate": which})
    rep.check(seen == set(specs), "E", "%s|E|both-searches" % prop, cfg.where(fn), "resolve_type must search the imports with the import predicate and the forward declarations with theirs; found %r" % (sorted(seen),))


def callee_info_(t):
    from mirlib import callee_info
    return callee_info(t)


def callee_name(t):
    from mirlib import callee_info
    ci = callee_info(t)
    return (ci.get("resolved") or ci["def"]) if ci else "?"


def resolution_rules(ctx, rep, prop):
    """rules A-E: how a type node written in the source gets its category (shared with the properties that consume categories)"""
    facts = ctx.mir
    walkers.check_type_walker(facts, rep, prop, "traverse::walk_types_mut", "walk_types_mut", True)
    # callback of resolve_types
    rtf = facts.fn("validation::resolve_types")
    clos = facts.closures_of("validation::resolve_types")
    ok = False
    det = None
    if len(clos) == 1:
        t = type_node(facts, "node", enum_val(facts, TYPEKIND, "Unresolved"))
        vals = {"imports": sym_ref("imports"), "declared_parcelables": sym_ref("declared_parcelables"), "defined": sym_ref("defined"),
                "diagnostics": Opaque("diagnostics"), "resolved": Opaque("resolved")}
        try:
            cp, _ = run_closure(facts, clos[0], vals, [Ref(Cell(t), True)], opaque_fns=[RT])
            calls = [e for e in cp[0].effects if e[0] == "call" and e[1] == RT]
            det = [fmt_label(c[2]) for c in calls]
            ok = all(len([e for e in p.effects if e[0] == "call" and e[1] == RT]) == 1 for p in cp) and calls and calls[0][2] == ("node", "imports", "declared_parcelables", "defined", "diagnostics")
        except KeyError as e:
            det = str(e)
    rep.check(ok, "A", "%s|A|callback" % prop, cfg.where(rtf), "resolve_types' callback must call resolve_type(node, imports, declared_parcelables, defined, diagnostics) exactly once on the node it is given; extracted %r" % (det,))
    body = rtf["body"]
    sites = cfg.call_sites(body, lambda c: c == "traverse::walk_types_mut")
    rep.check(len(sites) == 1, "A", "%s|A|uses-walker" % prop, cfg.where(rtf), "resolve_types must hand its callback to traverse::walk_types_mut")
    resolve_type_rules(ctx, rep, prop)
    builtin_tables(ctx, rep, prop)
    rep.rule("E", "name matching: the predicates of the two searches are extracted as boolean functions of three string tests (equal / dot-bounded suffix / contains a dot) and must be `equal or dot-suffix` for imports and `equal and not dotted` for forward declarations; predicates built from other tests are reported for reading")
    matching_rules(ctx, rep, prop)


def run(ctx, rep):
    facts = ctx.mir
    rep.rule("A", "A5 visit sequence of traverse::walk_types_mut (every type-bearing field, any depth by induction) and resolve_types' callback applies resolve_type to the node it is given")
    rep.rule("B", "A4/A3 on validation::resolve_type: every path on an unresolved node ends with exactly one classification or exactly one Error on the name; classified nodes are untouched")
    rep.rule("C", "A3 tables vs spec/builtins.json: built-in names, can_be_qualified, qualified ParcelFileDescriptor, get_all complete, from_name / from_qualified_name predicates, Item::get_kind, collect_item_keys entry shape")
    rep.rule("D", "resolution order per path: import (kind from the project's map under the matched key, else unknown import) before forward declaration before built-in name; a built-in lookup precedes any import-based classification")
    resolution_rules(ctx, rep, "C05")
    rep.not_decided += ["correctness of the string primitives themselves (==, ends_with, contains, format!) and predicates written with other primitives (reported, not decided)",
                        "which of several imports with the same simple name wins (C11 decides that the choice is deterministic)",
                        "qualified names of built-ins other than ParcelFileDescriptor (not stated)"]
    import common_g
    rep.floor("IN", "grammar actions feeding this rule", common_g.emit_inputs(ctx, rep, "C05"), 5)
    import loopstate
    loopstate.rule(ctx, rep, "C05", ['validation::resolve_types', 'validation::resolve_type'])
    import pipeline
    pipeline.rule(ctx, rep, "C05", ['resolve_types'])
    rep.rule("LX", "lexical agreement (C03 A10, re-evaluated here): the property quantifies over documents - token classes, their priorities, the keyword rule, comments and white space must be the reference ones (a changed comment / number / keyword regex silently drops or merges members)")
    import lexical
    lexical.rules(ctx, rep, "C05", {"trivia", "classes", "priority", "keywords", "tokenizer"})
    rep.rule("H", "inherits C12 H3-H6 (re-evaluated here): the kind of an imported reference comes from the files CURRENTLY in the parser - add_content / add_file store under the caller's id, remove_content removes exactly that id")
    import c12 as _c12
    import core as _core12
    _r12 = _core12.Report("C12")
    _c12.run(ctx, _r12)
    _bad12 = [v for v in _r12.violations if v.rule in ("H3", "H5", "H6")]
    for v in _bad12:
        rep.fail("H", v.key.replace("C12|", "C05|", 1), v.where, v.message, witness=v.witness)
    if not _bad12:
        rep.ok("H", "add_content / add_file / remove_content as C12 requires", {"C12 obligations": _r12.obligations})
    rep.assumptions += ["TB-1 rustc MIR", "TB-4 tabulator", "TB-3 HashMap/HashSet/Iterator semantics: the searches over imports / forward declarations are oracles whose predicates are not analysed"]
