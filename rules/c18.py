"""C18 - documentation is taken from the directly preceding doc comment, verbatim (partial)."""
import re
from absint import *
from domain import *
from mirlib import callee_info
import cfg
import common_g

FCS = "javadoc::find_content_string"


def run(ctx, rep):
    facts = ctx.mir
    rep.rule("J1", "A14 byte/char dimension typing in javadoc::find_content_string: every value used as a str index or subtracted from str::len is byte-typed (str::len, char::len_utf8, constants); a counter incremented by a constant per char is char-typed")
    rep.rule("J2", "A9: for every documentable construct `doc` = get_javadoc(input, <the position capture that is the first symbol of the production>)")
    rep.rule("J3", "get_javadoc scans the prefix input[..pos] and maps the found body through parse_javadoc")
    n, stats = common_g.emit(ctx, rep, "C18", {"doc"}, "J2")
    rep.floor("J2", "documentable constructs wired", stats["doc_sites"], 8)
    # ---- J3
    fg = facts.fn("javadoc::get_javadoc")
    m = Machine(facts, opaque_fns=[FCS, "javadoc::parse_javadoc"], pure_fns=[FCS, "javadoc::parse_javadoc", "std::option::Option::<T>::map"])
    paths = m.run("javadoc::get_javadoc", [sym_ref("input"), Opaque("pos")])
    labs = sorted(set(fmt_label(lab(p.ret)) for p in paths))
    idx = [e for p in paths for e in p.effects if e[0] == "index"]
    ok = bool(paths) and any("javadoc::find_content_string((index, input, (adt, std::ops::RangeTo, None, ((0, pos)))))" in l for l in labs + [fmt_label(e[1:3]) for e in idx]) or \
        any("find_content_string" in l and "RangeTo" in l and "pos" in l for l in labs)
    rep.check(ok, "J3", "C18|J3|get_javadoc", cfg.where(fg), "get_javadoc(input, pos) must be find_content_string(&input[..pos]).map(parse_javadoc); extracted %r" % (labs,), sample={"result": labs})
    # ---- J1 dimension typing
    dimension_rule(ctx, rep, "C18")
    f = facts.fn(FCS)
    # ---- K: the scanner as an extracted transducer, simulated against a forward reference
    import scanner
    rep.rule("K", "the loop of find_content_string is extracted as a finite transducer (7 states x 8 character classes, by abstract interpretation of one loop iteration per configuration); the extracted table - not the code - is simulated "
                  "on every concatenation of up to N lexical pieces (code, white space, line / block / doc comments incl. empty, non-ASCII and CRLF forms; N = 5 quick, 6 thorough) and must return what a forward "
                  "reference reading of the statement returns: the body of the closest doc comment when only whitespace and ordinary comments follow it, nothing otherwise")
    try:
        tab = scanner.extract(facts)
    except Unsupported as e:
        rep.fail("K", "C18|K|extraction", cfg.where(f), "the scanner loop could not be extracted as a transducer (fail closed): %s" % e)
        tab = None
    if tab is not None:
        rep.floor("K", "extracted scanner transitions", len(tab["trans"]), 56)
        rep.analysed["K character classes"] = sorted(tab["classes"])
        rep.check(tab["init"] == {"state": tab["states"][0], "pos": "int:0", "start": "None", "end": "None"} or (tab["init"]["pos"] == "int:0" and tab["init"]["start"] == "None" and tab["init"]["end"] == "None"),
                  "K", "C18|K|initial", cfg.where(f), "the scan starts with position 0 and no markers: %r" % (tab["init"],), sample={"initial": tab["init"]})
        # K0: all-inputs slice safety on the table
        rep.rule("K0", "ALL inputs, on the extracted table (every transition consumes >= 1 byte, exactly 1 for an ASCII class): a begin marker is at least k transitions away from the start and from the last end mark "
                       "(k = the constant in `pos - k`, read from the returned slice input[len-(pos-k) .. len-end]), and the k characters consumed last before it are single-byte: no underflow, start <= end, character boundaries")
        try:
            probs = scanner.slice_safety(tab)
        except Unsupported as e:
            probs = ["not extractable (fail closed): %s" % e]
        rep.check(not probs, "K0", "C18|K0|slice-safety", cfg.where(f), "the doc-comment slice of find_content_string can be ill-formed (panic) for some input: %s" % "; ".join(probs),
                  witness={"text": "x /**/ y"} if probs else None, sample={"margin": scanner.margin_of(tab) if not probs else None, "transitions": len(tab["trans"])})
        depth = 6 if ctx.tier == "thorough" else 5
        n = 0
        bad = None
        for text in scanner.family(depth):
            n += 1
            got = scanner.simulate(tab, text)
            want = scanner.reference(text)
            if got != want:
                bad = (text, got, want)
                break
        rep.analysed["K prefixes simulated"] = n
        rep.check(bad is None, "K", "C18|K|scanner|%s" % (repr(bad[0])[:60] if bad else ""), cfg.where(f),
                  "on the prefix %r the extracted scanner yields %r but the directly preceding doc comment (separated only by whitespace and ordinary comments) is %r" % (bad if bad else ("-", "-", "-")),
                  witness={"prefix": bad[0], "scanner": repr(bad[1]), "expected": repr(bad[2])} if bad else None,
                  sample={"prefixes": n, "example": {"prefix": "x; /** d */ // l\n", "doc": scanner.simulate(tab, "x; /** d */ // l\n")}})
        if bad is None:
            rep.floor("K", "prefixes simulated", n, 4000)
    # ---- N: normalisation pipeline as an extracted model
    import javadoc_model as JM
    rep.rule("N", "parse_javadoc is extracted as a pipeline model (split regex, joiner, and the sequence of per-part operations - trim_matches with its character set, replace_all with its regex constant and replacement - applied by the map stages between split and collect/join, however they are distributed over closures) and the model is evaluated "
                  "on a bounded family of doc bodies (1-3 paragraphs, 1-2 lines, star-decorated and bare layouts, LF and CRLF, ASCII / accented / CJK / emoji words, 0-2 @tag clauses, single-line form) against a reference normaliser written from the statement")
    fpj = facts.fn(JM.PJ)
    try:
        model = JM.extract(facts)
    except Unsupported as e:
        rep.fail("N", "C18|N|extraction", cfg.where(fpj), "parse_javadoc could not be extracted as a normalisation pipeline (fail closed): %s" % e)
        model = None
    if model is not None:
        badn = None
        cnt = 0
        import re as _re
        try:
            for bdy in JM.family(ctx.tier == "thorough"):
                cnt += 1
                g, w = JM.evaluate(model, bdy), JM.reference(bdy)
                if g != w:
                    badn = (bdy, g, w)
                    break
        except _re.error as e:
            badn = ("<regex>", "a regex constant does not compile: %s" % e, "")
        rep.check(badn is None, "N", "C18|N|normalise|%s" % (repr(badn[0])[:50] if badn else ""), cfg.where(fpj),
                  "for the doc body %r the extracted normaliser yields %r, the statement asks for %r (decoration removed, lines of a paragraph joined by one space, paragraphs and @tag clauses on separate lines, words preserved)" % (badn if badn else ("-", "-", "-")),
                  witness={"body": badn[0], "normaliser": badn[1], "expected": badn[2]} if badn else None,
                  sample={"model": model, "bodies": cnt})
        if badn is None:
            rep.floor("N", "doc bodies evaluated", cnt, 50)
    import loopstate
    loopstate.rule(ctx, rep, "C18", ['javadoc'])
    rep.rule("LX", "lexical agreement (C03 A10, re-evaluated here): the property quantifies over documents - token classes, their priorities, the keyword rule, comments and white space must be the reference ones (a changed comment / number / keyword regex silently drops or merges members)")
    import lexical
    lexical.rules(ctx, rep, "C18", {"trivia", "classes", "priority", "keywords", "tokenizer"})
    rep.rule("H", "inherits C12 H3-H6 (re-evaluated here): a file loaded with add_file is the text on disk, decoded as UTF-8 as a whole (the words of a doc comment reach the scanner unchanged)")
    import c12 as _c12
    import core as _core12
    _r12 = _core12.Report("C12")
    _c12.run(ctx, _r12)
    _bad12 = [v for v in _r12.violations if v.rule in ("H3", "H5", "H6")]
    for v in _bad12:
        rep.fail("H", v.key.replace("C12|", "C18|", 1), v.where, v.message, witness=v.witness)
    if not _bad12:
        rep.ok("H", "add_content / add_file / remove_content as C12 requires", {"C12 obligations": _r12.obligations})
    rep.assumptions += ["for the constructs used (character classes, greedy star / optional, one capture group, leftmost non-overlapping replace_all / split) Python's re and the regex crate agree (rule N evaluates the extracted constants with Python's re)"]
    rep.assumptions += ["TB-1 rustc MIR", "TB-2 @L of the first symbol is the start of the construct's first token"]
    rep.not_decided += ["the backward scanner on prefixes outside the simulated family (rule K is exhaustive only within the bounded structured family; arbitrary garbage between comment and construct is not covered)",
                        "the normalisation of parse_javadoc outside the bounded family of rule N (arbitrary Unicode text, words containing @ * /)"]


def dimension_rule(ctx, rep, prop):
    """J1 (shared with C02): byte / char dimension typing of the doc-comment scanner"""
    facts = ctx.mir
    f = facts.fn(FCS)
    body = f["body"]
    dims = dimension_analysis(body)
    sites = 0
    for kind, bb, what, operand_dims, span in dims["uses"]:
        sites += 1
        # positive typing: the operand must be derived from byte quantities only (and from at least one)
        bad = [d for d in operand_dims if d not in ("byte", "const")] or ([] if "byte" in operand_dims else ["no byte-typed source"])
        rep.check(not bad, "J1", "%s|J1|%s|%s" % (prop, FCS, what), "%s:%d (%s)" % (span["file"], span["line"], FCS),
                  "%s uses a value that is not provably a byte offset (a counter advanced by a constant per `char`, an enumeration index, or a value of unknown origin): with multi-byte text the slice is cut in the wrong place or panics on a non-boundary index" % what,
                  witness="package p; /**é*/ interface I { }" if bad else None, sample={"site": what, "operand_dimensions": operand_dims})
    rep.floor("J1", "byte-index uses in find_content_string", sites, 3)
    rep.analysed["counters"] = dims["counters"]


def dimension_analysis(body):
    """flow-insensitive dimension inference for the usize values of the scanner.  Tags: 'byte' (str::len,
    char::len_utf8, a counter advanced by len_utf8), 'char' (a counter advanced by a constant once per
    iterated char), 'const'.  Wrappers (Option, tuples) are transparent: a local's tag set is the union
    over everything assigned into it or into one of its fields.  A use as str index / `len - x` whose
    operand can be 'char' is a dimension error."""
    from mirlib import callee_info
    import dataflow
    tags = {}
    calls_dest = {}
    for b in body["blocks"]:
        t = b["term"]
        if t["k"] == "call":
            ci = callee_info(t)
            nm = (ci.get("resolved") or ci["def"]) if ci else "?"
            calls_dest[t["dest"]["l"]] = nm
            if nm.endswith("str::<impl str>::len") or nm.endswith("::len_utf8"):
                tags.setdefault(t["dest"]["l"], set()).add("byte")
    assigns = []
    for b in body["blocks"]:
        for s in b["stmts"]:
            if s["k"] == "assign":
                assigns.append(s)
    # counters: `tmp = Add*(copy X, rhs)` ; `X = move tmp.0`
    defs = {}
    for s in assigns:
        if not s["lhs"]["p"]:
            defs.setdefault(s["lhs"]["l"], []).append(s)
    counters = {}
    for l, ds in defs.items():
        for s in ds:
            rv = s["rv"]
            if rv["k"] == "use" and rv["op"]["k"] in ("move", "copy") and rv["op"]["place"]["p"]:
                sd = defs.get(rv["op"]["place"]["l"], [])
                if len(sd) == 1 and sd[0]["rv"]["k"] == "binop" and sd[0]["rv"]["op"].startswith("Add"):
                    a, b2 = sd[0]["rv"]["a"], sd[0]["rv"]["b"]
                    if a["k"] in ("copy", "move") and a["place"]["l"] == l and not a["place"]["p"]:
                        if b2["k"] == "const":
                            counters[l] = "char"
                        else:
                            counters[l] = "byte" if calls_dest.get(b2["place"]["l"], "").endswith("::len_utf8") else "unknown"
    for l, k in counters.items():
        tags[l] = set([k])

    def op_tags(o):
        if o["k"] == "const":
            return set(["const"])
        if o["k"] in ("copy", "move"):
            return set(tags.get(o["place"]["l"], set()))
        return set()
    # calls that hand their argument's payload on (wrapper-transparent): `?` on an Option (Try::branch / from_residual / from_output),
    # unwrap / expect / unwrap_or, clone / copied / cloned, From / Into between usize and itself
    TRANSPARENT = ("::branch", "::from_output", "::from_residual", "::unwrap", "::expect", "::unwrap_or", "::unwrap_or_default", "::clone", "::copied", "::cloned", "::into", "::from", "::as_ref")
    call_edges = []
    for b in body["blocks"]:
        t = b["term"]
        if t["k"] == "call":
            ci = callee_info(t)
            nm = (ci.get("resolved") or ci["def"]) if ci else "?"
            if nm.endswith(TRANSPARENT) or (ci and ci["def"].endswith(TRANSPARENT)):
                call_edges.append((t["dest"]["l"], [a["place"]["l"] for a in t["args"] if a["k"] in ("move", "copy")]))
    changed = True
    while changed:
        changed = False
        for dl, srcs in call_edges:
            if dl in counters:
                continue
            new = set()
            for sl in srcs:
                new |= set(tags.get(sl, set()))
            cur = tags.setdefault(dl, set())
            if not new <= cur:
                cur |= new
                changed = True
        for s in assigns:
            l = s["lhs"]["l"]
            if l in counters:
                continue
            new = set()
            for o in dataflow.operands_of_rvalue(s["rv"]):
                if o:
                    new |= op_tags(o)
            for pl, how in dataflow.places_of_rvalue(s["rv"]):
                new |= set(tags.get(pl["l"], set()))
            if s["rv"]["k"] == "binop" and s["rv"]["op"] in ("Eq", "Ne", "Lt", "Le", "Gt", "Ge"):
                new = set()
            cur = tags.setdefault(l, set())
            if not new <= cur:
                cur |= new
                changed = True
    names = {}
    for d in body["debug"]:
        if "l" in d["place"] and not d["place"]["p"]:
            names.setdefault(d["place"]["l"], d["name"])
    uses = []
    nsub = 0
    for b in body["blocks"]:
        if b["cleanup"]:
            continue
        for s in b["stmts"]:
            if s["k"] == "assign" and s["rv"]["k"] == "binop" and s["rv"]["op"].startswith("Sub"):
                a, b2 = s["rv"]["a"], s["rv"]["b"]
                if a["k"] in ("copy", "move") and calls_dest.get(a["place"]["l"], "").endswith("str::<impl str>::len") and b2["k"] != "const":
                    nsub += 1
                    uses.append(("sub", b["i"], "`input.len() - %s` (#%d)" % (names.get(b2["place"]["l"], "<offset>"), nsub), sorted(op_tags(b2)) or ["unknown"], s["span"]))
        t = b["term"]
        if t["k"] == "call":
            nm = calls_dest.get(t["dest"]["l"], "")
            ci = callee_info(t)
            nm = (ci.get("resolved") or ci["def"]) if ci else ""
            if "Index" in nm and nm.endswith("::index") and len(t["args"]) == 2 and t["args"][1]["k"] in ("move", "copy"):
                rl = t["args"][1]["place"]["l"]
                tg = sorted(set(tags.get(rl, set())))
                uses.append(("index", b["i"], "str slice `&input[start..end]`", tg or ["unknown"], t["span"]))
    return {"uses": uses, "counters": dict((names.get(l, "_%d" % l), v) for l, v in counters.items())}
