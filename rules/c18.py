"""C18 - documentation is taken from the directly preceding doc comment, verbatim (partial)."""
import re
from absint import *
from domain import *
from mirlib import callee_info
import cfg
import common_g

FCS = "javadoc::find_content_string"


def run(ctx, rep):
    facts = ctx.mir
    rep.rule("J1", "A14 byte/char dimension typing in javadoc::find_content_string: every value used as a str index or subtracted from str::len is byte-typed (str::len, char::len_utf8, constants); a counter incremented by a constant per char is char-typed")
    rep.rule("J2", "A9: for every documentable construct `doc` = get_javadoc(input, <the position capture that is the first symbol of the production>)")
    rep.rule("J3", "get_javadoc scans the prefix input[..pos] and maps the found body through parse_javadoc")
    n, stats = common_g.emit(ctx, rep, "C18", {"doc"}, "J2")
    rep.floor("J2", "documentable constructs wired", stats["doc_sites"], 8)
    # ---- J3
    fg = facts.fn("javadoc::get_javadoc")
    m = Machine(facts, opaque_fns=[FCS, "javadoc::parse_javadoc"], pure_fns=[FCS, "javadoc::parse_javadoc", "std::option::Option::<T>::map"])
    paths = m.run("javadoc::get_javadoc", [sym_ref("input"), Opaque("pos")])
    labs = sorted(set(fmt_label(lab(p.ret)) for p in paths))
    idx = [e for p in paths for e in p.effects if e[0] == "index"]
    ok = bool(paths) and any("javadoc::find_content_string((index, input, (adt, std::ops::RangeTo, None, ((0, pos)))))" in l for l in labs + [fmt_label(e[1:3]) for e in idx]) or \
        any("find_content_string" in l and "RangeTo" in l and "pos" in l for l in labs)
    rep.check(ok, "J3", "C18|J3|get_javadoc", cfg.where(fg), "get_javadoc(input, pos) must be find_content_string(&input[..pos]).map(parse_javadoc); extracted %r" % (labs,), sample={"result": labs})
    # ---- J1 dimension typing
    f = facts.fn(FCS)
    body = f["body"]
    dims = dimension_analysis(body)
    sites = 0
    for kind, bb, what, operand_dims, span in dims["uses"]:
        sites += 1
        bad = [d for d in operand_dims if d == "char"]
        rep.check(not bad, "J1", "C18|J1|%s|%s" % (FCS, what), "%s:%d (%s)" % (span["file"], span["line"], FCS),
                  "%s uses a character count where a byte offset is needed (counter advanced by a constant per `char`): with multi-byte text the slice is cut in the wrong place or panics on a non-boundary index" % what,
                  witness="package p; /**é*/ interface I { }" if bad else None, sample={"site": what, "operand_dimensions": operand_dims})
    rep.floor("J1", "byte-index uses in find_content_string", sites, 3)
    rep.analysed["counters"] = dims["counters"]
    rep.assumptions += ["TB-1 rustc MIR", "TB-2 @L of the first symbol is the start of the construct's first token"]
    rep.not_decided += ["that the backward scanner returns the closest doc comment, only across whitespace and ordinary comments (a 7-state transducer over all strings)",
                        "the normalisation done by the three regex replacements of parse_javadoc (decoration, line joining, @tag clauses) for arbitrary Unicode text"]


def dimension_analysis(body):
    """classify usize locals of the scanner: a local assigned `x + c` / `x + f(..)` inside the loop over chars:
       increments by a constant -> char-typed counter; by char::len_utf8() -> byte-typed.  Then list the uses
       as str indices (Index::index with a Range built from the locals) and as `len - x`."""
    # 1. increments: find statements `_t = AddWithOverflow(copy X, <rhs>)` then `X = move (_t.0)`
    incr = {}
    defs = {}
    for b in body["blocks"]:
        for s in b["stmts"]:
            if s["k"] == "assign" and not s["lhs"]["p"]:
                defs.setdefault(s["lhs"]["l"], []).append(s)
    calls_dest = {}
    for b in body["blocks"]:
        t = b["term"]
        if t["k"] == "call" and not t["dest"]["p"]:
            ci = callee_info(t)
            calls_dest[t["dest"]["l"]] = (ci.get("resolved") or ci["def"]) if ci else "?"

    def dim_of_operand(o, depth=0):
        if o["k"] == "const":
            return "const"
        l = o["place"]["l"]
        if o["place"]["p"]:
            # tuple field of a checked op result
            ds = defs.get(l, [])
            if len(ds) == 1 and ds[0]["rv"]["k"] == "binop":
                return dim_of_binop(ds[0]["rv"], depth + 1)
            return "unknown"
        return dim_of_local(l, depth + 1)

    def dim_of_binop(rv, depth):
        a, b2 = dim_of_operand(rv["a"], depth), dim_of_operand(rv["b"], depth)
        ds = set([a, b2]) - {"const"}
        if not ds:
            return "const"
        if "char" in ds:
            return "char"
        if ds == {"byte"}:
            return "byte"
        return "unknown"

    memo = {}

    def dim_of_local(l, depth=0):
        if l in memo:
            return memo[l]
        if depth > 12:
            return "unknown"
        memo[l] = "unknown"
        if l in calls_dest:
            nm = calls_dest[l]
            if nm.endswith("str::<impl str>::len") or nm.endswith("::len_utf8") or nm.endswith("::len"):
                memo[l] = "byte"
                return "byte"
            memo[l] = "unknown"
            return "unknown"
        ds = defs.get(l, [])
        kinds = set()
        for s in ds:
            rv = s["rv"]
            if rv["k"] == "use":
                kinds.add(dim_of_operand(rv["op"], depth))
            elif rv["k"] == "binop":
                kinds.add(dim_of_binop(rv, depth))
            elif rv["k"] == "aggregate" and rv.get("agg") == "adt" and rv.get("variant_name") == "Some":
                kinds.add(dim_of_operand(rv["ops"][0], depth))
            else:
                kinds.add("unknown")
        kinds.discard("const") if len(kinds) > 1 else None
        if counters.get(l):
            kinds = {counters[l]}
        memo[l] = list(kinds)[0] if len(kinds) == 1 else ("char" if "char" in kinds else "unknown")
        return memo[l]

    # counters: locals with a self-increment
    counters = {}
    for l, ds in defs.items():
        for s in ds:
            rv = s["rv"]
            if rv["k"] == "use" and rv["op"]["k"] in ("move", "copy") and rv["op"]["place"]["p"]:
                src = rv["op"]["place"]["l"]
                sd = defs.get(src, [])
                if len(sd) == 1 and sd[0]["rv"]["k"] == "binop" and sd[0]["rv"]["op"].startswith("Add"):
                    a, b2 = sd[0]["rv"]["a"], sd[0]["rv"]["b"]
                    if a["k"] in ("copy", "move") and a["place"]["l"] == l and not a["place"]["p"]:
                        if b2["k"] == "const":
                            counters[l] = "char" if counters.get(l) in (None, "char") else counters[l]
                        else:
                            bl = b2["place"]["l"]
                            nm = calls_dest.get(bl, "")
                            counters[l] = "byte" if nm.endswith("::len_utf8") else "unknown"
    names = {}
    for d in body["debug"]:
        if "l" in d["place"] and not d["place"]["p"]:
            names[d["place"]["l"]] = d["name"]
    # 2. uses
    uses = []
    for b in body["blocks"]:
        if b["cleanup"]:
            continue
        # `len - x`
        for s in b["stmts"]:
            if s["k"] == "assign" and s["rv"]["k"] == "binop" and s["rv"]["op"].startswith("Sub"):
                a, b2 = s["rv"]["a"], s["rv"]["b"]
                if a["k"] in ("copy", "move") and dim_of_operand(a) == "byte":
                    d2 = dim_of_operand(b2)
                    nm = names.get(b2["place"]["l"], "_%d" % b2["place"]["l"]) if b2["k"] != "const" else "const"
                    uses.append(("sub", b["i"], "`input.len() - %s`" % nm, [d2], s["span"]))
        t = b["term"]
        if t["k"] == "call":
            ci = callee_info(t)
            nm = (ci.get("resolved") or ci["def"]) if ci else ""
            if nm.endswith("Index<I>>::index") or nm == "std::ops::Index::index" or "str::traits::<impl std::ops::Index" in nm:
                a1 = t["args"][1]
                if a1["k"] in ("move", "copy"):
                    ds = defs.get(a1["place"]["l"], [])
                    for s in ds:
                        if s["rv"]["k"] == "aggregate" and "Range" in s["rv"].get("adt", ""):
                            dd = [dim_of_operand(o) for o in s["rv"]["ops"]]
                            uses.append(("index", b["i"], "`&input[start_pos..end_pos]` (str slice)", dd, t["span"]))
    return {"uses": uses, "counters": dict((names.get(l, "_%d" % l), v) for l, v in counters.items())}
