"""C08 - array, list and map element rules are enforced on every container type."""
import json, os
from core import VERIF
from absint import *
from domain import *
import cfg
import walkers

TABLES = [("array", "validation::check_array_element"), ("list", "validation::check_list_element"),
          ("map_key", "validation::check_map_key"), ("map_value", "validation::check_map_value")]


def run(ctx, rep):
    rep.exhaustive = True  # 68 element cells + dispatch cells: the finite space the property quantifies over is enumerated completely
    facts = ctx.mir
    sp = json.load(open(os.path.join(VERIF, "spec", "containers.json")))
    rep.rule("T1", "A3 tabulation of check_array_element / check_list_element / check_map_key / check_map_value over the 17 type categories vs spec/containers.json: "
                   "a rejected element gets exactly one Error on the element's symbol_range, an accepted one nothing")
    rep.rule("T2", "A3 tabulation of check_container over kind x generic_types.len() in {0,1,2}: which element checker is applied to which child, raw List/Map -> one Warning on the container")
    rep.rule("T3", "A5 visit sequence of traverse::walk_types (every type-bearing field, every depth by induction on the recursive helper) and check_containers' callback applies check_container to the node it is given")
    cats = categories(facts)
    rep.floor("T1", "type categories", len(cats), 17)
    cells = 0
    for tname, fnp in TABLES:
        fn = facts.fn(fnp)
        for cname, kind in cats:
            verdict = sp[tname].get(cname)
            if verdict is None:
                rep.fail("T1", "C08|T1|%s|%s|no-spec" % (tname, cname), cfg.where(fn), "category %s has no row in spec/containers.json[%s]" % (cname, tname))
                continue
            cells += 1
            over = {}
            if cname == "String":
                # a String-kind node is only built from the STRING token whose language is {"String"} (wiring rule)
                over["name"] = Ref(Cell(Const("str", "String")))
            t = type_node(facts, "type_", kind, **over)
            paths = Machine(facts).run(fnp, [Ref(Cell(t)), sym_ref("diagnostics", mut=True)])
            key = "%s|%s" % (tname, cname)
            if len(paths) != 1 or paths[0].exit != "return":
                rep.fail("T1", "C08|T1|%s|paths" % key, cfg.where(fn), "expected one returning path for a concrete category, got %r with conditions %r" % (
                    [p.exit for p in paths], [[(fmt_label(a), b) for a, b in p.conds] for p in paths]))
                continue
            p = paths[0]
            diags = [diag_of(e) for e in p.pushes("diagnostics")]
            other = only_pushes(p)
            got = [(d["kind"], d["range"]) for d in diags]
            if verdict == "ok":
                exp_ok = got == []
            elif verdict in ("reject", "multidim"):
                exp_ok = got == [("Error", "type_.symbol_range")]
            else:  # unstated
                exp_ok = got in ([], [("Error", "type_.symbol_range")])
            rep.check(exp_ok and not other, "T1", "C08|T1|%s" % key, diags[0]["where"] if diags else cfg.where(fn),
                      "%s element of category %s is '%s' in the spec; extracted diagnostics %r, other effects %r" % (tname, cname, verdict, got, other),
                      witness={"container": tname, "element_category": cname},
                      sample={"cell": key, "verdict": verdict, "diagnostics": repr(got)})
    rep.floor("T1", "element table cells", cells, 68)

    # ---- T2 dispatch
    fc = facts.fn("validation::check_container")
    opaque = [f for _, f in TABLES]
    n = 0
    for cname, kind in cats:
        for arity in (0, 1, 2):
            if cname == "Array" and arity != 1:
                continue  # D4: arrays always have exactly one child (constructor invariant, C01)
            if cname == "List" and arity == 2 or cname == "Map" and arity == 1:
                continue  # excluded by the constructor invariant (C01 D4); the code has unreachable!() there
            kids = [Cell(type_node(facts, "child%d" % i, Opaque("child%d.kind" % i, "ast::TypeKind"))) for i in range(arity)]
            t = type_node(facts, "type_", kind, generic_types=VecVal(kids))
            n += 1
            paths = Machine(facts, opaque_fns=opaque).run("validation::check_container", [Ref(Cell(t)), sym_ref("diagnostics", mut=True)])
            key = "%s|arity=%d" % (cname, arity)
            if len(paths) != 1 or paths[0].exit != "return":
                rep.fail("T2", "C08|T2|%s|paths" % key, cfg.where(fc), "expected one returning path, got %r" % ([(p.exit, p.ret) for p in paths],))
                continue
            p = paths[0]
            callsx = [(e[1].split("::")[-1], e[2][0]) for e in p.effects if e[0] == "call"]
            diags = [(d["kind"], d["range"]) for d in [diag_of(e) for e in p.pushes("diagnostics")]]
            other = [e for e in p.effects if e[0] not in ("call", "push")]
            if cname == "Array":
                exp = ([("check_array_element", "child0")], [])
            elif cname == "List":
                exp = ([("check_list_element", "child0")], []) if arity == 1 else ([], [("Warning", "type_.symbol_range")])
            elif cname == "Map":
                exp = ([("check_map_key", "child0"), ("check_map_value", "child1")], []) if arity == 2 else ([], [("Warning", "type_.symbol_range")])
            else:
                exp = ([], [])
            if cname == "Map" and arity == 2:
                ok_calls = sorted(callsx) == sorted(exp[0])
            else:
                ok_calls = callsx == exp[0]
            rep.check(ok_calls and diags == exp[1] and not other, "T2", "C08|T2|%s" % key, cfg.where(fc),
                      "check_container(%s with %d parameter(s)): expected checker calls %r and diagnostics %r; extracted %r / %r, other %r" % (cname, arity, exp[0], exp[1], callsx, diags, other),
                      witness={"kind": cname, "generic_types": arity}, sample={"cell": key, "calls": repr(callsx), "diagnostics": repr(diags)})
    rep.floor("T2", "dispatch cells", n, 45)

    # ---- T3 walker + callback
    walkers.check_type_walker(facts, rep, "C08", "traverse::walk_types", "walk_types", False)
    cc = facts.fn("validation::check_containers")
    m = Machine(facts, opaque_fns=["traverse::walk_types"])
    paths = m.run("validation::check_containers", [sym_ref("ast"), sym_ref("diagnostics", mut=True)])
    ok = False
    clos = facts.closures_of("validation::check_containers")
    if len(paths) == 1 and len(clos) == 1:
        callsx = [e for e in paths[0].effects if e[0] == "call"]
        if len(callsx) == 1 and callsx[0][1] == "traverse::walk_types" and callsx[0][2][0] == "ast":
            # the closure applies check_container(node, diagnostics)
            cl = facts.fns[clos[0]]
            env = AdtVal("closure:" + clos[0], None, {0: Cell(sym_ref("diagnostics", mut=True))})
            cp = Machine(facts, opaque_fns=["validation::check_container"]).run(clos[0], [Ref(Cell(env), True), sym_ref("node")])
            if len(cp) == 1:
                cs = [e for e in cp[0].effects if e[0] == "call"]
                ok = len(cs) == 1 and cs[0][1] == "validation::check_container" and cs[0][2] == ("node", "diagnostics") and len(cp[0].effects) == 1
    rep.check(ok, "T3", "C08|T3|callback", cfg.where(cc), "check_containers = walk_types(ast, |t| check_container(t, diagnostics)) and nothing else")
    import common_g
    rep.floor("IN", "grammar actions feeding this rule", common_g.emit_inputs(ctx, rep, "C08"), 5)
    import loopstate
    loopstate.rule(ctx, rep, "C08", ['validation::check_containers', 'validation::check_container'])
    import pipeline
    pipeline.rule(ctx, rep, "C08", ['resolve_types', 'check_containers'])
    rep.rule("LX", "lexical agreement (C03 A10, re-evaluated here): the property quantifies over documents - token classes, their priorities, the keyword rule, comments and white space must be the reference ones (a changed comment / number / keyword regex silently drops or merges members)")
    import lexical
    lexical.rules(ctx, rep, "C08", {"trivia", "classes", "priority", "keywords", "tokenizer"})
    rep.assumptions += ["TB-1 rustc MIR", "TB-4 tabulator", "a String-kind node has name \"String\" (grammar wiring rule, C02)",
                        "arity of generic_types per kind is the constructor invariant proved under C01 (D4)",
                        "std iterators (slice::Iter, for_each) visit every element once, in order"]
    rep.rule("RES", "inherits C05 rules A-E (re-evaluated here): the category this table is indexed by is the one resolution assigns - walker reaches every type node, resolve_type classifies per AIDL scoping, built-in tables, name-matching predicates")
    import c05
    c05.resolution_rules(ctx, rep, "C08")
