"""Renamed private functions.

The rules name functions by path.  A private function can be renamed without changing behaviour; so that such an edit is
not reported as a missing anchor, the fact file is canonicalised when it is loaded: a function of spec/anchors.json that no
longer exists is identified with a function the spec does not know when that function lives in the same module, has the
same parameter and return types and - if that is not unique - is called from the same functions.  Its path is then rewritten
to the spec's name everywhere in the facts (keys, resolved callees, closure paths, local type paths).  No match: nothing is
rewritten and the rules fail closed on the missing anchor as before."""
import json
import os
import re

HERE = os.path.dirname(os.path.abspath(__file__))
SPEC = os.path.join(os.path.dirname(HERE), "spec", "anchors.json")


def is_plain_fn(p, f):
    return "{closure" not in p and not p.startswith("rules::") and "::_::" not in p and not f.get("derived") and not p.startswith("<")


def outer(p):
    return p.split("::{closure")[0]


def signature(f):
    return [list(f.get("inputs") or []), f.get("output")]


def callers_of(fns):
    from mirlib import callee_info
    out = {}
    for p, f in fns.items():
        body = f.get("body")
        if not body:
            continue
        for b in body["blocks"]:
            t = b["term"]
            if t["k"] != "call":
                continue
            ci = callee_info(t)
            if ci is None:
                continue
            nm = ci.get("resolved") or ci["def"]
            if nm in fns:
                out.setdefault(nm, set()).add(outer(p))
    return out


def call_positions(fns):
    """{callee: (line, col) of its first call site in the source, over all callers}"""
    from mirlib import callee_info
    out = {}
    for p, f in fns.items():
        body = f.get("body")
        if not body:
            continue
        for b in body["blocks"]:
            t = b["term"]
            if t["k"] != "call":
                continue
            ci = callee_info(t)
            if ci is None:
                continue
            nm = ci.get("resolved") or ci["def"]
            if nm in fns:
                pos = (t["span"]["file"], t["span"]["line"], t["span"]["col"])
                if nm not in out or pos < out[nm]:
                    out[nm] = pos
    return out


def describe(fns):
    cs = callers_of(fns)
    d = {}
    for p, f in fns.items():
        if is_plain_fn(p, f):
            d[p] = {"sig": signature(f), "callers": sorted(cs.get(p, ())), "vis": "pub" if f.get("vis") == "Public" else "private"}
    # rank among the functions with the same signature and callers, by first call site (for renamed siblings)
    pos = call_positions(fns)
    groups = {}
    for p, e in d.items():
        groups.setdefault((p.rsplit("::", 1)[0], json.dumps(e["sig"]), json.dumps(e["callers"])), []).append(p)
    for g in groups.values():
        g.sort(key=lambda p: pos.get(p, ("~", 0, 0)))
        for i, p in enumerate(g):
            d[p]["rank"] = i
    return d


def find_aliases(fns, spec):
    """{path in this tree: path in the spec}"""
    cur = describe(fns)
    missing = sorted((p for p in spec if p not in cur), key=lambda p: p.count("::"))
    extra = [p for p in cur if p not in spec]
    alias = {}
    for m in missing:
        # a nested fn whose parent was renamed is found under the renamed parent
        parent = m.rsplit("::", 1)[0]
        cands = [e for e in extra if e not in alias and cur[e]["sig"] == spec[m]["sig"] and
                 (e.rsplit("::", 1)[0] == parent or alias.get(e.rsplit("::", 1)[0]) == parent or any(e.rsplit("::", 1)[0] == a for a, s in alias.items() if s == parent))]
        if not cands and "::" in m:
            # a free function turned into an associated function of a type of the same module (or the reverse): same module, same name, same signature
            cands = [e for e in extra if e not in alias and cur[e]["sig"] == spec[m]["sig"] and e.split("::")[0] == m.split("::")[0]
                     and e.rsplit("::", 1)[1] == m.rsplit("::", 1)[1]]
        if len(cands) > 1:
            inv = dict((a, s) for a, s in alias.items())
            want = sorted(spec[m]["callers"])
            cands = [e for e in cands if sorted(inv.get(c, c) for c in cur[e]["callers"]) == want]
        if len(cands) > 1:
            cands = [e for e in cands if cur[e].get("rank") == spec[m].get("rank")]
        if len(cands) == 1:
            alias[cands[0]] = m
    return alias


def canonicalize(text):
    """rewrite renamed private functions in the raw JSON text of a MIR fact file; returns (text, {new: spec})"""
    if not os.path.exists(SPEC):
        return text, {}
    spec = json.load(open(SPEC))
    spec = dict((k, v) for k, v in spec.items() if not k.startswith("_"))
    d = json.loads(text)
    fns = dict((f["path"], f) for f in d["fns"])
    total = {}
    for _ in range(3):   # nested functions become matchable once their parent has been rewritten
        alias = find_aliases(fns, spec)
        alias = dict((a, s) for a, s in alias.items() if a not in total)
        if not alias:
            break
        for new, old in sorted(alias.items(), key=lambda x: -len(x[0])):
            text = re.sub(r"(?<![A-Za-z0-9_:])" + re.escape(new) + r"(?![A-Za-z0-9_])", old.replace("\\", "\\\\"), text)
            total[new] = old
        d = json.loads(text)
        fns = dict((f["path"], f) for f in d["fns"])
    return text, total


if __name__ == "__main__":
    # regenerate spec/anchors.json from a fact file (done once, on the pinned tree)
    import sys
    sys.path.insert(0, HERE)
    d = json.load(open(sys.argv[1]))
    fns = dict((f["path"], f) for f in d["fns"])
    out = {"_comment": "signature and callers of every user-written function on the pinned tree (rules/aliases.py: recognising a renamed private function)"}
    out.update(describe(fns))
    json.dump(out, open(SPEC, "w"), indent=1, sort_keys=True)
    print(len(out) - 1, "functions")
