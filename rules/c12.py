"""C12 - results depend only on the surviving contents, not on the edit history."""
import re
from absint import *
from domain import *
from mirlib import callee_info
import cfg
import dataflow
from c11 import INTERIOR, IMPURE

P = "parser::Parser::<ID>::"
PARSE = "rules::aidl::__parse__OptAidl::OptAidlParser::parse"


def parser_field_accesses(facts):
    """every place mentioning a field of parser::Parser: (fn path, how, field, where)"""
    out = []
    for p, f in sorted(facts.fns.items()):
        if f.get("derived"):
            continue
        for b in f["body"]["blocks"]:
            if b["cleanup"]:
                continue
            for s in b["stmts"]:
                if s["k"] != "assign":
                    continue
                lhs = s["lhs"]
                fl = [e for e in lhs["p"] if e["k"] == "field" and e.get("of") == "parser::Parser"]
                if fl:
                    out.append((p, "assign", fl[0]["name"], cfg.where(f, s)))
                for pl, how in dataflow.places_of_rvalue(s["rv"]):
                    fl = [e for e in pl["p"] if e["k"] == "field" and e.get("of") == "parser::Parser"]
                    if fl:
                        out.append((p, how, fl[0]["name"], cfg.where(f, s)))
                if s["rv"]["k"] == "aggregate" and s["rv"].get("adt") == "parser::Parser":
                    out.append((p, "construct", ",".join(s["rv"]["fields"]), cfg.where(f, s)))
            t = b["term"]
            if t["k"] == "call":
                for a in t["args"]:
                    if a["k"] in ("copy", "move"):
                        fl = [e for e in a["place"]["p"] if e["k"] == "field" and e.get("of") == "parser::Parser"]
                        if fl:
                            out.append((p, a["k"], fl[0]["name"], cfg.where(f, t)))
    return out


def run(ctx, rep):
    facts = ctx.mir
    rep.rule("H1", "slot discipline: the only mutable accesses to a field of Parser are `insert(id, ..)` in add_content and `remove(&id)` in remove_content, keyed by the caller's id; constructors build an empty map")
    rep.rule("H2", "validate takes &self and no type reachable from Parser / ParseFileResult / the AST has interior mutability")
    rep.rule("H3", "add_content: on every path exactly one insert under the caller's id of a result tagged with that id, built only from the parse of `content` (fresh lookup, fresh diagnostics vector)")
    rep.rule("H4", "parsing is pure: no statics, no clock / environment / random source reachable from add_content")
    rep.rule("H5", "remove_content is the single remove(id)")
    rep.rule("H6", "add_file: add_content is reached only after File::open and read_to_string both succeeded; on the error edges the error is returned and self is not used; id = PathBuf::from(path), content = the buffer read")
    rep.rule("H7", "validate = validation::validate(collect_item_keys(self), clone of the whole map): recomputed on every call, no cache")
    # ---- H1
    acc = parser_field_accesses(facts)
    rep.floor("H1", "accesses to fields of Parser", len(acc), 4)
    fields = [f["name"] for f in facts.adt("parser::Parser")["variants"][0]["fields"]]
    rep.analysed["Parser fields"] = fields
    allowed_mut = {(P + "add_content"): "insert", (P + "remove_content"): "remove"}
    for p, how, field, where in acc:
        if how in ("refmut", "assign", "move"):
            ok = p in allowed_mut
            rep.check(ok, "H1", "C12|H1|mutable-access|%s|%s" % (p, field), where,
                      "field Parser.%s is accessed mutably (%s) in %s: only add_content (insert) and remove_content (remove) may change the stored state" % (field, how, p),
                      sample={"fn": p, "field": field, "access": how})
        elif how == "construct":
            rep.ok("H1", "constructor", {"fn": p, "fields": field})
        else:
            rep.ok("H1", "read", {"fn": p, "field": field, "access": how})
    # ---- H3 add_content
    add_content_rule(ctx, rep, "C12", "H3")
    # ---- H5
    fr = facts.fn(P + "remove_content")
    paths = Machine(facts).run(P + "remove_content", [sym_ref("self", mut=True), Opaque("id")])
    ok = len(paths) == 1 and [(e[1].rsplit("::", 1)[1], e[2]) for e in paths[0].effects if e[0] == "call"] == [("remove", ("self.lalrpop_results", "id"))] and len(paths[0].effects) == 1
    rep.check(ok, "H5", "C12|H5", cfg.where(fr), "remove_content must be exactly lalrpop_results.remove(&id); extracted %r" % ([fmt_label(e[1:3]) for e in paths[0].effects] if paths else None,))
    # ---- H7 / H2
    fv = facts.fn(P + "validate")
    rep.check(fv["inputs"][0].startswith("&parser::Parser") and not fv["inputs"][0].startswith("&mut"), "H2", "C12|H2|receiver", cfg.where(fv), "validate must take &self (got %s)" % fv["inputs"][0])
    paths = Machine(facts, opaque_fns=[P + "collect_item_keys", "validation::validate"]).run(P + "validate", [sym_ref("self")])
    ok = len(paths) == 1 and [fmt_label(e[1:3]) for e in paths[0].effects] == [
        "(parser::Parser::<ID>::collect_item_keys, (self))", "(validation::validate, (parser::Parser::<ID>::collect_item_keys(self), self.lalrpop_results))"] \
        and fmt_label(lab(paths[0].ret)) == "validation::validate(parser::Parser::<ID>::collect_item_keys(self), self.lalrpop_results)"
    rep.check(ok, "H7", "C12|H7", cfg.where(fv), "validate must be validation::validate(self.collect_item_keys(), self.lalrpop_results.clone()); extracted %r" % ([fmt_label(e[1:3]) for e in paths[0].effects] if paths else None,))
    n = 0
    for path, adt in sorted(facts.adts.items()):
        if "::_::" in path:
            continue
        for v in adt["variants"]:
            for fl in v["fields"]:
                n += 1
                if INTERIOR.search(fl["ty"]):
                    rep.fail("H2", "C12|H2|interior|%s.%s" % (path, fl["name"]), adt["span"]["file"], "field %s.%s (%s) has interior mutability: validating could change what a later validation returns" % (path, fl["name"], fl["ty"]))
    rep.floor("H2", "ADT fields scanned", n, 100)
    # ---- H4
    rep.check(not facts.statics and not [s for s in ctx.src["statics"] if s["kind"] != "const" and not s["file"].startswith("build")], "H4", "C12|H4|statics", None, "no static / thread_local items in the crate")
    reach, _ = dataflow.reachable_fns(facts, [P + "add_content", P + "validate", P + "remove_content"])
    ext = dataflow.external_callees(facts, reach)
    imp = sorted(nm for nm in ext if IMPURE.search(nm))
    rep.check(not imp, "H4", "C12|H4|impure", None, "impure std sources reachable from add_content / validate / remove_content: %r" % (imp,), sample={"functions": len(reach), "external callees": len(ext)})
    # ---- H6 add_file
    af = "parser::Parser::<std::path::PathBuf>::add_file"
    ff = facts.fn(af)
    paths = Machine(facts, opaque_fns=[P + "add_content"]).run(af, [sym_ref("self", mut=True), Opaque("path")])
    rep.floor("H6", "paths of add_file", len(paths), 3)
    n_ok = 0
    for i, p in enumerate(paths):
        calls = [e for e in p.effects if e[0] == "call"]
        names = [c[1] for c in calls]
        uses_self = [c for c in calls if any("self" in fmt_label(a) for a in c[2])]
        ret = p.ret
        if isinstance(ret, AdtVal) and ret.vname == "Err":
            ok = not uses_self and names[0] == "std::fs::File::open" and all(n in ("std::fs::File::open", "<std::fs::File as std::io::Read>::read_to_string") for n in names)
            exp = "an I/O error is returned without touching the parser"
        elif isinstance(ret, AdtVal) and ret.vname == "Ok":
            n_ok += 1
            ok = len(uses_self) == 1 and uses_self[0] == calls[-1] and uses_self[0][1] == P + "add_content" \
                and names[:2] == ["std::fs::File::open", "<std::fs::File as std::io::Read>::read_to_string"] and calls[0][2] == ("path",)
            if ok:
                s, idl, content = uses_self[0][2]
                rd = calls[1]
                ok = s == "self" and fmt_label(idl).startswith("<std::path::PathBuf as std::convert::From<&T>>::from(path)") and base_label(content) == base_label(rd[2][1]) \
                    and (fmt_label(rd[2][0]).endswith("Continue.0)") or fmt_label(rd[2][0]).endswith("Ok.0)")) and "File::open(path)" in fmt_label(rd[2][0])
                conds = dict((fmt_label(l), v) for l, v in p.conds)
                ok = ok and all(v in ("Continue", "Ok") for v in conds.values()) and len(conds) == 2
            exp = "open(path) ok, read_to_string(file, buffer) ok, then add_content(self, PathBuf::from(path), &buffer)"
        else:
            ok = False
            exp = "?"
        rep.check(ok and p.exit == "return", "H6", "C12|H6|path%d" % i, cfg.where(ff), "add_file path %d (%s): expected %s; extracted calls %r" % (i, ret.vname if isinstance(ret, AdtVal) else ret, exp, [fmt_label(c[1:3])[:120] for c in calls]),
                  sample={"path": i, "result": ret.vname if isinstance(ret, AdtVal) else repr(ret), "calls": names})
    rep.check(n_ok == 1, "H6", "C12|H6|one-success-path", cfg.where(ff), "add_file has exactly one success path (found %d)" % n_ok)
    rep.assumptions += ["TB-1 rustc MIR", "TB-3 HashMap::insert overwrites, remove removes, clone copies; File::open / read_to_string report unreadable and non-UTF-8 files as Err",
                        "TB-2 the generated parser is a pure function of its arguments (no statics in the crate; lalrpop runtime)", "equality with a *fresh* parser additionally needs seed-independence: C11"]
    rep.not_decided.append("modulo C11's known finding (key collisions between files)")


def add_content_rule(ctx, rep, prop, rule):
    """H3 (shared with C20 F4): what add_content stores is exactly the parse of `content`: the parser's own diagnostics plus the converted fatal error, nothing rewritten afterwards"""
    facts = ctx.mir
    fa = facts.fn(P + "add_content")
    paths = Machine(facts, opaque_fns=["diagnostic::Diagnostic::from_parse_error"]).run(P + "add_content", [sym_ref("self", mut=True), Opaque("id"), sym_ref("content")])
    rep.floor(rule, "paths of add_content", len(paths), 2)
    for i, p in enumerate(paths):
        calls = [e for e in p.effects if e[0] == "call"]
        muts = [c for c in calls if any(base_label(a) == "self.lalrpop_results" or base_label(a) == "self" for a in c[2])]
        parse = [c for c in calls if c[1] == PARSE]
        ok = p.exit == "return" and len(muts) == 1 and muts[0][1].endswith("HashMap::<K, V, S, A>::insert") and muts[0] == calls[-1]
        det = None
        if ok:
            tgt, key, val = muts[0][2]
            det = fmt_label(val)[:300]
            ok = tgt == "self.lalrpop_results" and key == "id" and isinstance(val, tuple) and val[0] == "adt" and val[1] == "parser::ParseFileResult"
            if ok:
                fl = dict(val[3])
                idf, astf, dg = fl.get(0), fl.get(1), fl.get(2)
                parse_ok = len(parse) == 1 and parse[0][2][1:] == (("call", "line_col::LineColLookup::<'source>::new", ("content",)), ("vec", ()), "content")
                ast_ok = astf == ("adt", "std::option::Option", "None", ()) or (isinstance(astf, tuple) and astf[0] == "field" and astf[1] == ("call", PARSE, parse[0][2]) and astf[2] == "Ok.0")
                dg_ok = "havoc" in fmt_label(dg) and PARSE in fmt_label(dg) and "self" not in fmt_label(dg)
                ok = idf == "id" and parse_ok and ast_ok and dg_ok
        others = [c for c in calls if c not in muts and c not in parse and c[1] != "diagnostic::Diagnostic::from_parse_error"]
        rep.check(ok and not others, rule, "%s|%s|path%d" % (prop, rule, i), cfg.where(fa),
                  "add_content path %d: expected parse(new lookup of content, fresh diagnostics, content) and finally insert(self.lalrpop_results, id, ParseFileResult{id, tree-or-None, those diagnostics}); extracted insert value %r, other calls %r" % (
                      i, det, [c[1] for c in others]), sample={"path": i, "stored": det})


def content_untouched(ctx, rep, rule, prop):
    """shared (C04, C16, C18): the text handed to the line/column lookup and the text handed to the generated parser are both
    the caller's `content` itself - offsets reported by the parser are offsets into what the caller stored"""
    facts = ctx.mir
    fa = facts.fn(P + "add_content")
    paths = Machine(facts, opaque_fns=["diagnostic::Diagnostic::from_parse_error"]).run(P + "add_content", [sym_ref("self", mut=True), Opaque("id"), sym_ref("content")])
    rep.floor(rule, "paths of add_content", len(paths), 2)
    for i, p in enumerate(paths):
        parse = [e for e in p.effects if e[0] == "call" and e[1] == PARSE]
        ok = len(parse) == 1 and parse[0][2][1:] == (("call", "line_col::LineColLookup::<'source>::new", ("content",)), ("vec", ()), "content")
        rep.check(ok, rule, "%s|%s|add_content|path%d" % (prop, rule, i), cfg.where(fa),
                  "add_content path %d: the parser must be run as parse(&LineColLookup::new(content), &mut fresh diagnostics, content) on the caller's text itself "
                  "(a stripped / normalised copy shifts every offset relative to the text the caller holds); extracted %r" % (i, [fmt_label(c[2]) for c in parse]),
                  sample={"path": i, "parse_args": [fmt_label(c[2])[:200] for c in parse]})


def inherit_h7(ctx, rep, prop, rule="H7"):
    """H7 re-evaluated under another property: what Parser::validate returns is what validation::validate returned, for
    every stored file - nothing filters, de-duplicates, truncates or re-orders the results afterwards."""
    import core as _core
    rep.rule(rule, "inherits C12 H7 (re-evaluated here): Parser::validate returns exactly validation::validate(collect_item_keys(), all stored results) - "
                   "no post-processing (dedup / truncate / filter / cache) between the validation rules and the caller")
    r12 = _core.Report("C12")
    run(ctx, r12)
    bad = [v for v in r12.violations if v.rule == "H7"]
    rep.check(not bad, rule, "%s|%s|validate-passes-through" % (prop, rule), bad[0].where if bad else None,
              bad[0].message if bad else "Parser::validate = validation::validate(collect_item_keys(), all results)")


def inherit(ctx, rep, prop, rules, as_rule="H"):
    """C12's parser-state rules re-evaluated under another property (each violation re-keyed to that property)"""
    import core as _core
    r12 = _core.Report("C12")
    run(ctx, r12)
    bad = [v for v in r12.violations if v.rule in rules]
    for v in bad:
        rep.fail(as_rule, v.key.replace("C12|", prop + "|", 1), v.where, v.message, witness=v.witness)
    if not bad:
        rep.ok(as_rule, "C12 %s hold" % ", ".join(rules), {"C12 obligations": r12.obligations})


PLUMBING = ("H1", "H2", "H3", "H5", "H7")


def plumbing(ctx, rep, prop):
    """PB: every property is a statement about what `validate` returns for the contents the caller put into the parser.  Whatever a
    property's own rules establish about the grammar actions, the validation rules or the traversal only reaches the caller if the
    plumbing is the identity: add_content stores the parse of the text given (H3), only add_content / remove_content write the
    parser's state (H1, H5), nothing has interior mutability (H2), and validate hands every stored result to validation::validate and
    returns its answer untouched (H7).  C12 owns these rules; they are re-evaluated under every other property and re-keyed to it."""
    rep.rule("PB", "plumbing (C12 H1, H2, H3, H5, H7 re-evaluated here): what the caller gets is what the parser built for the text the caller gave - "
                   "add_content stores exactly the parse result under the caller's id, remove_content removes exactly that id, no other writer / cache / interior mutability, "
                   "validate = validation::validate(collect_item_keys(), every stored result) returned as is")
    import core as _core
    r12 = _core.Report("C12")
    run(ctx, r12)
    bad = [v for v in r12.violations if v.rule in PLUMBING]
    have = set(v.key.split("|", 1)[1] for v in rep.violations if "|" in v.key)
    for v in bad:
        tail = v.key.split("|", 1)[1]
        if tail in have:
            continue   # already reported by the property's own inheritance of the same rule
        rep.fail("PB", prop + "|" + tail, v.where, v.message, witness=v.witness)
    if not bad:
        rep.ok("PB", "C12 %s hold" % ", ".join(PLUMBING), {"C12 obligations": r12.obligations, "rules": list(PLUMBING)})
