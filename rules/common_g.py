"""emit wiring obligations of the given aspects under a property"""
import wiring


def emit(ctx, rep, prop, aspects, rule_id, key_re=None):
    """report the wiring obligations of the given aspects (optionally only those whose key matches key_re) under `prop`"""
    import re
    obls, stats = wiring.analyse(ctx)
    n = 0
    for o in obls:
        if o.aspect in aspects and (key_re is None or re.search(key_re, o.key)):
            n += 1
            if o.ok:
                rep.ok(rule_id, o.key, o.sample)
            else:
                rep.fail(rule_id, "%s|%s" % (prop, o.key), o.where, o.message, witness=o.witness)
    rep.analysed["user-written grammar actions interpreted"] = stats["user_actions"]
    return n, stats


# what each validation rule reads from the tree: the grammar actions that fill those fields are obligations of that
# property too (a validation rule fed a wrong input gives wrong diagnostics although its own code is untouched)
INPUTS = {
    "C05": r"\|(Type\w*/\d+\|(kind|name|generic_types|children|wrapper)|QualifiedName/0|Import/0\|(path|name)|DeclaredParcelable/0\|(path|name)|Package/0\|name|OptAidl/0\|(package|imports|declared_parcelables|item)|(Interface|Parcelable|Enum)/0\|name)",
    "C06": r"\|(QualifiedName/0|Import/0\|(path|name)|DeclaredParcelable/0\|(path|name)|OptAidl/0\|(imports|declared_parcelables)|Type\w*/\d+\|(kind|name))",
    "C07": r"\|(Type\w*/\d+\|(kind|generic_types|children|wrapper)|Arg/0\|(direction|arg_type)|Direction/0|Method/0\|(args|oneway)|CommaSeparated<Arg>)",
    "C08": r"\|(Type\w*/\d+\|(kind|generic_types|children|wrapper)|(Method|Arg|Field|Const)/0\|(return_type|arg_type|field_type|const_type|args))",
    "C09": r"\|(Method/0\|(name|transact_code)|Interface/0\|elements|OptInterfaceElement)",
    "C10": r"\|(Method/0\|(return_type|oneway)|Interface/0\|(oneway|elements)|TypeVoid/0\|kind|OptInterfaceElement)",
    "C17": r"\|(QualifiedName/0|Package/0\|name|(Interface|Parcelable|Enum)/0\|name|OptAidl/0\|(package|item))",
}


def emit_inputs(ctx, rep, prop, rule_id="IN"):
    rep.rule(rule_id, "the grammar actions that fill the tree fields this property's validation rules read (spec/wiring.json; A9 wiring analysis) - "
                      "the rule's input is what the source says: " + INPUTS[prop].replace("\\", ""))
    n, _ = emit(ctx, rep, prop, {"value", "arity", "ident", "direction", "oneway"}, rule_id, INPUTS[prop])
    return n
