"""emit wiring obligations of the given aspects under a property"""
import wiring


def emit(ctx, rep, prop, aspects, rule_id):
    obls, stats = wiring.analyse(ctx)
    n = 0
    for o in obls:
        if o.aspect in aspects:
            n += 1
            if o.ok:
                rep.ok(rule_id, o.key, o.sample)
            else:
                rep.fail(rule_id, "%s|%s" % (prop, o.key), o.where, o.message, witness=o.witness)
    rep.analysed["user-written grammar actions interpreted"] = stats["user_actions"]
    return n, stats
