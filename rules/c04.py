"""C04 - every reported source range is exact, well-formed and properly nested."""
import re
import json
from absint import *
from domain import *
from mirlib import callee_info
import cfg
import common_g
import c02


def run(ctx, rep):
    facts = ctx.mir
    rep.rule("P1-P3", "Position::new builds {offset: x, line_col: get_by_cluster(lookup, x)} from one x; Range::new puts start / end in place; every other Position / Range aggregate is the empty-range idiom {p.clone(), p.clone()}")
    rep.rule("P0", "add_content hands the caller's text itself (not a stripped or normalised copy) to both the line/column lookup and the generated parser")
    import c12
    c12.content_untouched(ctx, rep, "P0", "C04")
    rep.rule("P4", "Cargo.toml enables line-col/grapheme-clusters and the lookup used is get_by_cluster")
    rep.rule("D1/W1", "every offset given to Range::new in a grammar action is an untouched @L / @R capture; start is an @L, end an @R that does not precede it")
    rep.rule("W2-W4", "per production (spec/wiring.json): symbol_range spans exactly the name symbol, full_range runs from the capture in front of the construct's first symbol to the capture behind its last one; children lie inside")
    rep.rule("G1", "from_parse_error: InvalidToken / UnrecognizedEOF -> (location, location); UnrecognizedToken / ExtraToken -> (token.0, token.2)")
    rep.rule("G2", "the transact-code parse Error lies exactly on the INTEGER token")
    rep.rule("G3", "every Diagnostic / RelatedInfo built by validation takes its range from a range field of an AST node in scope (clone), or is the empty range at the type's start")
    # ---- P1-P3
    fp = facts.fn("ast::Position::new")
    position_rules(ctx, rep, "C04")
    fr_ = facts.fn("ast::Range::new")
    paths = Machine(facts, opaque_fns=["ast::Position::new"], pure_fns=["ast::Position::new"]).run("ast::Range::new", [sym_ref("lookup"), Opaque("s"), Opaque("e")])
    ok = len(paths) == 1 and isinstance(paths[0].ret, AdtVal)
    if ok:
        r = paths[0].ret
        det = [fmt_label(lab(r.fields[i].val)) for i in (0, 1)]
        ok = det == ["ast::Position::new(lookup, s)", "ast::Position::new(lookup, e)"]
    rep.check(ok, "P2", "C04|P2|Range::new", cfg.where(fr_), "Range::new(lookup, s, e) must be {start: Position(s), end: Position(e)}; extracted %r" % (det,), sample={"range": det})
    # P3: all Position / Range aggregates
    n = 0
    for pth, f in sorted(facts.fns.items()):
        if f.get("derived") or "::_::" in pth:
            continue
        for b in f["body"]["blocks"]:
            if b["cleanup"]:
                continue
            for s in b["stmts"]:
                if s["k"] == "assign" and s["rv"]["k"] == "aggregate" and s["rv"].get("adt") in ("ast::Position", "ast::Range"):
                    n += 1
                    adt = s["rv"]["adt"]
                    if pth in ("ast::Position::new", "ast::Range::new"):
                        rep.ok("P3", "constructor %s" % pth)
                        continue
                    okk = False
                    if adt == "ast::Range" and (pth == "validation::check_method_args" or pth.startswith("validation::check_method_args::{closure")):
                        okk = True  # checked by the C07 table: Range{start: p.clone(), end: p.clone()} with one p
                    elif adt == "ast::Range" and empty_range_idiom(f["body"], s):
                        okk = True  # structurally the idiom: both operands are clones of one and the same place
                    rep.check(okk, "P3", "C04|P3|%s|%s" % (pth, adt), cfg.where(f, s),
                              "%s is built outside its constructor in %s: only the empty-range idiom {start: p.clone(), end: p.clone()} of check_method_args is known to keep start <= end" % (adt, pth))
    rep.floor("P3", "Position / Range aggregates", n, 3)
    # the idiom itself
    import c07
    t = type_node(facts, "arg.arg_type", enum_val(facts, TYPEKIND, "Array"))
    arg = struct_val(facts, "ast::Arg", "arg", {"arg_type": t, "direction": enum_val(facts, DIRECTION, "Unspecified")})
    meth = struct_val(facts, "ast::Method", "method", {"oneway": Const("bool", False)})
    ps = Machine(facts, on_next=lambda il: Ref(Cell(arg)), loop_once=True).run("validation::check_method_args", [Ref(Cell(meth)), sym_ref("diagnostics", mut=True)])
    rg = [diag_of(e)["range"] for p in ps for e in p.pushes("diagnostics")]
    rep.check(rg == [("empty_at", "arg.arg_type.symbol_range.start")], "P3", "C04|P3|empty-range-idiom", cfg.where(facts.fn("validation::check_method_args")),
              "the missing-direction range must be the empty range {p, p} at the start of the argument's type; extracted %r" % (rg,), sample={"range": repr(rg)})
    # ---- wiring: offsets and ranges
    n1, stats = common_g.emit(ctx, rep, "C04", {"offsets"}, "D1")
    rep.floor("D1", "Range::new sites in grammar actions", stats["range_sites"], 30)
    n2, _ = common_g.emit(ctx, rep, "C04", {"range"}, "W")
    rep.floor("W", "range wiring obligations", n2, 80)
    c02.ctor_rules(ctx, rep, "C04", ranges=True)
    # ---- G1
    parse_error_ranges(ctx, rep, "C04")
    # ---- G3 validation diagnostics
    g3(ctx, rep)
    rep.assumptions += ["TB-2 lalrpop: @L/@R are byte offsets of token boundaries, monotone in production order", "TB-3 numeric correctness of the line-col crate", "TB-1 rustc MIR", "TB-4 tabulator"]
    rep.not_decided += ["numeric correctness of line / column computation (line-col crate)", "which token lalrpop blames on recovery (only that its boundaries are forwarded untouched)"]


RANGE_FIELDS = ("symbol_range", "full_range", "transact_code_range", "oneway_range")


def parse_error_ranges(ctx, rep, prop):
    """G1 (shared with C11): where each syntax error is reported"""
    facts = ctx.mir
    FPE = "diagnostic::Diagnostic::from_parse_error"
    ff = facts.fn(FPE)
    paths = Machine(facts, opaque_fns=["diagnostic::expected_token_str", "ast::Range::new"], pure_fns=["diagnostic::expected_token_str", "ast::Range::new"]).run(FPE, [sym_ref("lookup"), Opaque("e", "lalrpop_util::ParseError")])
    want = {"InvalidToken": ("e.InvalidToken.location", "e.InvalidToken.location"), "UnrecognizedEOF": ("e.UnrecognizedEOF.location", "e.UnrecognizedEOF.location"),
            "UnrecognizedToken": ("e.UnrecognizedToken.token.0", "e.UnrecognizedToken.token.2"), "ExtraToken": ("e.ExtraToken.token.0", "e.ExtraToken.token.2")}
    got = {}
    for p in paths:
        var = [v for l, v in p.conds if isinstance(l, tuple) and l[0] == "variant" and l[1] == "e"][0]
        r = deref_val(p.ret)
        if isinstance(r, AdtVal) and r.vname == "Some":
            d = deref_val(r.fields[0].val)
            rl = lab(d.fields[1].val)
            if isinstance(rl, tuple) and rl[0] == "call" and rl[1] == "ast::Range::new":
                got[var] = (rl[2][1], rl[2][2])
            else:
                got[var] = fmt_label(rl)
    for var, w in sorted(want.items()):
        rep.check(got.get(var) == w, "G1", "%s|G1|%s" % (prop, var), cfg.where(ff), "ParseError::%s must be reported on Range::new(lookup, %s, %s) - the offending token's own boundaries / the failure location; extracted %r" % (var, w[0], w[1], got.get(var)),
                  sample={"variant": var, "range": repr(got.get(var))})


def empty_range_idiom(body, stmt):
    """Range { start: <P>.clone(), end: <P>.clone() } with one place P (an empty range at an existing position)"""
    ops = stmt["rv"].get("ops") or []
    if len(ops) != 2 or any(o["k"] not in ("move", "copy") or o["place"]["p"] for o in ops):
        return False
    srcs = []
    for o in ops:
        l = o["place"]["l"]
        src = None
        for b in body["blocks"]:
            t = b["term"]
            if t["k"] == "call" and t["dest"]["l"] == l and not t["dest"]["p"]:
                ci = callee_info(t)
                nm = (ci.get("resolved") or ci["def"]) if ci else ""
                if nm.endswith("Clone>::clone") or nm.endswith("::clone"):
                    a = t["args"][0]
                    if a["k"] in ("move", "copy") and not a["place"]["p"]:
                        # the argument is a reference temp: find `tmp = &place`
                        for b2 in body["blocks"]:
                            for s2 in b2["stmts"]:
                                if s2["k"] == "assign" and s2["lhs"]["l"] == a["place"]["l"] and not s2["lhs"]["p"] and s2["rv"]["k"] == "ref":
                                    pl = s2["rv"]["place"]
                                    src = (pl["l"], json.dumps([dict((k, v) for k, v in e.items() if k != "ty") if isinstance(e, dict) else e for e in pl["p"]], sort_keys=True))
        srcs.append(src)
    return srcs[0] is not None and srcs[0] == srcs[1]


def position_rules(ctx, rep, prop):
    """P1 + P4 (shared with C16): a Position pairs the offset with line-col's grapheme-cluster lookup of that same offset"""
    facts = ctx.mir
    fp = facts.fn("ast::Position::new")
    paths = Machine(facts, pure_fns=["line_col::LineColLookup::<'source>::get_by_cluster"]).run("ast::Position::new", [sym_ref("lookup"), Opaque("x")])
    ok = len(paths) == 1 and isinstance(paths[0].ret, AdtVal)
    det = None
    if ok:
        r = paths[0].ret
        det = [fmt_label(lab(r.fields[i].val)) for i in (0, 1)]
        ok = det == ["x", "line_col::LineColLookup::<'source>::get_by_cluster(lookup, x)"]
    rep.check(ok, "P1", "%s|P1|Position::new" % prop, cfg.where(fp), "Position::new(lookup, x) must be {offset: x, line_col: lookup.get_by_cluster(x)}; extracted %r" % (det,), sample={"position": det})
    toml = open(ctx.repo + "/Cargo.toml").read()
    m = re.search(r"^line-col\s*=\s*\{([^}]*)\}", toml, re.M)
    rep.check(bool(m) and "grapheme-clusters" in m.group(1), "P4", "%s|P4|feature" % prop, "Cargo.toml", "line-col must be built with the grapheme-clusters feature (columns are counted in grapheme clusters)")
    sites = cfg.call_sites(fp["body"], lambda c: "LineColLookup" in c)
    rep.check([c for _, t in sites for c in [(callee_info(t).get("resolved") or callee_info(t)["def"]).rsplit("::", 1)[1]]] == ["get_by_cluster"], "P4", "%s|P4|lookup-fn" % prop, cfg.where(fp),
              "Position::new must use get_by_cluster (the plain `get` counts columns in chars: a combining mark or other multi-char cluster shifts every later column on the line)")


def node_range(l):
    """is the label the (clone of the) range field of an AST node in scope, or the empty range at a node's start?"""
    if isinstance(l, str):
        return l.endswith(RANGE_FIELDS) or l.endswith("direction.range")
    if isinstance(l, tuple) and l and l[0] == "empty_at":
        return isinstance(l[1], str) and l[1].endswith("symbol_range.start")
    if isinstance(l, tuple) and l and l[0] == "field" and l[2] in RANGE_FIELDS:
        return True
    return False


def g3(ctx, rep):
    """every Diagnostic aggregate of validation is observed in a tabulation of its function; its range (and the
    ranges of its related infos) must be a range field of a node in scope"""
    facts = ctx.mir
    from closures import run_closure
    import c05, c06
    sites = {}
    nrel_sites = 0
    for pth, f in sorted(facts.fns.items()):
        if not pth.startswith("validation::"):
            continue
        for b in f["body"]["blocks"]:
            if b["cleanup"]:
                continue
            for s in b["stmts"]:
                if s["k"] == "assign" and s["rv"]["k"] == "aggregate":
                    if s["rv"].get("adt") == "diagnostic::Diagnostic":
                        sites["%s:%d" % (s["span"]["file"], s["span"]["line"])] = pth
                    elif s["rv"].get("adt") == "diagnostic::RelatedInfo":
                        nrel_sites += 1
    rep.floor("G3", "Diagnostic aggregates in validation", len(sites), 20)
    rep.floor("G3", "RelatedInfo aggregates in validation", nrel_sites, 7)
    observed = {}
    rels = []

    def take(paths):
        for p in paths:
            for e in p.effects:
                if e[0] == "push" and base_label(e[1]) == "diagnostics":
                    d = diag_of(e)
                    observed.setdefault(d["where"], []).append(d["range"])
                    if d.get("built_at"):
                        observed.setdefault(d["built_at"], []).append(d["range"])   # built in a helper, pushed by the caller
                    for r in d["related"] or []:
                        rels.append((d["where"], r))

    cats = categories(facts)
    dirs = directions(facts)
    # resolve_type
    take(c05.resolve_type_paths(facts, enum_val(facts, TYPEKIND, "Unresolved")))
    # imports / declarations: folds and loops
    for owner, caps, elem in (("validation::check_imports", {"diagnostics": Opaque("diagnostics")}, "import"),
                              ("validation::check_declared_parcelables", {"diagnostics": Opaque("diagnostics"), "imports": sym_ref("imports")}, "declared_parcelable")):
        for c in facts.closures_of(owner):
            if facts.fns[c]["body"]["arg_count"] == 3:
                ps, _ = run_closure(facts, c, caps, [Opaque("map"), sym_ref(elem)], opaque_fns=[c06.QN], pure_fns=[c06.QN, "std::iter::Iterator::min_by_key", "std::iter::Iterator::min", "std::iter::Iterator::find"], alias=c06.alias)
                take(ps)

    def on_next(src):
        if "FIRST_OCCURRENCES" in fmt_label(src):
            return AdtVal("tuple", None, {0: Cell(Ref(Cell(Opaque("q")))), 1: Cell(Ref(Cell(Ref(Cell(Opaque("entry", "ast::Import"))))))})
        return None

    def on_next2(src):
        if "FIRST_OCCURRENCES" in fmt_label(src):
            return AdtVal("tuple", None, {0: Cell(Opaque("q")), 1: Cell(Ref(Cell(Opaque("entry", "ast::Import"))))})
        return None
    pf = ["std::iter::Iterator::fold", "<std::slice::Iter<'a, T> as std::iter::Iterator>::fold", c05.FQN]
    take(Machine(facts, opaque_fns=[c05.FQN], pure_fns=pf, alias=c06.alias, on_next=on_next).run("validation::check_imports", [sym_ref("imports_list"), sym_ref("resolved"), sym_ref("defined"), sym_ref("diagnostics", mut=True)]))
    take(Machine(facts, pure_fns=pf, alias=c06.alias, on_next=on_next2).run("validation::check_declared_parcelables", [sym_ref("decl_list"), sym_ref("imports"), sym_ref("resolved"), sym_ref("diagnostics", mut=True)]))
    # containers
    for cname, kind in cats:
        for fnp in ("validation::check_array_element", "validation::check_list_element", "validation::check_map_key", "validation::check_map_value"):
            take(Machine(facts).run(fnp, [Ref(Cell(type_node(facts, "type_", kind))), sym_ref("diagnostics", mut=True)]))
        for ar in (0, 1, 2):
            if (cname == "Array" and ar != 1) or (cname == "List" and ar == 2) or (cname == "Map" and ar == 1):
                continue
            kids = [Cell(type_node(facts, "child%d" % i, Opaque("child%d.kind" % i, TYPEKIND))) for i in range(ar)]
            t = type_node(facts, "type_", kind, generic_types=VecVal(kids))
            take(Machine(facts, opaque_fns=["validation::check_array_element", "validation::check_list_element", "validation::check_map_key", "validation::check_map_value"]).run(
                "validation::check_container", [Ref(Cell(t)), sym_ref("diagnostics", mut=True)]))
        # check_method
        for ow in (False, True):
            meth = struct_val(facts, "ast::Method", "method", {"oneway": Const("bool", ow), "return_type": type_node(facts, "method.return_type", kind)})
            take(Machine(facts, opaque_fns=["validation::check_method_args"]).run("validation::check_method", [Ref(Cell(meth)), sym_ref("diagnostics", mut=True)]))
            for dn, dv in dirs:
                arg = struct_val(facts, "ast::Arg", "arg", {"arg_type": type_node(facts, "arg.arg_type", kind), "direction": dv})
                m2 = struct_val(facts, "ast::Method", "method", {"oneway": Const("bool", ow)})
                take(Machine(facts, on_next=lambda il, arg=arg: Ref(Cell(arg)), loop_once=True).run("validation::check_method_args", [Ref(Cell(m2)), sym_ref("diagnostics", mut=True)]))
    # oneway set-up
    for mow in (False, True):
        meth = struct_val(facts, "ast::Method", "method", {"oneway": Const("bool", mow)})
        elc = Cell(enum_val(facts, "ast::InterfaceElement", "Method", {0: meth}))
        itf = struct_val(facts, "ast::Interface", "interface", {"oneway": Const("bool", True)})
        take(Machine(facts, on_next=lambda il, elc=elc: Ref(elc, True)).run("validation::set_up_oneway_interface", [Ref(Cell(itf), True), sym_ref("diagnostics", mut=True)]))
    # check_methods closure
    import itertools
    clos = facts.closures_of("validation::check_methods")
    for W, O, C in itertools.product((0, 1), repeat=3):
        some = lambda n: AdtVal("std::option::Option", 1, {0: Cell(Ref(Cell(Opaque(n, "ast::Method"))))}, None, "Some")
        none = AdtVal("std::option::Option", 0, {}, None, "None")
        code = AdtVal("std::option::Option", 1, {0: Cell(Opaque("code", "u32"))}, None, "Some") if C else AdtVal("std::option::Option", 0, {}, None, "None")
        meth = struct_val(facts, "ast::Method", "method", {"transact_code": code})
        vals = {"diagnostics": Opaque("diagnostics"), "method_names": Opaque("method_names"), "first_method_with_id": some("first_with") if W else none,
                "first_method_without_id": some("first_without") if O else none, "method_ids": Opaque("method_ids")}
        ps, _ = run_closure(facts, clos[0], vals, [Ref(Cell(meth))], opaque_fns=["validation::check_method"])
        take(ps)
    missing = sorted(k for k in sites if k not in observed)
    rep.check(not missing, "G3", "C04|G3|coverage", None,
              "every Diagnostic built in validation must be observed by a tabulation (so that its range is decided); not observed: %r" % ([(m, sites[m]) for m in missing],),
              sample={"diagnostic sites": len(sites), "observed": len(observed)})
    for w, ranges in sorted(observed.items()):
        bad = sorted(set(fmt_label(r) for r in ranges if not node_range(r)))
        rep.check(not bad, "G3", "C04|G3|%s|range" % sites.get(w, w), w,
                  "a validation diagnostic must sit on a range field of the AST node it names (a clone of symbol_range / full_range / transact_code_range / oneway_range / the direction's range, or the empty range at the type's start); found %r" % (bad,),
                  sample={"site": w, "ranges": sorted(set(fmt_label(r) for r in ranges))})
    badr = sorted(set("%s: %s" % (w, fmt_label(r)) for w, r in rels if not node_range(r)))
    rep.check(not badr and len(set(w for w, _ in rels)) >= 7, "G3", "C04|G3|related", None, "related-information ranges must be range fields of AST nodes as well; offending: %r (related sites observed: %d)" % (badr, len(set(w for w, _ in rels))),
              sample={"related ranges": sorted(set(fmt_label(r) for _, r in rels))[:8]})
