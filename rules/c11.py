"""C11 - validation output is deterministic and ordered by position."""
import re
from absint import *
from domain import *
from closures import run_closure
from mirlib import callee_info
import cfg
import dataflow

ENTRIES = ["parser::Parser::<ID>::validate", "parser::Parser::<ID>::add_content", "parser::Parser::<ID>::remove_content", "parser::Parser::<ID>::new"]
HASH_ITER = re.compile(r"std::collections::hash_(map|set)::(Iter|IntoIter|IterMut|Values|ValuesMut|Keys|IntoKeys|IntoValues|Drain|Union|Intersection|Difference|SymmetricDifference|ExtractIf)\b")
ADAPTORS = {"map", "filter", "filter_map", "flat_map", "flatten", "into_iter", "by_ref", "peekable", "enumerate", "chain", "zip", "skip", "take", "skip_while", "take_while",
            "cloned", "copied", "inspect", "fuse", "rev", "step_by", "map_while", "scan"}
INSENSITIVE = {"any", "all", "count", "sum", "product", "size_hint", "len", "is_empty"}
INTERIOR = re.compile(r"\b(Cell|RefCell|UnsafeCell|Mutex|RwLock|OnceCell|OnceLock|LazyCell|LazyLock|Lazy|Atomic[A-Z][A-Za-z0-9]*)\b")
IMPURE = re.compile(r"^(std|core)::(time|env|fs|net|process|thread|io::stdin|random)|^rand|RandomState::new|DefaultHasher")


def method_of(name):
    return name.rsplit("::", 1)[1]


def closure_of_arg(facts, fn, term, idx):
    """path of the closure passed as argument idx (from its type string `{closure@file:l:c: l:c}` is not resolvable; use the operand's def)"""
    a = term["args"][idx]
    if a["k"] in ("move", "copy"):
        l = a["place"]["l"]
        for b in fn["body"]["blocks"]:
            for s in b["stmts"]:
                if s["k"] == "assign" and s["lhs"]["l"] == l and not s["lhs"]["p"] and s["rv"]["k"] == "aggregate" and s["rv"].get("agg") == "closure":
                    return s["rv"]["closure"]
    return None


def hash_sites(facts, fns):
    sites = []
    for p in sorted(fns):
        f = facts.fns[p]
        for b in f["body"]["blocks"]:
            if b["cleanup"]:
                continue
            t = b["term"]
            if t["k"] != "call":
                continue
            ci = callee_info(t)
            if ci is None:
                continue
            args = ci.get("args") or []
            self_ty = args[0] if args else ""
            if not HASH_ITER.search(self_ty) and HASH_ITER.search(ci.get("resolved_impl_self") or ""):
                self_ty = ci["resolved_impl_self"]
            name = ci.get("resolved") or ci["def"]
            if HASH_ITER.search(self_ty) and "Entry" not in self_ty.split("<")[0]:
                sites.append((p, f, t, name, self_ty, args))
    return sites


def run(ctx, rep):
    facts = ctx.mir
    rep.rule("A6", "hash-order taint: every call whose receiver type is (an adaptor chain over) a std HashMap/HashSet iterator, in all functions reachable from Parser::{validate, add_content}, is classified: "
                   "adaptor / order-insensitive / unique choice (min over distinct keys, find with an equality to a loop-invariant) / sequence discharged by the final position sort / collect into a map with provably distinct keys; anything else is reported")
    rep.rule("S", "the per-file closure ends, on every path that has a tree, with a stable sort of the diagnostics whose key is the whole start position")
    rep.rule("G", "A7: no static / thread_local / interior mutability in the crate's types, no clock / environment / file / random source reachable from validation")
    reach, g = dataflow.reachable_fns(facts, ENTRIES)
    rep.analysed["functions reachable from the entry points"] = len(reach)
    sites = hash_sites(facts, reach)
    consumers = 0
    seq_sites = []
    ordinal = {}
    for p, f, t, name, self_ty, args in sites:
        meth = method_of(name)
        where = cfg.where(f, t)
        ordinal[(p, meth)] = ordinal.get((p, meth), 0) + 1
        key = "C11|A6|%s|%s" % (p, meth) + ("#%d" % ordinal[(p, meth)] if ordinal[(p, meth)] > 1 else "")
        chain = self_ty
        if meth in ADAPTORS:
            rep.ok("A6", "adaptor", {"site": where, "call": meth, "receiver": chain[:100], "class": "adaptor (classified at its consumer)"})
            continue
        consumers += 1
        if meth in INSENSITIVE:
            rep.ok("A6", key, {"site": where, "call": meth, "class": "order-insensitive"})
            continue
        only_filters = re.sub(r"std::iter::Filter<|std::iter::Peekable<|std::iter::Fuse<", "", chain).startswith("std::collections::hash_") or chain.startswith("&mut std::collections::hash_")
        if meth in ("min", "max"):
            elem_unique = "hash_set::" in chain or "hash_map::Keys" in chain or "hash_map::IntoKeys" in chain
            rep.check(only_filters and elem_unique, "A6", key, where,
                      "`%s` over %s is a deterministic choice only when the elements are the distinct members of a set (or keys of a map) reached through filters alone" % (meth, chain[:120]),
                      sample={"site": where, "call": meth, "class": "unique choice: minimum/maximum of distinct, totally ordered elements"})
            continue
        if meth in ("min_by_key", "max_by_key"):
            # key closure must return the map key (first component of the entry)
            clo = closure_of_arg(facts, f, t, 1)
            ok = False
            det = None
            if clo and only_filters and "hash_map::Iter" in chain:
                cp = Machine(facts).run(clo, [Ref(Cell(AdtVal("closure:" + clo, None, {})), True), Ref(Cell(AdtVal("tuple", None, {0: Cell(Ref(Cell(Opaque("KEY")))), 1: Cell(Ref(Cell(Opaque("VALUE"))))})))])
                det = [fmt_label(lab(x.ret)) for x in cp]
                ok = len(cp) == 1 and "KEY" in det[0] and "VALUE" not in det[0] and not cp[0].effects
            rep.check(ok, "A6", key, where, "`%s` over map entries is a deterministic choice only when the key function is injective on entries - accepted idiom: it returns (a view of) the map key; extracted %r" % (meth, det),
                      sample={"site": where, "call": meth, "class": "unique choice: minimum by the (distinct) map key", "key_fn": det})
            continue
        if meth in ("find", "position", "find_map"):
            clo = closure_of_arg(facts, f, t, 1)
            ok = False
            det = []
            if clo and "hash_set::" in chain:
                cf = facts.fns[clo]
                caps = dict((c["name"].lstrip("*"), Opaque("INV:" + c["name"].lstrip("*"))) for c in cf["captures"])
                try:
                    cp, _ = run_closure(facts, clo, caps, [Ref(Cell(Ref(Cell(Opaque("ELEM")))))])
                    ok = True
                    for x in cp:
                        r = deref_val(x.ret)
                        truthy = isinstance(r, Const) and r.v is True or not isinstance(r, Const)
                        if truthy:
                            eqs = [l for l, v in x.conds if isinstance(l, tuple) and l[0] == "eq" and v is True and "ELEM" in fmt_label(l) and "INV:" in fmt_label(l)]
                            if isinstance(r, Opaque) and isinstance(r.label, tuple) and r.label[0] == "eq" and "ELEM" in fmt_label(r.label) and "INV:" in fmt_label(r.label):
                                eqs.append(r.label)
                            det.append([fmt_label(e) for e in eqs])
                            if not eqs:
                                ok = False
                except (Unsupported, KeyError) as e:
                    det = str(e)
                    ok = False
            rep.check(ok, "A6", key, where, "`%s` over a hash set picks the first match in hash order: deterministic only when the predicate forces uniqueness (an equality between the element and a loop-invariant value on every accepting path); extracted equalities %r" % (meth, det),
                      sample={"site": where, "call": meth, "class": "unique choice: predicate implies element == invariant", "equalities": det})
            continue
        if meth == "next":
            seq_sites.append((p, f, t, where))
            continue
        if meth == "collect":
            target = args[1] if len(args) > 1 else ""
            if target.startswith("std::collections::HashMap") or target.startswith("std::collections::HashSet"):
                ok, why = distinct_keys(facts, p, f, t, chain)
                rep.check(ok, "A6", "C11|A6|%s|collect-into-map" % p, where,
                          "collecting hash-ordered entries into a map keeps a deterministic result only if the produced keys are pairwise distinct (otherwise the last writer in hash order wins): %s" % why,
                          witness="two files that both define `p.Foo` with different kinds: the kind registered for `p.Foo` depends on hash order" if not ok else None,
                          sample={"site": where, "call": "collect", "class": "keys provably distinct: " + why})
            else:
                rep.fail("A6", key, where, "hash-ordered elements are collected into the sequence %s" % target)
            continue
        rep.fail("A6", key, where, "unclassified consumer `%s` of a hash-ordered iteration (%s)" % (meth, chain[:120]))
    rep.floor("A6", "consumers of hash-ordered iteration", consumers, 7)

    # ---- S: the final sort
    clo = None
    for c in facts.closures_of("validation::validate"):
        if cfg.call_sites(facts.fns[c]["body"], lambda x: x == "validation::check_methods"):
            clo = facts.fns[c]
    sort_ok = False
    if clo is None:
        rep.fail("S", "C11|S|anchor-missing|validate-closure", None, "per-file closure of validation::validate not found")
    else:
        body = clo["body"]
        sorts = cfg.call_sites(body, lambda x: "::sort" in x and "slice" in x)
        unstable = [s for s in sorts if "unstable" in callee_name(s[1])]
        for b, t in unstable:
            rep.fail("S", "C11|S|unstable-sort", cfg.where(clo, t), "an unstable sort reorders diagnostics that share a position")
        stable = [s for s in sorts if "unstable" not in callee_name(s[1])]
        if len(stable) != 1:
            rep.fail("S", "C11|S|sort-count", cfg.where(clo), "expected exactly one stable sort of the diagnostics in the per-file closure, found %d" % len(stable))
        else:
            sb, st_ = stable[0]
            pd = cfg.post_dominators(body)
            dom = cfg.dominators(body)
            # every call that may push (takes &mut diagnostics) must come before the sort; the sort must post-dominate check_methods
            last = cfg.call_sites(body, lambda x: x == "validation::check_methods")[0][0]
            after = [b for b, t in cfg.call_sites(body, lambda x: x.startswith("validation::")) if sb in dom.get(b, set()) and b != sb]
            rep.check(sb in pd.get(last, set()) and not after, "S", "C11|S|sort-last", cfg.where(clo, st_),
                      "the sort must run after the last check on every path with a tree and nothing may add diagnostics after it (validation calls after the sort: %r)" % (after,))
            kc = closure_of_arg(facts, clo, st_, 1)
            det = None
            okk = False
            kc_arity = facts.fns[kc]["body"]["arg_count"] if kc else 0
            if kc and kc_arity == 3:
                # sort_by(|a, b| a.KEY.cmp(&b.KEY)): a comparator; the key is read off both sides
                da, db = struct_val(facts, DIAG, "a"), struct_val(facts, DIAG, "b")
                cp = Machine(facts).run(kc, [Ref(Cell(AdtVal("closure:" + kc, None, {})), True), Ref(Cell(da)), Ref(Cell(db))])
                det = [fmt_label(lab(x.ret)) for x in cp]
                if len(cp) == 1 and not [e for e in cp[0].effects if not (e[0] == "call" and e[1].rsplit("::", 1)[1] == "cmp")]:
                    l = lab(cp[0].ret)
                    if isinstance(l, tuple) and l[0] == "call" and l[1].rsplit("::", 1)[1] == "cmp" and len(l[2]) == 2:
                        ka, kb = fmt_label(l[2][0]), fmt_label(l[2][1])
                        if ka.startswith("a.") and kb.startswith("b.") and ka[2:] == kb[2:] and ka[2:] in ("range.start.offset", "range.start.line_col", "range.start"):
                            okk = True
                        elif ka.startswith("(adt, tuple") and kb.startswith("(adt, tuple") and ka.replace("a.", "X.") == kb.replace("b.", "X.") and "range.start.line_col.0" in ka and "range.start.line_col.1" in ka:
                            okk = True
            elif kc:
                d = struct_val(facts, DIAG, "d")
                cp = Machine(facts).run(kc, [Ref(Cell(AdtVal("closure:" + kc, None, {})), True), Ref(Cell(d))])
                det = [fmt_label(lab(x.ret)) for x in cp]
                if len(cp) == 1 and not cp[0].effects:
                    r = cp[0].ret
                    l = lab(r)
                    if l == "d.range.start.offset":
                        okk = True
                    elif isinstance(r, AdtVal) and r.ty == "tuple" and [lab(c.val) for _, c in sorted(r.fields.items())] == ["d.range.start.line_col.0", "d.range.start.line_col.1"]:
                        okk = True
                    elif l == "d.range.start.line_col":
                        okk = True
            sort_ok = okk
            rep.check(okk, "S", "C11|S|sort-key", cfg.where(clo, st_),
                      "the sort key must be the whole start position (the offset, or the (line, column) pair): with a coarser key, diagnostics produced in hash order on the same line keep that order; extracted key %r" % (det,),
                      witness="several unresolved imports on one line: their warnings come out in hash order" if not okk else None,
                      sample={"sort": callee_name(st_), "key": det})
            # the sorted vector is fr.diagnostics, the one handed to every check
    # sequence sites are discharged by the sort, provided their loop bodies only push diagnostics (C06 L) on distinct ranges
    CLASSIFIERS = ("validation::check_imports", "validation::check_declared_parcelables")
    callers_of = {}
    for pth in reach:
        for r in g.get(pth, ()):
            callers_of.setdefault(r, set()).add(pth.split("::{closure")[0])
    for p, f, t, where in seq_sites:
        # the two classification functions, or a private helper split off from them (called from nowhere else)
        allowed = p in CLASSIFIERS or (p.startswith("validation::") and bool(callers_of.get(p)) and callers_of[p] <= set(CLASSIFIERS))
        if not allowed:
            # a loop whose only effect is inserting into a fresh map is `collect` into a map written by hand: same rule, same key
            cls = loop_collects_into_map(facts, p)
            if cls is not None:
                okd, why = cls
                rep.check(okd, "A6", "C11|A6|%s|collect-into-map" % p, where,
                          "collecting hash-ordered entries into a map keeps a deterministic result only if the produced keys are pairwise distinct (otherwise the last writer in hash order wins): %s" % why,
                          witness="two files that both define `p.Foo` with different kinds: the kind registered for `p.Foo` depends on hash order" if not okd else None,
                          sample={"site": where, "call": "for + insert", "class": "keys provably distinct: " + why})
                continue
        rep.check(allowed and sort_ok, "A6", "C11|A6|%s|for-loop" % p, where,
                  "a `for` loop over a hash container emits its effects in hash order: accepted only for the two classification loops whose effects are diagnostics on distinct entries (C06 rule L), re-ordered by the final position sort (rule S: %s)" % ("holds" if sort_ok else "VIOLATED"),
                  sample={"site": where, "class": "sequence discharged by the stable sort on start position"})

    # ---- G: global state / impurity
    rep.check(not facts.statics, "G", "C11|G|statics", None, "the crate must not define static items: %r" % (facts.statics,))
    src = ctx.src
    bad = [s for s in src["statics"] if s["kind"] in ("static", "static mut", "thread_local", "lazy_static") and not s["file"].startswith("build")]
    rep.check(not bad, "G", "C11|G|statics-src", None, "static / thread_local / lazy_static items in the sources: %r" % (bad,))
    n = 0
    for path, adt in sorted(facts.adts.items()):
        if "::_::" in path:
            continue
        for v in adt["variants"]:
            for fl in v["fields"]:
                n += 1
                if INTERIOR.search(fl["ty"]):
                    rep.fail("G", "C11|G|interior|%s.%s" % (path, fl["name"]), adt["span"]["file"], "field %s.%s has interior mutability (%s): results could depend on history or thread" % (path, fl["name"], fl["ty"]))
    rep.floor("G", "ADT fields scanned for interior mutability", n, 100)
    ext = dataflow.external_callees(facts, reach)
    imp = sorted(nm for nm in ext if IMPURE.search(nm))
    rep.check(not imp, "G", "C11|G|impure-callees", None, "functions reachable from validation / add_content call clock, environment, file, thread or random sources: %r" % (imp,),
              sample={"external callees scanned": len(ext)})
    # ---- S3: tree-less files keep emission order
    rep.rule("S3", "files without a tree are not sorted: their list is the parser's emission order, ascending only if every recovery diagnostic sits on the token lalrpop blames (tokens are consumed left to right, the fatal error comes last): "
                   "the recovery actions forward lalrpop's ErrorRecovery untouched (wiring), from_error_recovery keeps the converted range (S4), from_parse_error reports on the token's own boundaries (G1), add_content appends the fatal error after them (append-only)")
    import c03
    import c04
    import common_g
    n, _ = common_g.emit(ctx, rep, "C11", {"recovery"}, "S3")
    rep.floor("S3", "error-recovery productions", n, 4)
    c03.recovery_keeps_range(ctx, rep, "C11")
    c04.parse_error_ranges(ctx, rep, "C11")
    c03.append_only_rule(ctx, rep, "C11")
    import c12
    c12.add_content_rule(ctx, rep, "C11", "S3")   # the fatal error is appended AFTER the diagnostics the grammar already recovered
    import pipeline
    pipeline.rule(ctx, rep, "C11", [])
    rep.assumptions += ["TB-1 rustc MIR", "TB-3 std: HashMap::insert overwrites, min is unique on distinct totally ordered elements, sort_by_key is stable",
                        "TB-2 order of syntax diagnostics of tree-less files is lalrpop's emission order (NOT decided)",
                        "Annotation.key_values is compared with HashMap's order-insensitive ==; serialised text is outside this property"]
    rep.not_decided.append("that lalrpop emits recovery errors left to right (TB-2); rule S3 decides only that each one is reported where lalrpop puts it")


def loop_collects_into_map(facts, p):
    """(keys_distinct, why) when the loop(s) of function p only insert into a map created in p; None otherwise"""
    f = facts.fns[p]
    try:
        args = [sym_ref("arg%d" % i) for i in range(len(f.get("inputs") or []))]
        elem = AdtVal("tuple", None, {0: Cell(Opaque("ENTRY_KEY")), 1: Cell(Opaque("ENTRY_VALUE"))})
        paths = Machine(facts, loop_once=True, on_next=lambda il: (elem if "::values(" not in fmt_label(il) and "::keys(" not in fmt_label(il) else Opaque("ENTRY_VALUE" if "::values(" in fmt_label(il) else "ENTRY_KEY"))).run(p, args)
    except (Unsupported, KeyError):
        return None
    keys = set()
    for path in paths:
        for e in path.effects:
            if e[0] in ("next", "next_end", "iterate", "iterate_end"):
                continue
            if e[0] == "call":
                nm = e[1]
                if ("HashMap" in nm or "HashSet" in nm) and nm.endswith("::insert"):
                    base = fmt_label(e[2][0])
                    if "::new(" in base or "::with_capacity(" in base or base.endswith("::new()"):
                        keys.add(fmt_label(e[2][1]))
                        continue
                    return None
                if nm.endswith(">::new") or nm.endswith(">::with_capacity") or nm.endswith("::values") or nm.endswith("::iter") or nm.endswith("::keys") or nm.endswith("::into_iter") or nm.endswith("::len"):
                    continue
                if facts.fns.get(nm) is None and not nm.startswith("std::") and not nm.startswith("<"):
                    return None
                continue   # pure local / std getters feeding the key or the value
            return None
    if not keys:
        return None
    distinct = keys == set(["ENTRY_KEY"])
    return distinct, ("the inserted key is the iterated entry's own key" if distinct else "inserted key(s) %s are computed from the entry's value, not its (unique) key" % sorted(keys))


def callee_name(t):
    ci = callee_info(t)
    return (ci.get("resolved") or ci["def"]) if ci else "?"


def distinct_keys(facts, p, f, t, chain):
    """keys produced by `<hash iteration>.map(closure).collect::<HashMap>()` are distinct when the source is the
    entry iterator of a map and the closure returns the entry's own key untouched"""
    m = re.match(r"std::iter::Map<std::collections::hash_map::(IntoIter|Iter)<", chain)
    if not m:
        return False, "source is %s: the new keys are computed from the values, nothing makes them distinct" % chain[:90]
    # find the closure given to `map`
    for b, tt in cfg.call_sites(f["body"], lambda x: x == "std::iter::Iterator::map"):
        clo = closure_of_arg(facts, f, tt, 1)
        if not clo:
            continue
        cf = facts.fns[clo]
        caps = dict((c["name"].lstrip("*"), Opaque("cap:" + c["name"].lstrip("*"))) for c in cf["captures"])
        entry = AdtVal("tuple", None, {0: Cell(Opaque("ENTRY_KEY")), 1: Cell(Opaque("ENTRY_VALUE", "parser::ParseFileResult<ID>"))})
        try:
            cp, _ = run_closure(facts, clo, caps, [entry], opaque_fns=["validation::resolve_types", "validation::check_imports", "validation::check_declared_parcelables",
                                                                          "validation::check_containers", "validation::set_up_oneway_interface", "validation::check_methods"])
        except (Unsupported, KeyError) as e:
            return False, "closure not analysable: %s" % e
        ok = all(isinstance(x.ret, AdtVal) and x.ret.ty == "tuple" and lab(x.ret.fields[0].val) == "ENTRY_KEY" for x in cp) and len(cp) >= 1
        return ok, ("every path of the map closure returns the entry's own key as new key (%d paths)" % len(cp)) if ok else "the map closure does not return the entry's key unchanged"
    return False, "no map closure found"
