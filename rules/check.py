#!/usr/bin/env python3
"""./check <ID> [--tier quick|thorough] : decide one property on /repo's current working tree."""
import argparse, importlib, json, os, sys, time, traceback
sys.path.insert(0, os.path.dirname(os.path.abspath(__file__)))
import core
from mirlib import Facts
import absint


class Ctx(object):
    def __init__(self, facts_dir, tier):
        self.dir = facts_dir
        self.tier = tier
        self.repo = core.repo_dir()
        self._mir = None
        self._gram = None
        self._src = None

    @property
    def mir(self):
        if self._mir is None:
            self._mir = Facts(os.path.join(self.dir, "mir.json"))
            absint.register_adts(self._mir)
            import domain
            domain.register_diag_fields(self._mir)
        return self._mir

    @property
    def gram(self):
        if self._gram is None:
            import gram_aliases
            text, self.gram_aliases = gram_aliases.canonicalize(open(os.path.join(self.dir, "gram.json")).read())   # renamed nonterminals -> the names the spec uses
            self._gram = json.loads(text)
        return self._gram

    @property
    def src(self):
        if self._src is None:
            self._src = json.load(open(os.path.join(self.dir, "src.json")))
        return self._src


def main():
    ap = argparse.ArgumentParser()
    ap.add_argument("prop")
    ap.add_argument("--tier", default=os.environ.get("VERIF_TIER", "quick"))
    ap.add_argument("--explain")
    a = ap.parse_args()
    tier = a.tier if a.tier in ("quick", "thorough") else "quick"
    t0 = time.time()
    prop = a.prop.upper()
    rep = core.Report(prop)
    try:
        # thorough: bypass the fact cache (re-extract from the working tree) unless told otherwise
        d = core.ensure_facts(force=(tier == "thorough" and os.environ.get("VERIF_NO_REEXTRACT") is None))
        ctx = Ctx(d, tier)
        mod = importlib.import_module(prop.lower())
        try:
            mod.run(ctx, rep)
        finally:
            # the plumbing obligations are independent of the property's own rules: evaluate them even when those aborted (fail closed),
            # so that the report names the plumbing defect and not only "anchor missing"
            import eqrule
            if prop in eqrule.EQ_PROPS:
                try:
                    eqrule.rule(ctx, rep, prop)
                except Exception as e:
                    rep.fail("EQ", "%s|EQ|not-evaluable" % prop, None, "rule EQ could not be evaluated (fail closed): %s: %s" % (type(e).__name__, str(e)[:200]))
            if prop != "C12":
                import c12
                try:
                    c12.plumbing(ctx, rep, prop)
                except Exception as e:
                    rep.fail("PB", "%s|PB|not-evaluable" % prop, None, "the plumbing rules (C12 H1-H7) could not be evaluated (fail closed): %s: %s" % (type(e).__name__, str(e)[:200]))
        explanation = getattr(mod, "EXPLANATION", mod.__doc__ or "")
    except core.ExtractionError as e:
        rep.fail("extract", "%s|extraction-failed" % prop, None, "fact extraction failed (fail closed): %s" % e)
        explanation = "fact extraction failed"
    except KeyError as e:
        rep.fail("anchor", "%s|anchor-missing|%s" % (prop, str(e).strip("'\"")[:120]), None, "anchor missing (fail closed): %s" % e,
                 detail=traceback.format_exc())
        explanation = "anchor missing"
    except absint.Unsupported as e:
        rep.fail("tabulator", "%s|unsupported|%s" % (prop, str(e)[:80]), None, "the abstract interpreter met a construct it does not model (fail closed): %s" % e,
                 detail=traceback.format_exc())
        explanation = "unsupported construct"
    except Exception as e:  # a crash of the rule layer must never look like a pass
        rep.fail("internal", "%s|internal-error|%s" % (prop, type(e).__name__), None, "the rule layer failed (fail closed): %s: %s" % (type(e).__name__, e), detail=traceback.format_exc())
        explanation = "internal error"
    rc = core.finish(rep, tier, t0, explanation=explanation.strip())
    sys.exit(rc)


if __name__ == "__main__":
    main()
