"""Renamed grammar nonterminals.

spec/wiring.json and the grammar rules name nonterminals.  A nonterminal (or macro) can be renamed without changing the
language or the tree; gram.json is therefore canonicalised when it is loaded: a nonterminal of spec/grammar_names.json that
no longer exists is identified with a nonterminal the spec does not know when both have the same skeleton (alternatives,
terminals in place, other nonterminals abstracted) - ties are broken by definition order.  No match: nothing is rewritten
and the rules fail closed on the missing name as before."""
import json
import os
import re

HERE = os.path.dirname(os.path.abspath(__file__))
SPEC = os.path.join(os.path.dirname(HERE), "spec", "grammar_names.json")


def skeletons(g):
    nts = g["parse_tree"]["nonterminals"]
    names = [n["name"] for n in nts]
    pat = re.compile(r"(?<![A-Za-z0-9_\"@])(%s)(?![A-Za-z0-9_\"])" % "|".join(sorted((re.escape(n) for n in names), key=len, reverse=True)))
    out = {}
    for i, n in enumerate(nts):
        alts = []
        for a in n["alternatives"]:
            syms = []
            for s in a["symbols"]:
                c = s.get("canonical", "")
                c = re.sub(r"(?<![A-Za-z0-9_])[a-z_][A-Za-z0-9_]*:", "", c)   # bindings
                c = pat.sub("#", c)
                syms.append(c)
            alts.append(syms)
        out[n["name"]] = {"skeleton": alts, "index": i, "params": len(n.get("type_parameters") or n.get("params") or [])}
    return out


def find_aliases(g, spec):
    cur = skeletons(g)
    missing = sorted((m for m in spec if m not in cur), key=lambda m: spec[m]["index"])
    extra = sorted((e for e in cur if e not in spec), key=lambda e: cur[e]["index"])
    alias = {}
    for m in missing:
        cands = [e for e in extra if e not in alias and cur[e]["skeleton"] == spec[m]["skeleton"]]
        if cands:
            alias[cands[0]] = m    # definition order breaks ties (both lists are in definition order)
    return alias


def canonicalize(text):
    if not os.path.exists(SPEC):
        return text, {}
    spec = json.load(open(SPEC))
    spec = dict((k, v) for k, v in spec.items() if not k.startswith("_"))
    g = json.loads(text)
    alias = find_aliases(g, spec)
    for new, old in sorted(alias.items(), key=lambda x: -len(x[0])):
        text = re.sub(r"(?<![A-Za-z0-9_])" + re.escape(new) + r"(?![A-Za-z0-9_])", old, text)
    # an `#[inline]` nonterminal the spec does not know, with one alternative and the default action, is the anonymous
    # group it names: `PathSegment: .. = <IDENT> ".";` stands for `(<IDENT> ".")` wherever it is used
    for n in g["parse_tree"]["nonterminals"]:
        nm = n["name"]
        if nm in spec or nm in alias or n.get("macro_params"):
            continue
        if not any(a.get("id") == "inline" for a in n.get("annotations") or []):
            continue
        alts = n["alternatives"]
        if len(alts) != 1 or alts[0].get("action_kind") != "default":
            continue
        group = "(" + " ".join(sy.get("canonical", "") for sy in alts[0]["symbols"]) + ")"
        jgroup = json.dumps(group)[1:-1]   # escaped as inside a JSON string
        text = re.sub(r"(?<![A-Za-z0-9_])" + re.escape(nm) + r"(?![A-Za-z0-9_])", lambda m: jgroup, text)
        alias[nm] = group
    groups = set(v for k, v in alias.items() if v.startswith("("))
    if groups:
        g2 = json.loads(text)
        g2["parse_tree"]["nonterminals"] = [n for n in g2["parse_tree"]["nonterminals"] if n["name"] not in groups]   # an anonymous group has no definition of its own
        for grp in groups:
            g2["lowered"]["nonterminal_origin"].setdefault(grp, {"kind": "expr", "text": grp})
        text = json.dumps(g2)
    return text, alias


if __name__ == "__main__":
    import sys
    g = json.load(open(sys.argv[1]))
    out = {"_comment": "skeleton of every nonterminal / macro of the grammar on the pinned tree (rules/gram_aliases.py: recognising a renamed nonterminal)"}
    out.update(skeletons(g))
    json.dump(out, open(SPEC, "w"), indent=1, sort_keys=True)
    print(len(out) - 1, "nonterminals")
