"""C06 - imports and forward declarations get exactly the diagnostics they deserve."""
from absint import *
from domain import *
from closures import run_closure
import cfg
import walkers
import c05

QN = "ast::Import::get_qualified_name"
FQN = c05.FQN


def alias(l):
    if isinstance(l, tuple) and l and l[0] == "call":
        name, args = l[1], l[2]
        if name == QN:
            return ("QN", args[0])
        if name.endswith("::fold"):
            return "FIRST_OCCURRENCES"
        if "HashMap" in name and (name.endswith(">::new") or name.endswith(">::with_capacity")):
            return "FIRST_OCCURRENCES"   # the map being built when the first-occurrence pass is a plain loop
        if name.endswith("::entry") and len(args) == 2:
            return ("ENTRY", args[1])
        if name.endswith("OccupiedEntry::<'a, K, V, A>::get"):
            return ("STORED", args[0])
        if name.endswith("::contains_key") and args[0] == "defined":
            return ("DEFINED", args[1])
        if name.endswith("::contains") and args[0] == "resolved":
            return ("USED", args[1])
        if name == FQN:
            return ("BUILTIN", args[0])
        if name.startswith("std::iter::Iterator::") and name.rsplit("::", 1)[1] in ("min", "find", "min_by_key", "min_by", "max", "max_by_key", "find_map", "next", "last"):
            return "CONFLICT"
    return l


def conds_of(p):
    m = {}
    for l, v in p.conds:
        if isinstance(l, tuple) and l[0] == "variant":
            m[l[1]] = v
        elif isinstance(l, tuple) and l[0] in ("is_none", "is_some"):
            m[l[1]] = ("None" if v else "Some") if l[0] == "is_none" else ("Some" if v else "None")
        elif isinstance(l, tuple) and l[0] == "not":
            m[l[1]] = not v
        else:
            m[l] = v
    return m


def dsum(d):
    return (d["kind"], fmt_label(d["range"]), [fmt_label(r) for r in (d["related"] or [])])


def phase1_paths(rep, facts, paths, cf, elem, prop, what, with_conflict, is_closure):
    """the first-occurrence pass, one element: repeat -> one Error pointing back, nothing stored; first -> stored under its qualified name"""
    seen = set()
    for p in paths:
        cm = conds_of(p)
        diags = [dsum(diag_of(e)) for e in p.pushes("diagnostics")]
        callsx = [e for e in p.effects if e[0] == "call"]
        entry = [c for c in callsx if c[1].endswith("::entry")]
        vins = [c for c in callsx if "VacantEntry" in c[1] and c[1].endswith("::insert")]
        ctor = [c for c in callsx if ("HashMap" in c[1] and (c[1].endswith(">::new") or c[1].endswith(">::with_capacity"))) or c[1].endswith("<impl [T]>::len") or c[1].endswith("Vec::<T, A>::len")
                or ("OccupiedEntry" in c[1] and c[1].rsplit("::", 1)[1] in ("key", "get"))]   # read-only getters of the entry
        other = [c for c in callsx if c not in entry + vins + ctor] + [e for e in p.effects if e[0] not in ("call", "push", "iterate", "iterate_end", "next", "next_end")]
        if is_closure:
            ret_ok = p.exit == "return" and base_label(lab(p.ret)) == "map"
            map_ok = True
        else:
            ret_ok = p.exit == "loop_back"
            map_ok = all(base_label(e[2][0]) == "FIRST_OCCURRENCES" for e in entry)   # entries are made on the map that is classified and returned
        conflict = cm.get("CONFLICT")
        ent = [v for k, v in cm.items() if isinstance(k, tuple) and k[0] == "ENTRY"]
        key_ok = all(e[2][1] == ("QN", elem) for e in entry)
        if with_conflict and conflict == "Some":
            case = "conflict"
            exp = [("Error", "%s.symbol_range" % elem, ["CONFLICT.Some.0.1.symbol_range"])]
            ok = diags == exp and not entry and not vins
            # tolerate how the conflicting import is projected out of the matched (key, value) pair
            if not ok and len(diags) == 1 and diags[0][0] == "Error" and diags[0][1] == "%s.symbol_range" % elem and len(diags[0][2]) == 1 \
                    and diags[0][2][0].startswith("CONFLICT.Some.0") and diags[0][2][0].endswith("symbol_range") and not entry and not vins:
                ok = True
        elif ent == ["Occupied"]:
            case = "repeat"
            ok = len(diags) == 1 and diags[0][0] == "Error" and diags[0][1] == "%s.symbol_range" % elem and len(diags[0][2]) == 1 \
                and diags[0][2][0].startswith("(field, (STORED, ") and diags[0][2][0].endswith("symbol_range)") and len(entry) == 1 and not vins and key_ok
            exp = "one Error on the repeated statement pointing back to the stored first occurrence, no insertion"
        elif ent == ["Vacant"]:
            case = "first"
            ok = not diags and len(entry) == 1 and len(vins) == 1 and vins[0][2][1] == elem and key_ok
            exp = "no diagnostic; the element is stored under its qualified name"
        else:
            case = "?"
            ok = False
            exp = "-"
        seen.add(case)
        rep.check(ok and ret_ok and map_ok and not other and not iteration_problems(p), "F", "%s|F|%s|%s" % (prop, what, case), cfg.where(cf),
                  "%s, case %s: expected %s; extracted diagnostics %r, entry calls %d, insertions %d, other effects %r, continues with the same map: %s" % (
                      what, case, exp, diags, len(entry), len(vins), [fmt_label(o[1:3]) for o in other], ret_ok and map_ok),
                  sample={"first-occurrence pass": what, "case": case, "diagnostics": diags})
    need = {"repeat", "first"} | ({"conflict"} if with_conflict else set())
    rep.check(need <= seen, "F", "%s|F|%s|cases" % (prop, what), cfg.where(cf), "%s must distinguish the cases %s, found %s" % (what, sorted(need), sorted(seen)))


def fold_rule(rep, facts, owner, cname, captures, elem, prop, what, with_conflict):
    """-> 'closure' when the first-occurrence pass is a fold closure (checked here), 'loop' when the owner has no such closure (the caller checks the loop)"""
    fn = facts.fn(owner)
    clos = facts.closures_of(owner)
    fold = [c for c in clos if facts.fns[c]["body"]["arg_count"] == 3]
    if not fold:
        return "loop"
    if len(fold) != 1:
        rep.fail("F", "%s|F|%s|anchor-missing|fold-closure" % (prop, owner), cfg.where(fn), "expected one fold closure (map, element) in %s, found %d" % (owner, len(fold)))
        return "closure"
    paths, _ = run_closure(facts, fold[0], captures, [Opaque("map"), sym_ref(elem)], opaque_fns=[QN], pure_fns=[QN, "std::iter::Iterator::min_by_key", "std::iter::Iterator::min",
                           "std::iter::Iterator::find", "std::iter::Iterator::min_by", "std::iter::Iterator::max_by_key"], alias=alias)
    phase1_paths(rep, facts, paths, facts.fns[fold[0]], elem, prop, what, with_conflict, True)
    return "closure"


def run(ctx, rep):
    facts = ctx.mir
    rep.rule("A", "the 'used' set: A5 on walk_types_mut (any depth) + A3 table of resolve_types' callback over the 17 categories (ResolvedItem(k,_) inserts k, a built-in inserts its qualified name)")
    rep.rule("F", "A3 on the fold closures of check_imports / check_declared_parcelables: repeat -> one Error pointing back, no insertion; first occurrence -> stored; (declarations) conflict with an import -> one Error, not stored")
    rep.rule("L", "A3 on the classification loops: import: not defined and not built-in -> one Warning(unresolved); else not used -> one Warning(unused); else nothing; "
                  "declaration: not used -> one Warning on the name; used -> one Warning on the whole statement; exactly one per entry")
    # ---- A
    walkers.check_type_walker(facts, rep, "C06", "traverse::walk_types_mut", "walk_types_mut", True)
    clos = facts.closures_of("validation::resolve_types")
    rtf = facts.fn("validation::resolve_types")
    cats = categories(facts)
    if len(clos) == 1:
        for cname, kind in cats:
            t = type_node(facts, "node", kind)
            vals = {"imports": sym_ref("imports"), "declared_parcelables": sym_ref("declared_parcelables"), "defined": sym_ref("defined"),
                    "diagnostics": Opaque("diagnostics"), "resolved": Opaque("resolved")}
            cp, _ = run_closure(facts, clos[0], vals, [Ref(Cell(t), True)], opaque_fns=[c05.RT], pure_fns=[c05.RT])
            ins = []
            for p in cp:
                ins.append([e[2][1] for e in p.effects if e[0] == "call" and e[1].endswith("::insert") and base_label(e[2][0]) == "resolved"])
            if cname.startswith("Resolved:"):
                ok = ins == [["key"]]
                exp = "insert the resolved key"
            elif cname in facts.variants(ANDROID):
                q = Machine(facts).run("ast::AndroidTypeKind::get_qualified_name", [Ref(Cell(enum_val(facts, ANDROID, cname)))])
                qn = deref_val(q[0].ret)
                ok = len(ins) == 1 and ins[0] == [("const", "str", qn.v)]
                exp = "insert the built-in's qualified name %r" % qn.v
            else:
                ok = len(ins) == 1 and all(isinstance(x, tuple) and x[0] == "const" for x in ins[0])
                exp = "nothing that depends on the node"
            rep.check(ok, "A", "C06|A|used-set|%s" % cname, cfg.where(rtf), "after resolution a %s node must %s; extracted insertions %r" % (cname, exp, [[fmt_label(x) for x in i] for i in ins]),
                      sample={"category": cname, "inserted": [[fmt_label(x) for x in i] for i in ins]})
    else:
        rep.fail("A", "C06|A|anchor-missing|resolve_types-closure", cfg.where(rtf), "resolve_types must have one callback closure")
    rep.rule("E", "the 'used' set relies on name matching: C05 rule E re-evaluated (an import must only be matched exactly or at a dot boundary)")
    c05.matching_rules(ctx, rep, "C06")
    c05.builtin_tables(ctx, rep, "C06")
    rep.rule("B/D", "inherits C05 B/D: what enters the 'used' set is the key resolve_type stores - an import is 'used' exactly when a reference resolves through it")
    c05.resolve_type_rules(ctx, rep, "C06")
    # ---- F
    form_i = fold_rule(rep, facts, "validation::check_imports", None, {"diagnostics": Opaque("diagnostics")}, "import", "C06", "imports", False)
    form_d = fold_rule(rep, facts, "validation::check_declared_parcelables", None, {"diagnostics": Opaque("diagnostics"), "imports": sym_ref("imports")}, "declared_parcelable", "C06", "forward declarations", True)
    PURE1 = [QN, "std::iter::Iterator::min_by_key", "std::iter::Iterator::min", "std::iter::Iterator::find", "std::iter::Iterator::min_by", "std::iter::Iterator::max_by_key"]

    # ---- L imports
    def on_next(src):
        s = fmt_label(src)
        if "FIRST_OCCURRENCES" in s:
            return AdtVal("tuple", None, {0: Cell(Ref(Cell(Opaque("q")))), 1: Cell(Ref(Cell(Ref(Cell(Opaque("entry", "ast::Import"))))))})
        if s in ("imports_list", "(iter, imports_list)"):
            return sym_ref("import")   # the first-occurrence pass written as a plain loop over the statement list
        return None
    fci = facts.fn("validation::check_imports")
    m = Machine(facts, opaque_fns=[FQN, QN], pure_fns=[FQN, "std::iter::Iterator::fold", "<std::slice::Iter<'a, T> as std::iter::Iterator>::fold"] + PURE1, alias=alias, on_next=on_next)
    paths = m.run("validation::check_imports", [sym_ref("imports_list"), sym_ref("resolved"), sym_ref("defined"), sym_ref("diagnostics", mut=True)])
    is_ph1 = lambda p: any(isinstance(l, tuple) and l[0] == "next" and fmt_label(l[1]) in ("imports_list", "(iter, imports_list)", "decl_list", "(iter, decl_list)") and v == "Some" for l, v in p.conds)
    ph1 = [p for p in paths if p.exit == "loop_back" and is_ph1(p)]
    if form_i == "loop":
        rep.floor("F", "first-occurrence loop paths (imports)", len(ph1), 2)
        phase1_paths(rep, facts, ph1, fci, "import", "C06", "imports", False, False)
    else:
        rep.check(not ph1, "F", "C06|F|imports|second-pass", cfg.where(fci), "check_imports has a fold closure AND a loop over the statement list")
    body = [p for p in paths if p.exit == "loop_back" and not is_ph1(p)]
    rest = [p for p in paths if p.exit != "loop_back"]
    rep.check(len(rest) == 1 and rest[0].exit == "return" and not rest[0].pushes() and base_label(lab(rest[0].ret)) == "FIRST_OCCURRENCES", "L", "C06|L|imports|outside-loop", cfg.where(fci),
              "outside the classification loop check_imports emits nothing and returns the map of first occurrences")
    classes = {}
    for p in body:
        cm = conds_of(p)
        p1 = cm.get(("DEFINED", "q"))
        p2 = cm.get(("BUILTIN", "q"))  # 'None' = not a built-in
        p3 = cm.get(("USED", "q"))
        diags = [diag_of(e) for e in p.pushes("diagnostics")]
        other = [e for e in only_pushes(p) if not (e[0] == "call" and (("HashMap" in e[1] and (e[1].endswith(">::new") or e[1].endswith(">::with_capacity"))) or e[1].endswith("<impl [T]>::len") or e[1].endswith("Vec::<T, A>::len")))]
        unresolved = (p1 is False) and (p2 == "None")
        if unresolved:
            exp = "U1"
        elif p3 is False:
            exp = "U2"
        elif p3 is True:
            exp = None
        else:
            exp = "?"
        desc = "defined=%s, built-in=%s, used=%s" % (p1, {"None": False, "Some": True}.get(p2), p3)
        shape = all(d["kind"] == "Warning" and d["range"] == "entry.symbol_range" and not d["related"] for d in diags)
        ok = shape and not other and ((exp is None and not diags) or (exp in ("U1", "U2") and len(diags) == 1))
        if ok and diags:
            classes.setdefault(exp, set()).add((fmt_label(diags[0]["context"]), diags[0]["where"]))
        rep.check(ok, "L", "C06|L|imports|%s" % desc, diags[0]["where"] if diags else cfg.where(fci),
                  "import with %s: expected %s on the import's name; extracted %r, other effects %r" % (
                      desc, {"U1": "one 'unresolved' Warning", "U2": "one 'unused' Warning", None: "nothing", "?": "?"}[exp], [dsum(d) for d in diags], other),
                  sample={"import": desc, "diagnostics": [dsum(d) for d in diags]})
    rep.floor("L", "import classification paths", len(body), 4)
    rep.check(len(classes.get("U1", ())) == 1 and len(classes.get("U2", ())) == 1 and classes.get("U1") != classes.get("U2"), "L", "C06|L|imports|two-classes", cfg.where(fci),
              "'unresolved' and 'unused' must be two distinct diagnostics: %r" % (dict((k, sorted(v)) for k, v in classes.items()),))

    # ---- L declarations
    def on_next2(src):
        s = fmt_label(src)
        if "FIRST_OCCURRENCES" in s:
            return AdtVal("tuple", None, {0: Cell(Opaque("q")), 1: Cell(Ref(Cell(Opaque("entry", "ast::Import"))))})
        if s in ("decl_list", "(iter, decl_list)"):
            return sym_ref("declared_parcelable")
        return None
    fcd = facts.fn("validation::check_declared_parcelables")
    m = Machine(facts, opaque_fns=[QN] if form_d == "loop" else [], pure_fns=["std::iter::Iterator::fold", "<std::slice::Iter<'a, T> as std::iter::Iterator>::fold"] + (PURE1 if form_d == "loop" else []), alias=alias, on_next=on_next2)
    paths = m.run("validation::check_declared_parcelables", [sym_ref("decl_list"), sym_ref("imports"), sym_ref("resolved"), sym_ref("diagnostics", mut=True)])
    ph1 = [p for p in paths if p.exit == "loop_back" and is_ph1(p)]
    if form_d == "loop":
        rep.floor("F", "first-occurrence loop paths (forward declarations)", len(ph1), 3)
        phase1_paths(rep, facts, ph1, fcd, "declared_parcelable", "C06", "forward declarations", True, False)
    else:
        rep.check(not ph1, "F", "C06|F|declarations|second-pass", cfg.where(fcd), "check_declared_parcelables has a fold closure AND a loop over the statement list")
    body = [p for p in paths if p.exit == "loop_back" and not is_ph1(p)]
    rest = [p for p in paths if p.exit != "loop_back"]
    rep.check(len(rest) == 1 and rest[0].exit == "return" and not rest[0].pushes(), "L", "C06|L|declarations|outside-loop", cfg.where(fcd), "outside the classification loop check_declared_parcelables emits nothing")
    seen = {}
    for p in body:
        cm = conds_of(p)
        used = cm.get(("USED", "q"))
        diags = [diag_of(e) for e in p.pushes("diagnostics")]
        other = only_pushes(p)
        exp_range = "entry.full_range" if used else "entry.symbol_range"
        ok = len(diags) == 1 and diags[0]["kind"] == "Warning" and diags[0]["range"] == exp_range and not diags[0]["related"] and not other and used in (True, False)
        seen[used] = [dsum(d) for d in diags]
        rep.check(ok, "L", "C06|L|declarations|used=%s" % used, diags[0]["where"] if diags else cfg.where(fcd),
                  "forward declaration with used=%s: expected exactly one Warning on %s; extracted %r, other %r" % (used, exp_range, [dsum(d) for d in diags], other),
                  sample={"declaration_used": used, "diagnostics": [dsum(d) for d in diags]})
    rep.floor("L", "declaration classification paths", len(body), 2)
    rep.not_decided += ["the contents of `defined` / `resolved` as string sets (C05 (e))", "text of the messages"]
    import common_g
    rep.floor("IN", "grammar actions feeding this rule", common_g.emit_inputs(ctx, rep, "C06"), 5)
    import loopstate
    loopstate.rule(ctx, rep, "C06", ['validation::check_imports', 'validation::check_declared_parcelables', 'validation::resolve_types'])
    import pipeline
    pipeline.rule(ctx, rep, "C06", ['resolve_types', 'check_imports', 'check_declared_parcelables'])
    rep.rule("LX", "lexical agreement (C03 A10, re-evaluated here): the property quantifies over documents - token classes, their priorities, the keyword rule, comments and white space must be the reference ones (a changed comment / number / keyword regex silently drops or merges members)")
    import lexical
    lexical.rules(ctx, rep, "C06", {"trivia", "classes", "priority", "keywords", "tokenizer"})
    rep.assumptions += ["TB-1 rustc MIR", "TB-4 tabulator", "TB-3 HashMap entry / contains semantics; iteration yields every stored entry once",
                        "the fold and the loops carry no state between elements besides the map and the append-only diagnostics"]
