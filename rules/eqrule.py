"""Rule EQ: the engine's structural reading of `==`, ordering and hashing on the crate's own types.

The tabulator evaluates `a == b` on values of crate types structurally (absint.struct_eq) and treats HashMap / HashSet / sort keys
of crate types as keyed by their structural identity.  That is what `#[derive(PartialEq, Eq, Hash, PartialOrd, Ord)]` generates.  A
hand-written impl can make two different values equal (an ordinal table in which `List` shares `Array`'s ordinal turns every
`kind == TypeKind::Array` of the walkers into "array or list") without touching any function the property's own rules read, so the
extracted tables would describe code that no longer exists.  The MIR facts carry the expansion origin of every body: each
`<T as PartialEq>::eq / ne`, `PartialOrd::partial_cmp`, `Ord::cmp` and `Hash::hash` of a crate type must come from the derive."""
import re
import cfg

TRAITS = ("std::cmp::PartialEq>::eq", "std::cmp::PartialEq>::ne", "std::cmp::PartialOrd>::partial_cmp", "std::cmp::Ord>::cmp", "std::hash::Hash>::hash")
EQ_PROPS = ("C02", "C04", "C05", "C06", "C07", "C08", "C09", "C10", "C11", "C13", "C14", "C15", "C16", "C17")


def rule(ctx, rep, prop):
    facts = ctx.mir
    rep.rule("EQ", "equality, ordering and hashing of the crate's own types are the derived (structural) ones: every `<T as PartialEq>::eq / ne`, `partial_cmp`, `cmp`, `hash` body of a crate type "
                   "originates from a derive expansion - the rules of this property interpret `==`, map keys and sort keys on these types structurally")
    n = 0
    for path, f in sorted(facts.fns.items()):
        m = re.match(r"<([\w:]+)(?:<.*>)? as (.*)$", path)
        if not m or not m.group(2).endswith(TRAITS):
            continue
        ty = m.group(1)
        if ty.startswith(("std::", "core::", "alloc::")):
            continue
        n += 1
        exp = (f.get("span") or {}).get("exp") or []
        derived = any(str(e).startswith("Derive:") for e in exp)
        rep.check(derived, "EQ", "%s|EQ|%s" % (prop, path), cfg.where(f),
                  "%s is hand-written: the rules read `==` / ordering / hashing on %s structurally (as the derive defines it); a hand-written impl can identify values the tables keep apart "
                  "(fail closed: restore the derive, or the impl has to be shown structural)" % (path, ty),
                  sample={"impl": path, "origin": exp})
    rep.floor("EQ", "derived comparison impls of crate types", n, 20)
