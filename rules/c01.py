"""C01 - parsing and validation are total: no panic, no hang, one result per id."""
import re
from absint import *
from domain import *
from mirlib import callee_info
import cfg
import core
import dataflow
import panics
import wiring
import grammar
import lexical

ENTRIES = ["parser::Parser::<ID>::validate", "parser::Parser::<ID>::add_content"]
REVIEWED = {
    # (function, kind, ordinal) -> reason; the reference for later changes (D8)
    ("javadoc::find_content_string", "assert:overflow:Sub", 1): "`pos - 3`: a begin marker `/**` is recognised only after at least `*/`, so at least 5 bytes were scanned (state machine invariant)",
    ("javadoc::find_content_string", "assert:overflow:Sub", 2): "`input.len() - start_pos`: start_pos is a byte count of scanned characters minus 3, never beyond the length (needs J1: byte-typed counter)",
    ("javadoc::find_content_string", "assert:overflow:Sub", 3): "`input.len() - end_pos`: end_pos is a byte count of scanned characters (needs J1)",
    ("javadoc::find_content_string", "index", 1): "`&input[start..end]`: both offsets sit right after / before ASCII markers counted in bytes (needs J1), start <= end because the end marker is met first when scanning backwards",
}


def user_reach(facts, gram):
    reach, g = dataflow.reachable_fns(facts, ENTRIES)
    acts = grammar.user_actions(gram, facts)
    for a in acts:
        r, _ = dataflow.reachable_fns(facts, [a.fn_path])
        reach |= r
    return reach, set(a.fn_path for a in acts), g


def run(ctx, rep):
    facts, gram = ctx.mir, ctx.gram
    rep.rule("A8", "panic-site inventory: every Assert terminator, unwrap / expect, explicit panic, Index::index and documented-to-panic callee in user-written bodies reachable from add_content / validate (grammar actions included) must be discharged by a rule D1-D9 or be a reviewed entry; anything else is reported")
    rep.rule("L1/L2", "every loop is driven by Iterator::next of a std iterator; recursion only in the type walkers, on elements of the parameter's children (structural)")
    rep.rule("K1-K3", "results are keyed and tagged by the caller's id: add_content inserts under `id` a result whose id is `id`; the per-file closure returns its entry's key and keeps the stored id; validate's chain is into_iter().map(..).collect()")
    reach, user_acts, g = user_reach(facts, gram)
    rep.analysed["functions reachable from add_content / validate / grammar actions"] = len(reach)
    canned = lambda p: p.startswith("rules::aidl::__action") and p.split("::{closure")[0] not in user_acts   # closures of user actions are user code
    ss = panics.sites(facts, reach, skip=canned)
    # floors on what cannot disappear while the code still does its job (a global count would make removing a panic site an alarm)
    rep.floor("A8", "potential panic sites in user code", len(ss), 10)
    rep.floor("A8", "line/column lookups (panic on an offset that is not a character boundary)", len([x for x in ss if x["kind"] == "lookup"]), 1)
    rep.floor("A8", "checked arithmetic / slicing sites of the doc-comment scanner", len([x for x in ss if x["fn"].startswith("javadoc::")]), 4)
    obls, stats = wiring.analyse(ctx)

    def all_ok(aspect):
        xs = [o for o in obls if o.aspect == aspect]
        return bool(xs) and all(o.ok for o in xs), [o for o in xs if not o.ok]

    memo = {}

    def once(key, fn):
        if key not in memo:
            memo[key] = fn()
        return memo[key]

    # ---- discharge predicates
    def d1():
        ok, bad = all_ok("offsets")
        # callers of Range::new / Position::new
        callers = set()
        for p in reach:
            for r in g.get(p, ()):
                if r in ("ast::Range::new", "ast::Position::new"):
                    callers.add(p)
        allowed = set(user_acts) | {"ast::Range::new", "diagnostic::Diagnostic::from_parse_error"} | set(p for p in facts.fns if p.startswith("ast::Type::"))
        # closures of user actions are tabulated (inlined) with their action: their Range::new sites are among the D1 obligations
        stray = sorted(c for c in callers - allowed if c.split("::{closure")[0] not in user_acts)
        # from_parse_error forwards the library's own boundaries untouched (C04 G1)
        FPE = "diagnostic::Diagnostic::from_parse_error"
        paths = Machine(facts, opaque_fns=["diagnostic::expected_token_str", "ast::Range::new"], pure_fns=["diagnostic::expected_token_str", "ast::Range::new"]).run(FPE, [sym_ref("lookup"), Opaque("e", "lalrpop_util::ParseError")])
        rl = []
        for p in paths:
            wiring.collect_calls(lab(p.ret), "ast::Range::new", rl)
        g1 = all(isinstance(r[2][1], str) and isinstance(r[2][2], str) and r[2][1].startswith("e.") and r[2][2].startswith("e.") for r in rl) and len(rl) >= 4
        why = []
        if not ok:
            why.append("offset arithmetic in grammar actions: %s" % [o.key for o in bad])
        if stray:
            why.append("Range / Position built by %s" % stray)
        if not g1:
            why.append("from_parse_error does not forward the error's own locations untouched")
        return ok and not stray and g1, "; ".join(why) or "all %d Range::new sites in actions take untouched @L/@R captures; from_parse_error forwards lalrpop's token boundaries" % stats["range_sites"]

    def d2():
        ok, bad = all_ok("doc")
        return ok, "pos is the production's first @L capture at all %d call sites" % stats["doc_sites"] if ok else "get_javadoc is called with something else than a position capture: %s" % [o.key for o in bad]

    def d3_ets():
        bad = []
        for n in range(0, 25):
            v = VecVal([Cell(Opaque("v[%d]" % i)) for i in range(n)])
            ps = Machine(facts).run("diagnostic::expected_token_str", [Ref(Cell(v))])
            for p in ps:
                if p.exit != "return":
                    bad.append((n, p.exit, p.ret))
        return not bad, "no index / overflow failure for vector lengths 0..24 (every arm guarded by the length switch)" if not bad else "panics for %r" % (bad[:3],)

    def d4():
        ok, bad = all_ok("arity")
        # no writer of ast::Type.generic_types / kind besides the resolver's classifications
        writers = []
        for p in sorted(reach):
            f = facts.fns[p]
            if f.get("derived"):
                continue
            for b in f["body"]["blocks"]:
                for s in b["stmts"]:
                    if s["k"] != "assign":
                        continue
                    fl = [e for e in s["lhs"]["p"] if e["k"] == "field" and e.get("of") == "ast::Type" and e.get("name") in ("generic_types", "kind")]
                    if fl:
                        # the resolver may classify a node (kind := AndroidType / ResolvedItem: checked on its paths below)
                        okw = p == "validation::resolve_type" and fl[-1]["name"] == "kind"
                        if not okw:
                            writers.append("%s writes Type.%s" % (p, fl[-1]["name"]))
                    for pl, how in dataflow.places_of_rvalue(s["rv"]):
                        fl = [e for e in pl["p"] if e["k"] == "field" and e.get("of") == "ast::Type" and e.get("name") == "generic_types"]
                        if fl and how == "refmut" and not p.startswith("traverse::walk_types_mut"):
                            writers.append("%s borrows Type.generic_types mutably" % p)
        import c05
        for pth in c05.resolve_type_paths(facts, enum_val(facts, TYPEKIND, "Unresolved")):
            for e in pth.effects:
                if e[0] == "assign" and e[1] == "type_.kind":
                    v = e[2]
                    if not (isinstance(v, tuple) and v[0] == "adt" and v[1] == TYPEKIND and v[2] in ("AndroidType", "ResolvedItem")):
                        writers.append("resolve_type assigns kind %s" % fmt_label(v))
                elif e[0] == "assign":
                    writers.append("resolve_type assigns %s" % fmt_label(e[1]))
        # check_container over the shapes the invariant allows
        badp = []
        for cname, kind in categories(facts):
            for ar in (0, 1, 2):
                if (cname == "Array" and ar != 1) or (cname == "List" and ar == 2) or (cname == "Map" and ar == 1):
                    continue
                if cname not in ("Array", "List", "Map") and ar != 0:
                    continue
                kids = [Cell(type_node(facts, "child%d" % i, Opaque("k%d" % i, TYPEKIND))) for i in range(ar)]
                t = type_node(facts, "type_", kind, generic_types=VecVal(kids))
                ps = Machine(facts, opaque_fns=["validation::check_array_element", "validation::check_list_element", "validation::check_map_key", "validation::check_map_value"]).run(
                    "validation::check_container", [Ref(Cell(t)), sym_ref("diagnostics", mut=True)])
                badp += [(cname, ar, p.exit) for p in ps if p.exit != "return"]
        why = []
        if not ok:
            why.append("a production builds a type node outside the invariant (Array: 1 child, List: 0|1, Map: 0|2, others: 0): %s" % [o.key for o in bad])
        if writers:
            why.append("; ".join(writers))
        if badp:
            why.append("check_container panics for %r" % (badp,))
        return ok and not writers and not badp, "; ".join(why) or "constructor invariant holds for all %d type productions; no other writer of kind / generic_types; check_container is panic-free on every allowed shape" % len([o for o in obls if o.aspect == "arity"])

    def d5():
        rep2 = core.Report("tmp")
        lex = lexical.Lex(ctx)
        import dfa as D
        words = D.enumerate_finite(lex.cur.get("DIRECTION")) if lex.cur.get("DIRECTION") else None
        handled = wiring.analyse_direction_words[0]
        ok = words is not None and handled is not None and sorted(words) == sorted(handled)
        return ok, "the DIRECTION token language %r is exactly the set of words the action handles %r" % (words, handled)

    def d6(site):
        f = facts.fns[site["fn"]]
        body = f["body"]
        blk = body["blocks"][site["bb"]]
        a0 = blk["term"]["args"][0]
        if a0["k"] in ("move", "copy") and not a0["place"]["p"]:
            l = a0["place"]["l"]
            for b in body["blocks"]:
                t = b["term"]
                if t["k"] == "call" and not t["dest"]["p"] and t["dest"]["l"] == l:
                    ci = callee_info(t)
                    nm = (ci.get("resolved") or ci["def"]) if ci else ""
                    if nm.endswith("Regex::new"):
                        lit = const_str_of(body, t["args"][0])
                        if lit is None:
                            return False, "the pattern given to Regex::new is not a string constant"
                        r = lexical.compile_refs([{"kind": "regex", "pattern": lit}])
                        okr = isinstance(r, list) and r and "error" not in r[0]
                        return okr, "constant pattern %r parses under regex-syntax" % lit if okr else "constant pattern %r does not parse: %r" % (lit, r)
        return False, "unwrap of something that is not Regex::new(<literal>)"

    def d7():
        import c09
        r2 = core.Report("C09")
        c09.run(ctx, r2)
        bad = [v.key for v in r2.violations if "|exit" in v.key or "|paths" in v.key]
        return not bad and r2.obligations > 10, "the abstract exploration of check_methods reaches no state in which the marker unwraps fail (%d transitions)" % r2.analysed.get("abstract transitions checked", 0) if not bad else "reachable failing step: %r" % bad

    def d9(site):
        f = facts.fns[site["fn"]]
        import c18
        dims = c18.dimension_analysis(f["body"])
        ok = all(v in ("byte", "char") for v in dims["counters"].values()) and bool(dims["counters"])
        return ok, "counter %r is advanced once per iterated character of an in-memory string (bounded by its length)" % dims["counters"]

    def j1():
        import c18
        dims = c18.dimension_analysis(facts.fn("javadoc::find_content_string")["body"])
        bad = [u[2] for u in dims["uses"] if [d for d in u[3] if d not in ("byte", "const")] or "byte" not in u[3]]
        if bad:
            return False, "values that are not provably byte offsets used as byte offsets: %r" % bad
        # the state-machine invariants the reviewed entries rest on, decided on the extracted transducer (C18 K0)
        import scanner
        try:
            probs = scanner.slice_safety(scanner.extract(facts))
        except Exception as e:
            probs = ["scanner not extractable (fail closed): %s" % e]
        return not probs, "byte/char dimension typing holds and the extracted scanner table keeps start <= end on character boundaries (C18 K0)" if not probs else "; ".join(probs)

    roots = ["validation::check_container", "diagnostic::expected_token_str"] + [c for c in facts.closures_of("validation::check_methods")]

    def dominated_by(fn):
        """a covered root R such that every call path from the entry points to fn passes through R"""
        if fn in roots:
            return None
        for r in roots:
            seen = set()
            st = [e for e in ENTRIES if e != r] + [a for a in user_acts]
            while st:
                n = st.pop()
                if n in seen or n == r:
                    continue
                seen.add(n)
                st.extend(x for x in g.get(n, ()) if x in facts.fns and x not in seen)
            if fn not in seen and fn in reach:
                return r
        return None

    n_disch = 0
    for s in ss:
        fn, kind = s["fn"], s["kind"]
        key = "C01|A8|%s|%s#%d" % (fn, kind, s["ordinal"])
        rule = None
        if fn == "ast::Position::new" and kind == "lookup":
            rule, (ok, why) = "D1", once("d1", d1)
        elif fn == "javadoc::get_javadoc" and kind == "index":
            rule, (ok, why) = "D2", once("d2", d2)
        elif fn == "diagnostic::expected_token_str":
            rule, (ok, why) = "D3", once("d3", d3_ets)
        elif fn == "validation::check_container" and (kind == "index" or kind == "panic"):
            rule, (ok, why) = "D4", once("d4", d4)
        elif fn in user_acts and kind == "panic" and facts.fns[fn]["path"] and any(a.nt == "Direction" for a in grammar.user_actions(gram, facts) if a.fn_path == fn):
            rule, (ok, why) = "D5", once("d5", d5)
        elif kind == "unwrap" and fn == "javadoc::parse_javadoc":
            rule, (ok, why) = "D6", d6(s)
        elif kind == "unwrap" and fn.startswith("validation::check_methods::{closure"):
            rule, (ok, why) = "D7", once("d7", d7)
        elif fn == "javadoc::find_content_string" and kind == "assert:overflow:Add":
            rule, (ok, why) = "D9", d9(s)
        elif (fn, kind, s["ordinal"]) in REVIEWED:
            okj, whyj = once("j1", j1)
            rule, ok, why = "D8", okj, "reviewed: " + REVIEWED[(fn, kind, s["ordinal"])] + ("" if okj else " - BUT " + whyj)
        elif dominated_by(fn) is not None:
            # a helper extracted from a covered function: the tabulation of that function inlines it
            root = dominated_by(fn)
            rule, (ok, why) = {"validation::check_container": ("D4", once("d4", d4)), "diagnostic::expected_token_str": ("D3", once("d3", d3_ets))}.get(root, ("D7", once("d7", d7)))
            why = "only reachable through %s, whose tabulation inlines it: %s" % (root, why)
        else:
            rep.fail("A8", key, s["where"], "potential panic (%s %s) in %s is neither discharged by a rule nor a reviewed entry: an input reaching it would abort parsing / validation" % (kind, s["detail"], fn))
            continue
        n_disch += 1
        rep.check(ok, "A8", key, s["where"], "panic site %s in %s (%s): discharge rule %s %s: %s" % (kind, fn, s["detail"][:60], rule, "holds" if ok else "FAILS", why),
                  sample={"site": "%s %s" % (fn, kind), "rule": rule, "argument": why[:200]})
    rep.analysed["panic sites"] = len(ss)
    # ---- L1 loops
    nloops = 0
    for p in sorted(reach):
        f = facts.fns[p]
        if f.get("derived") or canned(p):
            continue
        body = f["body"]
        for (u, h) in cfg.back_edges(body):
            nloops += 1
            loop = natural_loop(body, u, h)
            drivers = []
            for bidx in loop:
                t = body["blocks"][bidx]["term"]
                if t["k"] == "call":
                    ci = callee_info(t)
                    nm = (ci.get("resolved") or ci["def"]) if ci else ""
                    a0 = (ci.get("args") or [""])[0] if ci else ""
                    slf = ci.get("resolved_impl_self") or a0 if ci else ""
                    if nm.endswith("::next") and re.match(r"(&mut )?(std|core)::", a0 or slf or ""):
                        drivers.append(a0 or slf)
            rep.check(bool(drivers), "L1", "C01|L1|%s|loop@bb%d" % (p, h) if not drivers else "C01|L1|%s" % p, cfg.where(f, body["blocks"][h]["term"]),
                      "the loop in %s must be driven by Iterator::next of a std iterator over in-memory data (finite); drivers found: %r" % (p, drivers), sample={"fn": p, "driver": drivers[:1]})
    rep.floor("L1", "loops in user code", nloops, 3)
    # ---- L2 recursion
    cyc = recursive_fns(reach, g)
    allowed = ("traverse::walk_types::visit_type", "traverse::walk_types_mut::visit_type_mut", "traverse::walk_symbols_with_control_flow::visit_type")
    for p in sorted(cyc):
        if p.startswith("symbol::"):
            continue
        okr = p in allowed or any(p.startswith(a + "::{closure") for a in allowed)
        rep.check(okr, "L2", "C01|L2|%s" % p, cfg.where(facts.fns[p]), "%s is recursive: only the type walkers may recurse, on the elements of the node's generic_types (structural; proved by the walker induction rules of C05/C08/C15)" % p,
                  sample={"fn": p})
    # ---- K
    import c12
    P = c12.P
    pa = Machine(facts, opaque_fns=["diagnostic::Diagnostic::from_parse_error"]).run(P + "add_content", [sym_ref("self", mut=True), Opaque("id"), sym_ref("content")])
    okk = bool(pa)
    for p in pa:
        ins = [e for e in p.effects if e[0] == "call" and e[1].endswith("::insert")]
        okk = okk and len(ins) == 1 and ins[0][2][1] == "id" and isinstance(ins[0][2][2], tuple) and dict(ins[0][2][2][3]).get(0) == "id" and p.exit == "return"
    rep.check(okk, "K1", "C01|K1", cfg.where(facts.fn(P + "add_content")), "add_content stores, on every path, exactly one result under the caller's id, tagged with that id", sample={"paths": len(pa)})
    fv = facts.fn("validation::validate")
    chain = [(callee_info(t).get("resolved") or callee_info(t)["def"]).rsplit("::", 1)[1] for _, t in sorted(cfg.call_sites(fv["body"], lambda c: "iter::" in c or "IntoIterator" in c or "Iterator" in c))]
    rep.check(chain == ["into_iter", "map", "collect"], "K3", "C01|K3", cfg.where(fv), "validation::validate must map every stored entry to exactly one result: into_iter().map(..).collect(); extracted chain %r" % (chain,), sample={"chain": chain})
    # K2 : struct update in the per-file closure (C03 S6 struct-update)
    import c03
    r3 = core.Report("C03")
    try:
        c03.run(ctx, r3)
        bad = [v.key for v in r3.violations if "struct-update" in v.key]
    except Exception as e:
        bad = [str(e)]
    rep.check(not bad, "K2", "C01|K2", cfg.where(fv), "the per-file closure returns its entry's own key and a result carrying the stored id (with and without a tree)")
    # K4: "one result for each id CURRENTLY in the parser": the map validate works on is the parser's map as add_content / remove_content
    # left it (no cache of an earlier answer, no second index of ids that can go stale)
    rep.rule("K4", "inherits C12 H1 / H5 / H7 (re-evaluated here): only add_content and remove_content write the parser's state, remove_content is exactly "
                   "lalrpop_results.remove(&id), and validate recomputes validation::validate(collect_item_keys(), the whole current map) on every call - "
                   "so the ids of the returned map are the ids currently held, after any history of calls")
    c12.inherit(ctx, rep, "C01", ("H1", "H2", "H5", "H7"), as_rule="K4")
    rep.assumptions += ["TB-2 the generated LR driver and lalrpop_util's lexer / recovery terminate and do not panic", "TB-3 dependencies do not panic for valid arguments (regex, line-col on token boundaries, std)",
                        "reviewed entries (D8) rest on reading: %d sites in find_content_string" % len(REVIEWED), "stack exhaustion by nesting depth and allocation failure are outside the property"]
    rep.not_decided += ["panics inside dependencies for valid arguments", "termination of the lalrpop runtime and of regex"]


def const_str_of(body, op, depth=0):
    """string constant an operand ultimately refers to (through use / ref / deref copies), else None"""
    if depth > 8:
        return None
    if op["k"] == "const":
        c = op["c"]
        if "str" in c:
            return c["str"]
        if c.get("ty") in ("&str", "&'static str") and c.get("display", "").startswith('"'):
            try:
                import ast as _ast
                return _ast.literal_eval(c["display"])
            except Exception:
                return None
        return None
    if op["k"] in ("move", "copy"):
        l = op["place"]["l"]
        ds = []
        for b in body["blocks"]:
            for s in b["stmts"]:
                if s["k"] == "assign" and s["lhs"]["l"] == l and not s["lhs"]["p"]:
                    ds.append(s)
        if len(ds) != 1:
            return None
        rv = ds[0]["rv"]
        if rv["k"] == "use":
            return const_str_of(body, rv["op"], depth + 1)
        if rv["k"] in ("ref", "copy_for_deref"):
            return const_str_of(body, {"k": "copy", "place": {"l": rv["place"]["l"], "p": []}}, depth + 1)
    return None


def natural_loop(body, u, h):
    sm = cfg.succ_map(body)
    preds = {}
    for a, ss in sm.items():
        for b in ss:
            preds.setdefault(b, []).append(a)
    loop = set([h, u])
    st = [u]
    while st:
        n = st.pop()
        if n == h:
            continue
        for p in preds.get(n, []):
            if p not in loop:
                loop.add(p)
                st.append(p)
    return loop


def recursive_fns(reach, g):
    """functions on a cycle of the call graph (restricted to reach)"""
    out = set()
    for p in reach:
        seen = set()
        st = [r for r in g.get(p, ()) if r in reach]
        while st:
            n = st.pop()
            if n == p:
                out.add(p)
                break
            if n in seen:
                continue
            seen.add(n)
            st.extend(r for r in g.get(n, ()) if r in reach)
    return out
