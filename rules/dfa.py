"""Small DFA library over interval alphabets (the DFA JSON of tools/gramfacts)."""
from collections import deque


def step(d, s, cp):
    for lo, hi, t in d["states"][s]["edges"]:
        if lo <= cp <= hi:
            return t
    return None


def accepts(d, text):
    s = d["start"]
    for ch in text:
        s = step(d, s, ord(ch))
        if s is None:
            return False
    return d["states"][s]["accept"]


def overlap_edges(e1, e2):
    out = []
    for lo1, hi1, t1 in e1:
        for lo2, hi2, t2 in e2:
            lo, hi = max(lo1, lo2), min(hi1, hi2)
            if lo <= hi:
                out.append((lo, hi, t1, t2))
    return out


def intersection_witness(a, b, nonempty_only=False):
    """shortest string in L(a) & L(b), or None"""
    start = (a["start"], b["start"])
    seen = {start: None}
    q = deque([start])
    while q:
        p = q.popleft()
        if a["states"][p[0]]["accept"] and b["states"][p[1]]["accept"] and not (nonempty_only and p == start):
            return build(seen, p)
        for lo, hi, t1, t2 in overlap_edges(a["states"][p[0]]["edges"], b["states"][p[1]]["edges"]):
            n = (t1, t2)
            if n not in seen:
                seen[n] = (p, lo)
                q.append(n)
    return None


def build(seen, p):
    s = []
    while seen[p] is not None:
        p, c = seen[p]
        s.append(chr(c))
    return "".join(reversed(s))


def difference_witness(a, b):
    """shortest string in L(a) \\ L(b) (b completed with a dead state), or None"""
    DEAD = -1
    start = (a["start"], b["start"])
    seen = {start: None}
    q = deque([start])
    while q:
        p = q.popleft()
        acc_b = p[1] != DEAD and b["states"][p[1]]["accept"]
        if a["states"][p[0]]["accept"] and not acc_b:
            return build(seen, p)
        eb = b["states"][p[1]]["edges"] if p[1] != DEAD else []
        for lo1, hi1, t1 in a["states"][p[0]]["edges"]:
            # split [lo1,hi1] by b's edges
            cur = lo1
            for lo2, hi2, t2 in sorted(eb):
                if hi2 < cur or lo2 > hi1:
                    continue
                if lo2 > cur:
                    n = (t1, DEAD)
                    if n not in seen:
                        seen[n] = (p, cur)
                        q.append(n)
                lo = max(cur, lo2)
                n = (t1, t2)
                if n not in seen:
                    seen[n] = (p, lo)
                    q.append(n)
                cur = min(hi1, hi2) + 1
                if cur > hi1:
                    break
            if cur <= hi1:
                n = (t1, DEAD)
                if n not in seen:
                    seen[n] = (p, cur)
                    q.append(n)
    return None


def equal(a, b):
    return a == b


def distinguishing(a, b):
    w = difference_witness(a, b)
    if w is not None:
        return w, "only in the first"
    w = difference_witness(b, a)
    if w is not None:
        return w, "only in the second"
    return None, None


def product(a, b):
    """intersection automaton (reachable part), same JSON shape"""
    start = (a["start"], b["start"])
    idx = {start: 0}
    states = [{"accept": a["states"][start[0]]["accept"] and b["states"][start[1]]["accept"], "edges": []}]
    q = deque([start])
    while q:
        p = q.popleft()
        for lo, hi, t1, t2 in overlap_edges(a["states"][p[0]]["edges"], b["states"][p[1]]["edges"]):
            n = (t1, t2)
            if n not in idx:
                idx[n] = len(states)
                states.append({"accept": a["states"][t1]["accept"] and b["states"][t2]["accept"], "edges": []})
                q.append(n)
            states[idx[p]]["edges"].append([lo, hi, idx[n]])
    return {"start": 0, "states": states}


def enumerate_finite(d, limit=10000):
    """list of all words if the language is finite (and every edge is a single code point on
    useful paths), else None"""
    n = len(d["states"])
    # useful states: can reach accept
    rev = [[] for _ in range(n)]
    for s in range(n):
        for lo, hi, t in d["states"][s]["edges"]:
            rev[t].append(s)
    useful = set(s for s in range(n) if d["states"][s]["accept"])
    st = list(useful)
    while st:
        x = st.pop()
        for p in rev[x]:
            if p not in useful:
                useful.add(p)
                st.append(p)
    words = []
    on_path = set()

    def dfs(s, prefix):
        if len(words) > limit:
            return False
        if s in on_path:
            return False  # cycle through useful states: infinite
        if d["states"][s]["accept"]:
            words.append(prefix)
        on_path.add(s)
        for lo, hi, t in d["states"][s]["edges"]:
            if t not in useful:
                continue
            if hi - lo > 64:
                on_path.discard(s)
                return False
            for c in range(lo, hi + 1):
                if not dfs(t, prefix + chr(c)):
                    on_path.discard(s)
                    return False
        on_path.discard(s)
        return True

    if d["start"] not in useful:
        return []
    return sorted(words) if dfs(d["start"], "") else None


def tokenizer_difference(cur, ref, max_states=200000):
    """cur / ref: lists of (class name, dfa, precedence).  The tokenizer they define maps a string to the
    highest-precedence class that matches it completely (none if no class does); a lexer that always takes
    the longest prefix with a winner is determined by that map.  Returns None when both maps are equal,
    else (string, winner in cur, winner in ref) for a shortest distinguishing string."""
    def start(cl):
        return tuple(d["start"] for _, d, _ in cl)

    def winner(cl, T):
        best = None
        for (name, d, prec), s in zip(cl, T):
            if s is not None and d["states"][s]["accept"]:
                if best is None or prec > best[1]:
                    best = (name, prec)
        return best[0] if best else None

    def cuts(cl, T, pts):
        for (name, d, prec), s in zip(cl, T):
            if s is None:
                continue
            for lo, hi, t in d["states"][s]["edges"]:
                pts.add(lo)
                pts.add(hi + 1)

    def step_all(cl, T, cp):
        out = []
        for (name, d, prec), s in zip(cl, T):
            if s is None:
                out.append(None)
                continue
            n = None
            for lo, hi, t in d["states"][s]["edges"]:
                if lo <= cp <= hi:
                    n = t
                    break
            out.append(n)
        return tuple(out)

    s0 = (start(cur), start(ref))
    seen = {s0: None}
    q = deque([s0])
    while q:
        st = q.popleft()
        wc, wr = winner(cur, st[0]), winner(ref, st[1])
        if wc != wr:
            return build(seen, st), wc, wr
        pts = set()
        cuts(cur, st[0], pts)
        cuts(ref, st[1], pts)
        pts = sorted(pts)
        for i in range(len(pts) - 1):
            cp = pts[i]
            n = (step_all(cur, st[0], cp), step_all(ref, st[1], cp))
            if all(x is None for x in n[0]) and all(x is None for x in n[1]):
                continue
            if n not in seen:
                seen[n] = (st, cp)
                q.append(n)
                if len(seen) > max_states:
                    raise RuntimeError("tokenizer product too large")
    return None
