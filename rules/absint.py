"""A3 tabulator: abstract interpretation of MIR bodies over a finite / symbolic domain.

Nothing of the repository is executed: this walks the MIR control-flow graph exported by
tools/mirfacts with abstract values (known enum variants, known constants, opaque labelled
values), forks at every branch on an opaque value and returns the complete list of paths, each
with its branch conditions, its effect log and its returned abstract value.

Fails closed (raises Unsupported) on anything it does not understand.
"""
import copy
from mirlib import callee_info, place_str, op_str

# ---------------------------------------------------------------------------------------------
# values
# ---------------------------------------------------------------------------------------------


class Unsupported(Exception):
    pass


class Cell(object):
    __slots__ = ("val", "name")

    def __init__(self, val, name=None):
        self.val = val
        self.name = name  # optional: how an assignment to this cell is reported in the effect log


class Const(object):
    __slots__ = ("kind", "v")

    def __init__(self, kind, v):
        self.kind = kind  # 'int' | 'bool' | 'str' | 'char' | 'unit' | 'fn' | 'bytes'
        self.v = v

    def __repr__(self):
        return "%s:%r" % (self.kind, self.v)


class Opaque(object):
    __slots__ = ("label", "ty")

    def __init__(self, label, ty=None):
        self.label = label
        self.ty = ty

    def __repr__(self):
        return "?%s" % (fmt_label(self.label),)


class Ref(object):
    __slots__ = ("cell", "mut")

    def __init__(self, cell, mut=False):
        self.cell = cell
        self.mut = mut

    def __repr__(self):
        return "&%r" % (self.cell.val,)


class AdtVal(object):
    """struct / tuple / enum variant / closure environment; fields materialise lazily"""
    __slots__ = ("ty", "variant", "fields", "label", "vname", "site")

    def __init__(self, ty, variant=None, fields=None, label=None, vname=None, site=None):
        self.site = site  # file:line of the aggregate expression that built the value (None for materialised values)
        self.ty = ty
        self.variant = variant
        self.fields = fields if fields is not None else {}
        self.label = label  # label of the symbolic object this was materialised from (or None)
        self.vname = vname

    def __repr__(self):
        fs = ", ".join("%s: %r" % (k, c.val) for k, c in sorted(self.fields.items()))
        v = "::%s" % (self.vname if self.vname is not None else self.variant) if self.variant is not None else ""
        return "%s%s{%s}" % (self.ty, v, fs)


class VecVal(object):
    __slots__ = ("elems",)

    def __init__(self, elems):
        self.elems = elems  # list of Cell

    def __repr__(self):
        return "vec%r" % ([c.val for c in self.elems],)


class Discr(object):
    """result of `discriminant(place)` on a not-yet-refined enum cell"""
    __slots__ = ("cell", "ty")

    def __init__(self, cell, ty):
        self.cell = cell
        self.ty = ty


def fmt_label(l):
    if isinstance(l, tuple):
        if l and l[0] == "call":
            return "%s(%s)" % (l[1], ", ".join(fmt_label(x) for x in l[2]))
        return "(" + ", ".join(fmt_label(x) for x in l) + ")"
    return str(l)


def lab(v):
    """label (hashable term) describing where an abstract value comes from"""
    if isinstance(v, Opaque):
        return v.label
    if isinstance(v, Const):
        if v.kind == "fn":
            return ("fn", v.v.get("resolved") or v.v["def"])
        if v.kind == "bytes":
            return ("const", "bytes", repr(v.v))
        return ("const", v.kind, v.v)
    if isinstance(v, Ref):
        return lab(v.cell.val)
    if isinstance(v, AdtVal):
        if v.label is not None:
            return v.label
        name = v.vname if v.vname is not None else v.variant
        return ("adt", v.ty, name, tuple((k, lab(c.val)) for k, c in sorted(v.fields.items())))
    if isinstance(v, VecVal):
        return ("vec", tuple(lab(c.val) for c in v.elems))
    if isinstance(v, Discr):
        return ("discr", lab(v.cell.val))
    if v is None:
        return "uninit"
    return repr(v)


def copy_val(v):
    if isinstance(v, AdtVal):
        return AdtVal(v.ty, v.variant, dict((k, Cell(copy_val(c.val))) for k, c in v.fields.items()), v.label, v.vname, v.site)
    if isinstance(v, VecVal):
        return VecVal([Cell(copy_val(c.val)) for c in v.elems])
    return v


STD_ENUMS = {
    "std::option::Option": ["None", "Some"],
    "std::result::Result": ["Ok", "Err"],
    "std::ops::ControlFlow": ["Continue", "Break"],
    "std::collections::hash_map::Entry": ["Occupied", "Vacant"],
    "std::cmp::Ordering": ["Less", "Equal", "Greater"],
    "lalrpop_util::ParseError": ["InvalidToken", "UnrecognizedEOF", "UnrecognizedToken", "ExtraToken", "User"],
}


def ty_head(ty):
    """`std::option::Option<&ast::Arg>` -> `std::option::Option`; strips refs"""
    t = ty.strip()
    while t.startswith("&"):
        t = t[1:].strip()
        if t.startswith("mut "):
            t = t[4:].strip()
        if t.startswith("'"):
            t = t.split(" ", 1)[1].strip() if " " in t else t
    depth = 0
    for i, ch in enumerate(t):
        if ch == "<" and i > 0:
            return t[:i]
    return t


# ---------------------------------------------------------------------------------------------
# machine
# ---------------------------------------------------------------------------------------------


class Frame(object):
    __slots__ = ("key", "locals", "bb", "ret_cell", "ret_bb", "visits", "depth", "data")

    def __init__(self, key, nlocals):
        self.data = None
        self.key = key  # (fn path, promoted index or None); ("<native>", kind) for iterator drivers
        self.locals = [Cell(None) for _ in range(nlocals)]
        self.bb = 0
        self.ret_cell = None
        self.ret_bb = None
        self.visits = {}


class State(object):
    __slots__ = ("frames", "effects", "conds", "known", "exit", "ret", "counter", "trace")

    def __init__(self):
        self.frames = []
        self.effects = []
        self.conds = []
        self.known = {}
        self.exit = None
        self.ret = None
        self.counter = 0
        self.trace = []


class Path(object):
    def __init__(self, st):
        self.state = st
        self.conds = st.conds
        self.effects = st.effects
        self.exit = st.exit
        self.ret = st.ret
        self.trace = st.trace

    def pushes(self, what=None):
        return [e for e in self.effects if e[0] == "push" and (what is None or e[1] == what)]

    def __repr__(self):
        return "Path(exit=%s, conds=%s, effects=%d, ret=%r)" % (
            self.exit, [(fmt_label(a), b) for a, b in self.conds], len(self.effects), self.ret)


PURE_SUFFIXES = (
    "::get", "::contains_key", "::contains", "::is_empty", "::len", "::is_some", "::is_none",
    "::as_ref", "::iter", "::as_str", "::ends_with", "::starts_with", "::get_by_cluster",
    "::is_ok", "::is_err", "::as_deref", "::chars", "::rev", "::first", "::last", "::new", "::join",
)

IDENTITY_CALLS = (
    "std::vec::Vec::<T, A>::as_slice", "std::vec::Vec::<T, A>::as_mut_slice", "std::string::String::as_str", "std::string::String::as_mut_str",
    "std::clone::Clone::clone", "<ast::", "std::borrow::ToOwned::to_owned",
    "std::str::<impl std::borrow::ToOwned for str>::to_owned",
    "std::string::ToString::to_string", "<str as std::string::ToString>::to_string",
    "<std::string::String as std::clone::Clone>::clone",
    "std::convert::Into::into", "<T as std::convert::Into<U>>::into",
    "<std::string::String as std::convert::From<&str>>::from",
    "<T as std::convert::From<T>>::from",
    "<std::string::String as std::ops::Deref>::deref",
    "<std::vec::Vec<T, A> as std::ops::Deref>::deref",
    "<std::vec::Vec<T, A> as std::ops::DerefMut>::deref_mut",
    "<std::string::String as std::ops::DerefMut>::deref_mut",
    "std::convert::AsRef::as_ref", "std::hint::must_use",
    "<std::option::Option<T> as std::clone::Clone>::clone",
    "<std::vec::Vec<T, A> as std::clone::Clone>::clone",
    "std::option::Option::<T>::as_ref", "std::option::Option::<T>::as_mut",
    "std::option::Option::<&T>::cloned", "std::option::Option::<&T>::copied",
    "std::string::String::as_str",
    "<std::string::String as std::convert::AsRef<str>>::as_ref",
)


ADAPTORS = {
    "std::iter::Iterator::map": "map", "std::iter::Iterator::filter_map": "filter_map",
    "std::iter::Iterator::filter": "filter", "std::iter::Iterator::rev": "rev",
    "std::iter::Iterator::enumerate": "enumerate", "std::iter::Iterator::by_ref": "by_ref",
    "std::iter::Iterator::copied": "copied", "std::iter::Iterator::cloned": "cloned",
}


class Machine(object):
    def __init__(self, facts, inline=None, opaque_fns=(), max_paths=20000, max_depth=12,
                 on_next=None, identity_clone=True, keep_trace=False, loop_once=False, alias=None, pure_fns=(), next_hook=None):
        self.facts = facts
        self.inline = inline  # predicate(path) -> bool, default: every crate-local fn with MIR
        self.opaque_fns = set(opaque_fns)
        self.max_paths = max_paths
        self.max_depth = max_depth
        self.on_next = on_next
        self.keep_trace = keep_trace
        self.next_hook = next_hook  # callable(state, iterator label) -> ("some", value) | ("none",) | ("stop",)
        self.alias = alias  # callable(label) -> shorter label (or the same)
        self.pure_fns = set(pure_fns)  # opaque calls without side effects (not logged as effects)
        self.loop_once = loop_once  # `for` loops: one generic element, then the iterator is exhausted (no fork)
        self.steps = 0

    # ---- bodies -------------------------------------------------------------------------------
    def body_of(self, key):
        path, prom = key
        f = self.facts.fns[path]
        return f["body"] if prom is None else f["promoted"][prom]

    # ---- entry points -------------------------------------------------------------------------
    def run(self, path, args, state=None):
        """Interpret fn `path` with abstract argument values `args`; returns list of Path."""
        st = state or State()
        self.push_frame(st, (path, None), args, None, None)
        return self.explore(st)

    def explore(self, st0):
        done = []
        work = [st0]
        while work:
            st = work.pop()
            while st.exit is None:
                forks = self.step(st)
                if forks:
                    work.extend(forks)
                    if len(work) + len(done) > self.max_paths:
                        raise Unsupported("path explosion")
            done.append(Path(st))
        return done

    def push_frame(self, st, key, args, ret_cell, ret_bb):
        body = self.body_of(key)
        if len(st.frames) >= self.max_depth:
            raise Unsupported("inlining depth exceeded at %s" % (key,))
        fr = Frame(key, len(body["locals"]))
        fr.ret_cell = ret_cell
        fr.ret_bb = ret_bb
        if len(args) != body["arg_count"]:
            raise Unsupported("arity mismatch calling %s: %d args for %d params" % (key, len(args), body["arg_count"]))
        for i, a in enumerate(args):
            fr.locals[i + 1].val = a
        st.frames.append(fr)

    # ---- places -------------------------------------------------------------------------------
    def materialise_struct(self, cell, ty_hint):
        v = cell.val
        if isinstance(v, Opaque):
            cell.val = AdtVal(v.ty or ty_hint or "?", None, {}, v.label)
        return cell.val

    def field_cell(self, adt, idx, name, ty):
        c = adt.fields.get(idx)
        if c is None:
            base = adt.label if adt.label is not None else ("anon", adt.ty)
            seg = name if name is not None else str(idx)
            if adt.variant is not None:
                seg = "%s.%s" % (adt.vname if adt.vname is not None else adt.variant, seg)
            c = Cell(Opaque(join_label(base, seg), ty))
            adt.fields[idx] = c
        return c

    def eval_place(self, st, fr, p, for_write=False):
        cell = fr.locals[p["l"]]
        projs = p["p"]
        for i, e in enumerate(projs):
            k = e["k"]
            if k == "deref":
                v = cell.val
                if isinstance(v, Ref):
                    cell = v.cell
                elif isinstance(v, Opaque):
                    tgt = Cell(Opaque(v.label, strip_ref(v.ty)))
                    cell.val = Ref(tgt, True)
                    cell = tgt
                elif isinstance(v, (AdtVal, VecVal, Const)):
                    # Box / String / smart pointer deref modelled transparently
                    pass
                else:
                    raise Unsupported("deref of %r in %s" % (v, place_str(p)))
            elif k == "field":
                v = cell.val
                if cell.name == "<box-content>":
                    continue   # MaybeUninit / ManuallyDrop wrappers around the boxed value are transparent
                if isinstance(v, AdtVal) and v.ty == "box:uninit":
                    # Box<MaybeUninit<T>> { Unique { NonNull { pointer } } }: every field on the way is the pointer to the content
                    if isinstance(v.fields[0].val, Ref):
                        continue
                    cell = Cell(Ref(v.fields[0], True))
                    continue
                if isinstance(v, Ref) and isinstance(v.cell, Cell) and v.cell.name == "<box-content>":
                    continue   # .pointer of the NonNull: still the pointer
                if isinstance(v, Opaque):
                    v = self.materialise_struct(cell, e.get("of"))
                if isinstance(v, AdtVal):
                    cell = self.field_cell(v, e["i"], e.get("name"), e.get("ty"))
                elif v is None and for_write:
                    cell.val = AdtVal(e.get("of") or "?", None, {}, None)
                    cell = self.field_cell(cell.val, e["i"], e.get("name"), e.get("ty"))
                else:
                    raise Unsupported("field of %r in %s" % (v, place_str(p)))
            elif k == "downcast":
                v = cell.val
                if isinstance(v, Opaque):
                    cell.val = AdtVal(v.ty or "?", e["variant"], {}, v.label, e.get("name"))
                elif isinstance(v, AdtVal):
                    if v.variant is None:
                        v.variant = e["variant"]
                        v.vname = e.get("name")
                    elif v.variant != e["variant"]:
                        raise Unsupported("downcast to variant %s of value %r" % (e["variant"], v))
                else:
                    raise Unsupported("downcast of %r" % (v,))
            elif k == "index":
                idx = fr.locals[e["local"]].val
                v = cell.val
                if isinstance(v, VecVal) and isinstance(idx, Const) and idx.kind == "int":
                    if idx.v >= len(v.elems):
                        raise Unsupported("index out of range")
                    cell = v.elems[idx.v]
                else:
                    cell = Cell(Opaque(("index", lab(v), lab(idx))))
            elif k == "cindex":
                v = cell.val
                if isinstance(v, VecVal):
                    n = e["offset"]
                    cell = v.elems[-n] if e["from_end"] else v.elems[n]
                else:
                    cell = Cell(Opaque(("index", lab(v), ("const", "int", -e["offset"] if e["from_end"] else e["offset"]))))
            elif k == "subslice":
                v = cell.val
                if isinstance(v, VecVal):
                    n = len(v.elems)
                    lo, hi = e["from"], (n - e["to"] if e["from_end"] else e["to"])
                    if lo > hi or hi > n:
                        raise Unsupported("subslice out of range")
                    cell = Cell(VecVal(v.elems[lo:hi]))   # the same cells: a view
                else:
                    cell = Cell(Opaque(("subslice", lab(v), e["from"], e["to"], e["from_end"])))
            else:
                raise Unsupported("projection %s" % k)
        return cell

    def eval_const(self, st, fr, c):
        if "fn" in c:
            return Const("fn", c["fn"])
        if "promoted" in c:
            # evaluate the promoted body (straight-line)
            key = (c.get("promoted_of") or fr.key[0], c["promoted"])
            return self.eval_promoted(key)
        if "enum_array" in c:
            # a constant array of field-less enum values (e.g. `const ALL: [Kind; 4]`)
            ty = c["enum_array_of"]
            elems = []
            for nm in c["enum_array"]:
                idx = None
                for v in (self.facts.adts.get(ty) or {}).get("variants", []):
                    if v["name"] == nm:
                        idx = v["index"]
                if idx is None:
                    raise Unsupported("enum array constant of %s: unknown variant %s" % (ty, nm))
                elems.append(Cell(AdtVal(ty, idx, {}, None, nm)))
            return VecVal(elems)
        if "bool" in c:
            return Const("bool", c["bool"])
        if "str" in c:
            return Ref(Cell(Const("str", c["str"])))
        if "int" in c:
            return Const("int", c["int"])
        if c["ty"] == "()":
            return Const("unit", None)
        if c["ty"] in ("&str", "&'static str") and c["display"].startswith('"') and c["display"].endswith('"'):
            try:
                import ast as _ast
                return Ref(Cell(Const("str", _ast.literal_eval(c["display"]))))
            except Exception:
                pass
        if c["ty"].startswith("&[u8") and c["display"].startswith('b"'):
            b = decode_bytes(c["display"][2:-1])
            if b is not None:
                return Ref(Cell(Const("bytes", b)))
        return Opaque(("constant", c["display"]), c["ty"])

    def eval_promoted(self, key):
        st = State()
        self.push_frame(st, key, [], None, None)
        paths = self.explore(st)
        if len(paths) != 1:
            raise Unsupported("promoted with %d paths" % len(paths))
        return paths[0].ret

    def eval_operand(self, st, fr, o):
        k = o["k"]
        if k in ("copy", "move"):
            c = self.eval_place(st, fr, o["place"])
            v = c.val
            if v is None:
                raise Unsupported("read of uninitialised %s in %s" % (place_str(o["place"]), fr.key))
            return copy_val(v)
        if k == "const":
            return self.eval_const(st, fr, o["c"])
        raise Unsupported("operand %s" % k)

    # ---- rvalues ------------------------------------------------------------------------------
    def eval_rvalue(self, st, fr, rv, lhs_ty):
        k = rv["k"]
        if k == "use":
            return self.eval_operand(st, fr, rv["op"])
        if k in ("ref", "rawptr"):
            c = self.eval_place(st, fr, rv["place"])
            return Ref(c, rv.get("bk") == "mut")
        if k == "copy_for_deref":
            return copy_val(self.eval_place(st, fr, rv["place"]).val)
        if k == "aggregate":
            ops = [self.eval_operand(st, fr, o) for o in rv["ops"]]
            agg = rv["agg"]
            if agg == "adt":
                adt = self.facts.adts.get(rv["adt"])
                is_enum = (adt is not None and adt["kind"] == "Enum") or rv["adt"] in STD_ENUMS or adt is None and rv["variant"] > 0
                if adt is None and rv["adt"] in STD_ENUMS:
                    is_enum = True
                v = AdtVal(rv["adt"], rv["variant"] if is_enum else None,
                           dict((i, Cell(x)) for i, x in enumerate(ops)), None,
                           rv["variant_name"] if is_enum else None)
                return v
            if agg == "tuple":
                return AdtVal("tuple", None, dict((i, Cell(x)) for i, x in enumerate(ops)))
            if agg == "array":
                return VecVal([Cell(x) for x in ops])
            if agg == "closure":
                return AdtVal("closure:" + rv["closure"], None, dict((i, Cell(x)) for i, x in enumerate(ops)))
            raise Unsupported("aggregate %s" % agg)
        if k == "discriminant":
            c = self.eval_place(st, fr, rv["place"])
            v = c.val
            if isinstance(v, AdtVal) and v.variant is not None:
                return Const("int", self.discr_of(v.ty, v.variant))
            if isinstance(v, Opaque):
                return Discr(c, v.ty or rv["place"]["ty"])
            if isinstance(v, AdtVal) and v.variant is None and v.label is not None and not v.fields:
                c.val = Opaque(v.label, v.ty)
                return Discr(c, v.ty)
            raise Unsupported("discriminant of %r" % (v,))
        if k == "binop":
            a = self.eval_operand(st, fr, rv["a"])
            b = self.eval_operand(st, fr, rv["b"])
            return self.binop(rv["op"], a, b)
        if k == "unop":
            a = self.eval_operand(st, fr, rv["a"])
            if rv["op"] == "Not":
                if isinstance(a, Const) and a.kind == "bool":
                    return Const("bool", not a.v)
                return Opaque(("not", lab(a)), "bool")
            if rv["op"] == "PtrMetadata":
                a = deref_val(a)
                if isinstance(a, VecVal):
                    return Const("int", len(a.elems))
                return Opaque(("len", lab(a)), "usize")
            return Opaque((rv["op"], lab(a)))
        if k == "cast":
            v = self.eval_operand(st, fr, rv["op"])
            kind = rv.get("kind") or ""
            if kind.startswith("PointerCoercion") or kind in ("PtrToPtr", "Transmute", "FnPtrToPtr", "PointerExposeProvenance", "PointerWithExposedProvenance"):
                return v  # pointer coercions keep provenance
            # numeric casts (IntToInt, FloatToInt, ...) change the value in general (truncation, sign): keep the provenance but mark it
            if isinstance(v, Const) and kind == "IntToInt" and v.kind == "int":
                return v
            return Opaque(("cast", rv.get("ty"), lab(v)), rv.get("ty"))
        if k == "repeat":
            return Opaque(("repeat", lab(self.eval_operand(st, fr, rv["op"]))))
        raise Unsupported("rvalue %s" % k)

    def discr_of(self, ty, variant):
        adt = self.facts.adts.get(ty_head(ty))
        if adt is not None:
            return int(adt["variants"][variant]["discr"])
        return variant

    def variant_of_discr(self, ty, d):
        adt = self.facts.adts.get(ty_head(ty))
        if adt is not None:
            for v in adt["variants"]:
                if int(v["discr"]) == d:
                    return v["index"], v["name"]
            return None, None
        names = STD_ENUMS.get(ty_head(ty))
        if names is not None and 0 <= d < len(names):
            return d, names[d]
        return None, None

    def all_variants(self, ty):
        adt = self.facts.adts.get(ty_head(ty))
        if adt is not None:
            return [(v["index"], v["name"], int(v["discr"])) for v in adt["variants"]]
        names = STD_ENUMS.get(ty_head(ty))
        if names is not None:
            return [(i, n, i) for i, n in enumerate(names)]
        return None

    def binop(self, op, a, b):
        if isinstance(a, Const) and isinstance(b, Const) and a.kind in ("int", "bool", "char") and b.kind == a.kind:
            x, y = a.v, b.v
            if op in ("Eq", "Ne", "Lt", "Le", "Gt", "Ge"):
                return Const("bool", {"Eq": x == y, "Ne": x != y, "Lt": x < y, "Le": x <= y, "Gt": x > y, "Ge": x >= y}[op])
            if a.kind == "int":
                if op in ("Add", "AddUnchecked"):
                    return Const("int", x + y)
                if op in ("Sub", "SubUnchecked"):
                    return Const("int", x - y)
                if op in ("Mul",):
                    return Const("int", x * y)
                if op in ("AddWithOverflow", "SubWithOverflow", "MulWithOverflow"):
                    r = {"AddWithOverflow": x + y, "SubWithOverflow": x - y, "MulWithOverflow": x * y}[op]
                    return AdtVal("tuple", None, {0: Cell(Const("int", r)), 1: Cell(Const("bool", False))})
            if a.kind == "bool" and op in ("BitAnd", "BitOr", "BitXor"):
                return Const("bool", {"BitAnd": x and y, "BitOr": x or y, "BitXor": x != y}[op])
        if isinstance(a, Discr) or isinstance(b, Discr):
            # comparison of discriminants of two enum values (derived PartialEq) - keep symbolic
            return Opaque((op.lower(), lab(a), lab(b)), "bool")
        if op in ("AddWithOverflow", "SubWithOverflow", "MulWithOverflow"):
            return AdtVal("tuple", None, {0: Cell(Opaque((op[:3].lower(), lab(a), lab(b)), "usize")),
                                          1: Cell(Opaque(("overflow", op[:3].lower(), lab(a), lab(b)), "bool"))})
        return Opaque((op.lower(), lab(a), lab(b)), "bool" if op in ("Eq", "Ne", "Lt", "Le", "Gt", "Ge") else None)

    # ---- one step = one basic block -------------------------------------------------------------
    def step(self, st):
        self.steps += 1
        fr = st.frames[-1]
        body = self.body_of(fr.key)
        blk = body["blocks"][fr.bb]
        n = fr.visits.get(fr.bb, 0)
        if n >= 1 and not self.loop_once and self.next_hook is None and self.is_loop_head(fr.key, fr.bb):
            st.exit = "loop_back"
            st.ret = ("loop_back", fr.key[0], fr.bb)
            return None
        if n >= 8 and self.next_hook is None:
            raise Unsupported("block bb%d of %s visited %d times" % (fr.bb, fr.key, n))
        fr.visits[fr.bb] = n + 1
        if self.keep_trace:
            st.trace.append((fr.key[0], fr.bb))
        for s in blk["stmts"]:
            if s["k"] == "assign":
                v = self.eval_rvalue(st, fr, s["rv"], s["lhs"]["ty"])
                if s["rv"]["k"] == "aggregate" and isinstance(v, AdtVal):
                    v.site = loc(s)
                c = self.eval_place(st, fr, s["lhs"], for_write=True)
                self.write(st, fr, s["lhs"], c, v, s)
            elif s["k"] == "set_discriminant":
                c = self.eval_place(st, fr, s["place"], for_write=True)
                vi = s["variant"]
                c.val = AdtVal(s["place"]["ty"], vi, {}, None, None)
            elif s["k"] == "intrinsic":
                pass
        t = blk["term"]
        k = t["k"]
        if k == "goto":
            fr.bb = t["target"]
            return None
        if k == "return":
            ret = fr.locals[0].val
            st.frames.pop()
            if not st.frames:
                st.exit = "return"
                st.ret = ret
                return None
            caller = st.frames[-1]
            if fr.ret_cell is not None:
                fr.ret_cell.val = ret
            if caller.key[0] == "<native>":
                return self.native_resume(st, caller, ret)
            caller.bb = fr.ret_bb
            return None
        if k == "switch":
            return self.do_switch(st, fr, t)
        if k == "drop":
            fr.bb = t["target"]
            return None
        if k == "assert":
            c = self.eval_operand(st, fr, t["cond"])
            if isinstance(c, Const) and c.kind == "bool" and c.v != t["expected"]:
                st.exit = "panic"
                st.ret = ("assert", t["msg"], t["span"]["line"])
                return None
            if not isinstance(c, Const) and t["msg"] not in ("misaligned", "null_deref"):   # debug-build pointer checks on Box pointers are not program logic
                st.effects.append(("assert", t["msg"], lab(c), loc(t)))
            fr.bb = t["target"]
            return None
        if k == "call":
            return self.do_call(st, fr, t)
        if k == "unreachable":
            st.exit = "unreachable"
            return None
        raise Unsupported("terminator %s in %s" % (k, fr.key))

    _loop_heads = {}

    def is_loop_head(self, key, bb):
        """bb is the target of a back edge (DFS) in the non-cleanup CFG of the body"""
        heads = self._loop_heads.get(key)
        if heads is None:
            from mirlib import successors
            body = self.body_of(key)
            heads = set()
            color = {}
            stack = [(0, iter(successors(body["blocks"][0]["term"])))]
            color[0] = 1
            while stack:
                node, it = stack[-1]
                adv = False
                for s in it:
                    if body["blocks"][s]["cleanup"]:
                        continue
                    if color.get(s, 0) == 0:
                        color[s] = 1
                        stack.append((s, iter(successors(body["blocks"][s]["term"]))))
                        adv = True
                        break
                    elif color[s] == 1:
                        heads.add(s)
                if not adv:
                    color[node] = 2
                    stack.pop()
            self._loop_heads[key] = heads
        return bb in heads

    def write(self, st, fr, lhs, cell, v, stmt):
        # assignments through a reference into caller-visible (labelled) memory are effects
        if cell.name == "<box-content>":
            pass   # initialising a fresh box (vec![..]) is not visible outside
        elif cell.name is not None:
            st.effects.append(("assign", cell.name, lab(v), loc(stmt)))
        elif self.is_external(fr, lhs, cell):
            st.effects.append(("assign", self.place_label(st, fr, lhs), lab(v), loc(stmt)))
        cell.val = v

    def is_external(self, fr, lhs, cell):
        if not any(e["k"] == "deref" for e in lhs["p"]):
            return False
        # the root local holds a reference; writing through it is visible outside the frame
        return True

    def place_label(self, st, fr, p):
        base = None
        cell = fr.locals[p["l"]]
        v = cell.val
        segs = []
        cur_label = lab(v) if v is not None else "_%d" % p["l"]
        for e in p["p"]:
            if e["k"] == "deref":
                continue
            if e["k"] == "field":
                segs.append(e.get("name") or str(e["i"]))
            elif e["k"] == "downcast":
                segs.append(e.get("name") or str(e["variant"]))
        l = cur_label
        for s in segs:
            l = join_label(l, s)
        return l

    # ---- switch ---------------------------------------------------------------------------------
    def do_switch(self, st, fr, t):
        d = self.eval_operand(st, fr, t["discr"])
        targets = t["targets"]
        if isinstance(d, Const):
            val = d.v
            if d.kind == "bool":
                val = 1 if d.v else 0
            for v, b in targets:
                if v == val:
                    fr.bb = b
                    return None
            fr.bb = t["otherwise"]
            return None
        if isinstance(d, Discr):
            cell = d.cell
            # the cell may have been refined meanwhile
            if isinstance(cell.val, AdtVal) and cell.val.variant is not None:
                val = self.discr_of(cell.val.ty, cell.val.variant)
                for v, b in targets:
                    if v == val:
                        fr.bb = b
                        return None
                fr.bb = t["otherwise"]
                return None
            variants = self.all_variants(d.ty)
            if variants is None:
                raise Unsupported("switch on discriminant of unknown enum type %s" % d.ty)
            label = lab(cell.val)
            listed = dict((v, b) for v, b in targets)
            choices = []
            for idx, name, dv in variants:
                tgt = listed.get(dv, t["otherwise"])
                choices.append((idx, name, tgt))
            forks = []
            cid = id(cell)
            for n, (idx, name, tgt) in enumerate(choices):
                last = n == len(choices) - 1
                s2 = st if last else copy.deepcopy(st)
                if s2 is st:
                    c2 = cell
                else:
                    c2 = self.find_copied_cell(st, s2, cell)
                old = c2.val
                c2.val = AdtVal(old.ty or d.ty, idx, {}, old.label, name)
                s2.conds.append((("variant", label), name))
                s2.frames[-1].bb = tgt
                if not last:
                    forks.append(s2)
            return forks
        if isinstance(d, Opaque):
            label = d.label
            if label in st.known:
                val = st.known[label]
                for v, b in targets:
                    if v == val:
                        fr.bb = b
                        return None
                fr.bb = t["otherwise"]
                return None
            is_bool = t["discr_ty"] == "bool"
            choices = [(v, b) for v, b in targets]
            if is_bool:
                present = set(v for v, _ in targets)
                rest = [x for x in (0, 1) if x not in present]
                for x in rest:
                    choices.append((x, t["otherwise"]))
            else:
                choices.append((("other", tuple(v for v, _ in targets)), t["otherwise"]))
            forks = []
            for n, (val, tgt) in enumerate(choices):
                last = n == len(choices) - 1
                s2 = st if last else copy.deepcopy(st)
                s2.known[label] = val
                s2.conds.append((label, bool(val) if is_bool else val))
                s2.frames[-1].bb = tgt
                if not last:
                    forks.append(s2)
            return forks
        raise Unsupported("switch on %r" % (d,))

    def find_copied_cell(self, st, s2, cell):
        # deep copies preserve structure: walk both states in lock-step to find the twin of `cell`
        seen = set()
        stack = []
        for f1, f2 in zip(st.frames, s2.frames):
            for c1, c2 in zip(f1.locals, f2.locals):
                stack.append((c1, c2))
            if f1.ret_cell is not None:
                stack.append((f1.ret_cell, f2.ret_cell))
        while stack:
            c1, c2 = stack.pop()
            if c1 is cell:
                return c2
            if id(c1) in seen:
                continue
            seen.add(id(c1))
            v1, v2 = c1.val, c2.val
            if isinstance(v1, Ref):
                stack.append((v1.cell, v2.cell))
            elif isinstance(v1, AdtVal):
                for k in v1.fields:
                    stack.append((v1.fields[k], v2.fields[k]))
            elif isinstance(v1, VecVal):
                for a, b in zip(v1.elems, v2.elems):
                    stack.append((a, b))
            elif isinstance(v1, Discr):
                stack.append((v1.cell, v2.cell))
        raise Unsupported("refined cell not reachable from the state")

    # ---- calls ----------------------------------------------------------------------------------
    def do_call(self, st, fr, t):
        ci = callee_info(t)
        args = [self.eval_operand(st, fr, a) for a in t["args"]]
        dest = self.eval_place(st, fr, t["dest"], for_write=True)
        if ci is None:
            # call through a fn pointer / closure value held in a local
            f = self.eval_operand(st, fr, t["func"])
            raise Unsupported("indirect call of %r" % (f,))
        name = ci.get("resolved") or ci["def"]
        target = t["target"]

        def finish(v):
            dest.val = v
            if target is None:
                st.exit = "diverge"
                st.ret = ("diverge", name)
            else:
                fr.bb = target
            return None

        # diverging calls: panics
        if target is None:
            st.exit = "panic"
            st.ret = ("panic", short(name), loc(t))
            return None

        # closures called through Fn* traits (also via generic parameters holding a closure value)
        if ci["def"] in ("std::ops::FnOnce::call_once", "std::ops::FnMut::call_mut", "std::ops::Fn::call"):
            f = args[0]
            fv = deref_val(f)
            if isinstance(fv, AdtVal) and fv.ty.startswith("closure:"):
                cpath = fv.ty[len("closure:"):]
                if self.may_inline(cpath):
                    tup = args[1]
                    cargs = [tup.fields[i].val for i in sorted(tup.fields)] if isinstance(tup, AdtVal) else []
                    body = self.facts.fns[cpath]["body"]
                    env = f
                    if isinstance(f, AdtVal):
                        env = Ref(Cell(f), True)  # call_once by value: body takes the env by value or ref
                        # closures taking env by value have _1: closure type; by ref: &closure
                        if not body["locals"][1]["ty"].startswith("&"):
                            env = f
                    elif isinstance(f, Ref) and not body["locals"][1]["ty"].startswith("&"):
                        env = f.cell.val
                    elif isinstance(f, Ref) and isinstance(f.cell.val, Ref) and body["locals"][1]["ty"].startswith("&"):
                        # &mut &mut closure  (e.g. `&mut f` passed on)
                        env = f.cell.val
                    fr.bb = target
                    self.push_frame(st, (cpath, None), [env] + cargs, dest, target)
                    return None
            if isinstance(fv, Const) and fv.kind == "fn":
                # fn item passed as a value
                tup = args[1]
                cargs = [tup.fields[i].val for i in sorted(tup.fields)] if isinstance(tup, AdtVal) else []
                return self.call_named(st, fr, t, fv.v, cargs, dest, target, finish)
        return self.call_named(st, fr, t, ci, args, dest, target, finish)

    def may_inline(self, path):
        if path in self.opaque_fns:
            return False
        if path not in self.facts.fns:
            return False
        if self.inline is not None:
            return self.inline(path)
        return True

    def call_named(self, st, fr, t, ci, args, dest, target, finish):
        name = ci.get("resolved") or ci["def"]
        d = ci["def"]
        # ---- modelled functions
        if name in IDENTITY_CALLS or d in IDENTITY_CALLS or (
                d == "std::clone::Clone::clone") or name.endswith("as std::clone::Clone>::clone"):
            v = args[0]
            if isinstance(v, Ref):
                inner = v.cell.val
                if d.endswith("::deref") or d.endswith("::deref_mut") or d.endswith("::as_ref") or d.endswith("::as_mut") or d.endswith("::as_str") or name.endswith("::deref") or name.endswith("::deref_mut"):
                    return finish(v)
                return finish(copy_val(inner) if inner is not None else Opaque("uninit"))
            return finish(copy_val(v))
        if d in ("std::cmp::PartialEq::eq", "std::cmp::PartialEq::ne"):
            a, b = deref_val(args[0]), deref_val(args[1])
            r = struct_eq(a, b)
            if r is None:
                la, lb = lab(a), lab(b)
                v = Opaque(("eq", la, lb) if d.endswith("eq") else ("ne", la, lb), "bool")
                return finish(v)
            return finish(Const("bool", r if d.endswith("eq") else not r))
        if d == "std::vec::Vec::<T>::new" or name == "std::vec::Vec::<T>::new":
            return finish(VecVal([]))
        if d.startswith("<std::vec::Vec<T> as std::convert::From<[T; N]>>::from") or name.startswith("<std::vec::Vec<T> as std::convert::From<[T; N]>>::from"):
            a = args[0]
            if isinstance(a, VecVal):
                return finish(VecVal([Cell(copy_val(c.val)) for c in a.elems]))
        if d in ("std::slice::<impl [T]>::into_vec",) or name == "std::slice::<impl [T]>::into_vec":
            a = deref_val(args[0])
            if isinstance(a, VecVal):
                return finish(a)
        if (d == "std::iter::Extend::extend" or name.endswith("as std::iter::Extend<T>>::extend")) and len(args) == 2 and "HashSet" in name \
                and any(str(x).startswith("std::option::Option<") for x in ((callee_info(t) or {}).get("args") or [])[-1:]):
            # set.extend(option): insert the payload when there is one (reported like the insert it stands for)
            tgt = args[0]
            ov = deref_val(args[1])
            ins = "std::collections::HashSet::<T, S, A>::insert"
            if isinstance(ov, AdtVal) and ov.variant == 0:
                return finish(Const("unit", None))
            if isinstance(ov, AdtVal) and ov.variant == 1:
                pay = self.field_cell(ov, 0, None, None).val
                st.effects.append(("call", ins, (lab(deref_val(tgt)), lab(pay)), loc(t)))
                self.bump(tgt)
                return finish(Const("unit", None))
            if isinstance(ov, Opaque):
                s2 = copy.deepcopy(st)
                d2 = self.find_copied_cell(st, s2, dest)
                d2.val = Const("unit", None)
                s2.conds.append((("variant", ov.label), "None"))
                s2.frames[-1].bb = target
                st.conds.append((("variant", ov.label), "Some"))
                st.effects.append(("call", ins, (lab(deref_val(tgt)), join_label(ov.label, "Some.0")), loc(t)))
                self.bump(tgt)
                dest.val = Const("unit", None)
                fr.bb = target
                return [s2]
        if (d == "std::iter::Extend::extend" or name.endswith("as std::iter::Extend<T>>::extend")) and len(args) == 2 and "Vec" in name \
                and any(str(x).startswith("std::option::Option<") for x in ((callee_info(t) or {}).get("args") or [])[-1:]):
            # vec.extend(option): push the payload when there is one
            tgt = args[0]
            tv = deref_val(tgt)
            ov = deref_val(args[1])
            if isinstance(ov, AdtVal) and ov.variant == 0:
                return finish(Const("unit", None))
            if isinstance(ov, AdtVal) and ov.variant == 1:
                pay = self.field_cell(ov, 0, None, None).val
                if isinstance(tv, VecVal):
                    tv.elems.append(Cell(pay))
                else:
                    st.effects.append(("push", base_label(lab(tv)), pay, loc(t)))
                    self.bump(tgt)
                return finish(Const("unit", None))
            if isinstance(ov, Opaque) and not isinstance(tv, VecVal):
                s2 = copy.deepcopy(st)
                d2 = self.find_copied_cell(st, s2, dest)
                d2.val = Const("unit", None)
                s2.conds.append((("variant", ov.label), "None"))
                s2.frames[-1].bb = target
                st.conds.append((("variant", ov.label), "Some"))
                st.effects.append(("push", base_label(lab(tv)), Opaque(join_label(ov.label, "Some.0")), loc(t)))
                self.bump(tgt)
                dest.val = Const("unit", None)
                fr.bb = target
                return [s2]
        if d == "std::vec::Vec::<T, A>::push":
            tgt = args[0]
            tv = deref_val(tgt)
            if isinstance(tv, VecVal):
                tv.elems.append(Cell(args[1]))
                return finish(Const("unit", None))
            st.effects.append(("push", base_label(lab(tv)), args[1], loc(t)))
            self.bump(tgt)
            return finish(Const("unit", None))
        if d.endswith("slice::<impl [T]>::len") or d.endswith("slice::<impl [T]>::is_empty") or d == "std::vec::Vec::<T, A>::is_empty":
            tv = deref_val(args[0])
            if isinstance(tv, VecVal):
                return finish(Const("int", len(tv.elems)) if d.endswith("len") else Const("bool", len(tv.elems) == 0))
        if d == "std::vec::Vec::<T, A>::len":
            tv = deref_val(args[0])
            if isinstance(tv, VecVal):
                return finish(Const("int", len(tv.elems)))
            return finish(Opaque(("len", lab(tv)), "usize"))
        if d in ("std::option::Option::<T>::is_some", "std::option::Option::<T>::is_none"):
            a = deref_val(args[0])
            if isinstance(a, AdtVal) and a.variant is not None:
                r = a.variant == 1
                return finish(Const("bool", r if d.endswith("is_some") else not r))
            return finish(Opaque((("is_some" if d.endswith("is_some") else "is_none"), lab(a)), "bool"))
        if d == "std::option::Option::<T>::unwrap" or d == "std::option::Option::<T>::expect":
            a = deref_val(args[0])
            st.effects.append(("unwrap", lab(a), loc(t)))
            if isinstance(a, AdtVal) and a.variant == 1:
                return finish(self.field_cell(a, 0, None, None).val)
            if isinstance(a, AdtVal) and a.variant == 0:
                st.exit = "panic"
                st.ret = ("panic", "unwrap on None", loc(t))
                return None
            return finish(Opaque(join_label(lab(a), "Some.0")))
        if "core::fmt::rt::Argument" in d and "::new_" in d:
            return finish(Opaque(("fmtarg", d.rsplit("::new_", 1)[1], lab(deref_val(args[0])))))
        if d.startswith("std::fmt::Arguments") and d.endswith("::new"):
            tb = deref_val(args[0])
            av = deref_val(args[1])
            tpl = decode_fmt_template(tb.v) if isinstance(tb, Const) and tb.kind == "bytes" else None
            al = tuple(lab(c.val) for c in av.elems) if isinstance(av, VecVal) else (lab(av),)
            return finish(Opaque(("fmt", tpl if tpl is not None else lab(tb), al)))
        if d.startswith("std::fmt::Arguments") and (d.endswith("::from_str") or d.endswith("::new_const")):
            return finish(Opaque(("fmt", lab(deref_val(args[0])), ())))
        if d == "std::fmt::format":
            return finish(args[0])
        if d.startswith("std::fmt::") or d.startswith("rules::aidl::core::fmt::") or d.startswith("core::fmt::") or name.startswith("std::fmt::") or "core::fmt::rt::Argument" in d:
            return finish(Opaque(("fmt",) + tuple(lab(a) for a in args)))
        if d == "std::iter::IntoIterator::into_iter" or d.endswith("::iter") or d.endswith("::iter_mut"):
            a = deref_val(args[0])
            return finish(Opaque(("iter", lab(a))))
        if d == "std::ops::Try::branch" or d == "std::ops::FromResidual::from_residual" or d == "std::ops::Try::from_output":
            r = self.try_model(d.rsplit("::", 1)[1], name, args)
            if r is not None:
                return finish(r)
            a0 = deref_val(args[0])
            if d.endswith("::branch") and isinstance(a0, Opaque) and ("Option" in name or "Result" in name) and "ControlFlow" not in name:
                # `?` on an opaque Option / Result: fork on its variant, like a match on it
                CF = "std::ops::ControlFlow"
                is_opt = "Option" in name
                good, bad = ("Some", "None") if is_opt else ("Ok", "Err")
                s2 = copy.deepcopy(st)
                d2 = self.find_copied_cell(st, s2, dest)
                if is_opt:
                    resid = AdtVal("std::option::Option", 0, {}, None, "None")
                else:
                    resid = AdtVal("std::result::Result", 1, {0: Cell(Opaque(join_label(a0.label, "Err.0")))}, None, "Err")
                d2.val = AdtVal(CF, 1, {0: Cell(resid)}, None, "Break")
                s2.conds.append((("variant", a0.label), bad))
                s2.frames[-1].bb = target
                st.conds.append((("variant", a0.label), good))
                dest.val = AdtVal(CF, 0, {0: Cell(Opaque(join_label(a0.label, good + ".0")))}, None, "Continue")
                fr.bb = target
                return [s2]
            # undecided: pure opaque value (its variant is forked on when it is matched)
            return finish(Opaque(("call", name, tuple(lab(a) for a in args)), t["dest"]["ty"]))
        if d == "std::boxed::Box::<T>::new_uninit" or name == "std::boxed::Box::<T>::new_uninit":
            # the expansion of vec![..]: a fresh box whose content is written through its raw pointer and then turned into a Vec
            return finish(AdtVal("box:uninit", None, {0: Cell(None, "<box-content>")}))
        if d.endswith("box_assume_init_into_vec_unsafe") or name.endswith("box_assume_init_into_vec_unsafe"):
            b = deref_val(args[0])
            if isinstance(b, AdtVal) and b.ty == "box:uninit" and b.fields[0].val is not None:
                return finish(b.fields[0].val)
            raise Unsupported("box_assume_init_into_vec_unsafe on %r" % (b,))
        if "core::tuple::<impl std::cmp::PartialOrd for (U, T)>::" in name and name.rsplit("::", 1)[1] in ("lt", "le", "gt", "ge") and len(args) == 2:
            # lexicographic comparison of pairs, expanded into comparisons of the components (forks like the hand-written form)
            op = name.rsplit("::", 1)[1]

            def comp(v, i):
                v = deref_val(v)
                if isinstance(v, AdtVal) and i in v.fields:
                    return deref_val(v.fields[i].val)
                return Opaque(join_label(lab(v), str(i)), None)
            a0, a1, b0, b1 = comp(args[0], 0), comp(args[0], 1), comp(args[1], 0), comp(args[1], 1)
            strict = "lt" if op in ("lt", "le") else "gt"
            first = self.binop(strict.capitalize(), a0, b0)
            same = self.binop("Eq", a0, b0)
            second = self.binop(op.capitalize(), a1, b1)
            if isinstance(first, Const) or isinstance(same, Const):
                if isinstance(first, Const) and first.v:
                    return finish(Const("bool", True))
                if isinstance(same, Const) and isinstance(first, Const):
                    return finish(second if same.v else Const("bool", False))
                raise Unsupported("tuple comparison with partially constant components")
            s1 = copy.deepcopy(st)
            d1 = self.find_copied_cell(st, s1, dest)
            d1.val = Const("bool", True)
            s1.conds.append((first.label, True))
            s1.frames[-1].bb = target
            s3 = copy.deepcopy(st)
            d3 = self.find_copied_cell(st, s3, dest)
            d3.val = Const("bool", False)
            s3.conds.append((first.label, False))
            s3.conds.append((same.label, False))
            s3.frames[-1].bb = target
            st.conds.append((first.label, False))
            st.conds.append((same.label, True))
            dest.val = second
            fr.bb = target
            return [s1, s3]
        if d in ("std::option::Option::<&T>::cloned", "std::option::Option::<&T>::copied", "std::option::Option::<&mut T>::cloned", "std::option::Option::<&mut T>::copied"):
            # Option<&T> -> Option<T>: same presence, the payload is a copy of the referent (labels are kept)
            ov = deref_val(args[0])
            if isinstance(ov, AdtVal) and ov.variant == 0:
                return finish(AdtVal("std::option::Option", 0, {}, None, "None"))
            if isinstance(ov, AdtVal) and ov.variant == 1:
                return finish(AdtVal("std::option::Option", 1, {0: Cell(copy_val(deref_val(self.field_cell(ov, 0, None, None).val)))}, None, "Some"))
            if isinstance(ov, Opaque):
                return finish(Opaque(ov.label, t["dest"]["ty"]))
        if d in ("std::ops::ControlFlow::<B, C>::break_value", "std::ops::ControlFlow::<B, C>::continue_value"):
            cf = deref_val(args[0])
            want = "Break" if d.endswith("break_value") else "Continue"
            if isinstance(cf, AdtVal) and cf.vname in ("Break", "Continue"):
                if cf.vname == want:
                    return finish(AdtVal("std::option::Option", 1, {0: Cell(self.field_cell(cf, 0, None, None).val)}, None, "Some"))
                return finish(AdtVal("std::option::Option", 0, {}, None, "None"))
            if isinstance(cf, Opaque):
                other = "Continue" if want == "Break" else "Break"
                s2 = copy.deepcopy(st)
                d2 = self.find_copied_cell(st, s2, dest)
                d2.val = AdtVal("std::option::Option", 0, {}, None, "None")
                s2.conds.append((("variant", cf.label), other))
                s2.frames[-1].bb = target
                st.conds.append((("variant", cf.label), want))
                dest.val = AdtVal("std::option::Option", 1, {0: Cell(Opaque(join_label(cf.label, want + ".0")))}, None, "Some")
                fr.bb = target
                return [s2]
        if d == "std::option::Option::<T>::get_or_insert":
            # *opt = Some(v) when empty; the payload (by reference) either way
            tgt = args[0]
            if isinstance(tgt, Ref):
                ov = tgt.cell.val
                if isinstance(ov, AdtVal) and ov.variant == 0:
                    nv = AdtVal("std::option::Option", 1, {0: Cell(args[1])}, None, "Some")
                    if tgt.cell.name is not None:
                        st.effects.append(("assign", tgt.cell.name, lab(nv), loc(t)))
                    tgt.cell.val = nv
                    return finish(Ref(nv.fields[0], True))
                if isinstance(ov, AdtVal) and ov.variant == 1:
                    return finish(Ref(self.field_cell(ov, 0, None, None), True))
        if d == "std::option::Option::<T>::take":
            # the old value moves out, the place becomes None
            tgt = args[0]
            if isinstance(tgt, Ref):
                ov = tgt.cell.val
                if ov is not None:
                    nv = AdtVal("std::option::Option", 0, {}, None, "None")
                    if tgt.cell.name is not None:
                        st.effects.append(("assign", tgt.cell.name, lab(nv), loc(t)))
                    tgt.cell.val = nv
                    return finish(ov)
        if d == "std::option::Option::<T>::unwrap_or":
            ov = deref_val(args[0])
            if isinstance(ov, AdtVal) and ov.variant == 0:
                return finish(args[1])
            if isinstance(ov, AdtVal) and ov.variant == 1:
                return finish(self.field_cell(ov, 0, None, None).val)
            if isinstance(ov, Opaque):
                # fork on presence, like a match
                s2 = copy.deepcopy(st)
                d2 = self.find_copied_cell(st, s2, dest)
                a2 = self.find_copied_value(st, s2, args[1]) if hasattr(self, "find_copied_value") else copy.deepcopy(args[1])
                d2.val = a2
                s2.conds.append((("variant", ov.label), "None"))
                s2.frames[-1].bb = target
                st.conds.append((("variant", ov.label), "Some"))
                dest.val = Opaque(join_label(ov.label, "Some.0"))
                fr.bb = target
                return [s2]
        if d in ("std::option::Option::<T>::map", "std::option::Option::<T>::and_then", "std::option::Option::<T>::filter"):
            ov = deref_val(args[0])
            mode = "option_" + d.rsplit("::", 1)[1]
            if isinstance(ov, Opaque):
                # fork on presence
                s2 = copy.deepcopy(st)
                d2 = self.find_copied_cell(st, s2, dest)
                d2.val = AdtVal("std::option::Option", 0, {}, None, "None")
                s2.conds.append((("variant", ov.label), "None"))
                s2.frames[-1].bb = target
                st.conds.append((("variant", ov.label), "Some"))
                payload = Opaque(join_label(ov.label, "Some.0"))
                fr.bb = target
                nf = Frame(("<native>", mode), 0)
                nf.locals = [Cell(payload), dest, Cell(args[1])]
                nf.data = {"kinds": ["sink"], "idx": 0, "target": target, "mode": mode, "loc": loc(t), "src": ov.label, "quiet": True, "payload": payload}
                st.frames.append(nf)
                if mode == "option_filter":
                    nf.locals[0] = Cell(Ref(Cell(payload)))
                self.native_advance(st, nf)
                return [s2]
            if isinstance(ov, AdtVal) and ov.variant == 0:
                return finish(AdtVal("std::option::Option", 0, {}, None, "None"))
            if isinstance(ov, AdtVal) and ov.variant == 1:
                fr.bb = target
                nf = Frame(("<native>", mode), 0)
                pay_ = self.field_cell(ov, 0, None, None).val
                nf.locals = [Cell(pay_), dest, Cell(args[1])]
                nf.data = {"kinds": ["sink"], "idx": 0, "target": target, "mode": mode, "loc": loc(t), "src": lab(ov), "quiet": True, "payload": pay_}
                st.frames.append(nf)
                if mode == "option_filter":
                    nf.locals[0] = Cell(Ref(Cell(pay_)))
                return self.native_advance(st, nf)
        if d in ("std::result::Result::<T, E>::map_err", "std::result::Result::<T, E>::map"):
            # the closure runs on the payload of one variant; the other variant passes through unchanged
            ov = deref_val(args[0])
            mode = "result_" + d.rsplit("::", 1)[1]
            hit, miss, hi, mi = ("Err", "Ok", 1, 0) if mode == "result_map_err" else ("Ok", "Err", 0, 1)
            if isinstance(ov, Opaque):
                s2 = copy.deepcopy(st)
                d2 = self.find_copied_cell(st, s2, dest)
                d2.val = AdtVal("std::result::Result", mi, {0: Cell(Opaque(join_label(ov.label, miss + ".0")))}, None, miss)
                s2.conds.append((("variant", ov.label), miss))
                s2.frames[-1].bb = target
                st.conds.append((("variant", ov.label), hit))
                payload = Opaque(join_label(ov.label, hit + ".0"))
                fr.bb = target
                nf = Frame(("<native>", mode), 0)
                nf.locals = [Cell(payload), dest, Cell(args[1])]
                nf.data = {"kinds": ["sink"], "idx": 0, "target": target, "mode": mode, "loc": loc(t), "src": ov.label, "quiet": True, "payload": payload}
                st.frames.append(nf)
                self.native_advance(st, nf)
                return [s2]
            if isinstance(ov, AdtVal) and ov.vname == miss:
                return finish(ov)
            if isinstance(ov, AdtVal) and ov.vname == hit:
                fr.bb = target
                nf = Frame(("<native>", mode), 0)
                pay_ = self.field_cell(ov, 0, None, None).val
                nf.locals = [Cell(pay_), dest, Cell(args[1])]
                nf.data = {"kinds": ["sink"], "idx": 0, "target": target, "mode": mode, "loc": loc(t), "src": lab(ov), "quiet": True, "payload": pay_}
                st.frames.append(nf)
                return self.native_advance(st, nf)
        if d in ("std::result::Result::<T, E>::ok", "std::result::Result::<T, E>::err"):
            ov = deref_val(args[0])
            keep = "Ok" if d.endswith("::ok") else "Err"
            drop = "Err" if keep == "Ok" else "Ok"
            none = AdtVal("std::option::Option", 0, {}, None, "None")
            if isinstance(ov, AdtVal) and ov.vname == keep:
                return finish(AdtVal("std::option::Option", 1, {0: Cell(self.field_cell(ov, 0, None, None).val)}, None, "Some"))
            if isinstance(ov, AdtVal) and ov.vname == drop:
                return finish(none)
            if isinstance(ov, Opaque):
                s2 = copy.deepcopy(st)
                d2 = self.find_copied_cell(st, s2, dest)
                d2.val = none
                s2.conds.append((("variant", ov.label), drop))
                s2.frames[-1].bb = target
                st.conds.append((("variant", ov.label), keep))
                dest.val = AdtVal("std::option::Option", 1, {0: Cell(Opaque(join_label(ov.label, keep + ".0")))}, None, "Some")
                fr.bb = target
                return [s2]
        if d in ADAPTORS:
            kind = ADAPTORS[d]
            fields = {0: Cell(args[0])}
            if len(args) > 1:
                fields[1] = Cell(args[1])
            return finish(AdtVal("iter:" + kind, None, fields))
        if d in ("std::iter::Iterator::for_each", "std::iter::Iterator::try_for_each"):
            return self.start_iteration(st, fr, t, d.rsplit("::", 1)[1], args, dest, target)
        if d == "std::iter::Iterator::next":
            it = deref_val(args[0])
            il = base_label(lab(it))
            if isinstance(il, tuple) and il and il[0] == "iter":
                il = il[1]
            st.counter += 1
            if self.next_hook is not None:
                r = self.next_hook(st, il)
                if r[0] == "stop":
                    # leave the frame at this block so that a resumed copy calls `next` again
                    st.exit = "stopped_at_next"
                    st.ret = ("stopped_at_next", fr.key[0], fr.bb)
                    return None
                if r[0] == "none":
                    return finish(AdtVal("std::option::Option", 0, {}, None, "None"))
                return finish(AdtVal("std::option::Option", 1, {0: Cell(r[1])}, None, "Some"))
            if self.loop_once:
                seen = sum(1 for e in st.effects if e[0] == "next" and e[1] == il) - sum(1 for e in st.effects if e[0] == "next_end" and e[1] == il)
                if seen >= 1:
                    st.effects.append(("next_end", il, loc(t)))
                    return finish(AdtVal("std::option::Option", 0, {}, None, "None"))
                ev = self.on_next(il) if self.on_next is not None else None
                if ev is None:
                    ev = Opaque(("elem", il))
                st.effects.append(("next", il, loc(t)))
                return finish(AdtVal("std::option::Option", 1, {0: Cell(ev)}, None, "Some"))
            ev = self.on_next(il) if self.on_next is not None else None
            if ev is None:
                ev = Opaque(("elem", il))
            self.bump(args[0])
            # fork: exhausted / one more element
            s2 = copy.deepcopy(st)
            d2 = self.find_copied_cell(st, s2, dest)
            d2.val = AdtVal("std::option::Option", 0, {}, None, "None")
            s2.conds.append((("next", il), "None"))
            s2.frames[-1].bb = target
            dest.val = AdtVal("std::option::Option", 1, {0: Cell(ev)}, None, "Some")
            st.conds.append((("next", il), "Some"))
            fr.bb = target
            return [s2]
        if d in ("std::ops::Index::index", "std::ops::IndexMut::index_mut"):
            base = args[0]
            bv = deref_val(base)
            idx = args[1]
            if isinstance(bv, VecVal) and isinstance(idx, AdtVal) and idx.ty.startswith("std::ops::Range"):
                lo = idx.fields[0].val if 0 in idx.fields else None
                hi = idx.fields[1].val if 1 in idx.fields else None
                if isinstance(lo, Const) and isinstance(hi, Const) and idx.ty == "std::ops::Range":
                    if not (0 <= lo.v <= hi.v <= len(bv.elems)):
                        st.exit = "panic"
                        st.ret = ("panic", "range %d..%d out of bounds (len %d)" % (lo.v, hi.v, len(bv.elems)), loc(t))
                        return None
                    return finish(Ref(Cell(VecVal(bv.elems[lo.v:hi.v])), False))
            if isinstance(bv, VecVal) and isinstance(idx, Const) and idx.kind == "int":
                if idx.v >= len(bv.elems):
                    st.exit = "panic"
                    st.ret = ("panic", "index %d out of bounds (len %d)" % (idx.v, len(bv.elems)), loc(t))
                    return None
                return finish(Ref(bv.elems[idx.v], isinstance(base, Ref) and base.mut))
            st.effects.append(("index", lab(bv), lab(idx), loc(t)))
            return finish(Ref(Cell(Opaque(("index", lab(bv), lab(idx)))), False))
        # ---- crate-local function with MIR: inline (a function already on the stack is not
        # unfolded again: the recursive call is recorded as an effect - induction hypothesis)
        if self.may_inline(name) and any(f.key[0] == name for f in st.frames):
            st.effects.append(("recurse", name, tuple(lab(a) for a in args), loc(t)))
            return finish(Opaque(("recurse", name, tuple(lab(a) for a in args)), t["dest"]["ty"]))
        if self.may_inline(name):
            fr.bb = target
            self.push_frame(st, (name, None), args, dest, target)
            return None
        # ---- opaque call
        arg_labels = tuple(lab(a) for a in args)
        sname = short(name)
        pure = name.endswith(PURE_SUFFIXES) or name in self.pure_fns
        if not pure:
            st.effects.append(("call", sname, arg_labels, loc(t)))
            for a in args:
                if isinstance(a, Ref) and a.mut:
                    self.bump(a, havoc=sname)
        l = ("call", sname, arg_labels)
        if self.alias is not None:
            l = self.alias(l)
        res = Opaque(l, t["dest"]["ty"])
        return finish(res)

    # ---- iterator drivers (one generic element per for_each / try_for_each) -------------------------
    def start_iteration(self, st, fr, t, mode, args, dest, target):
        it = deref_val(args[0])
        stages = []
        while isinstance(it, AdtVal) and it.ty.startswith("iter:"):
            kind = it.ty[5:]
            clo = it.fields[1].val if 1 in it.fields else None
            stages.append((kind, clo))
            it = deref_val(it.fields[0].val)
        stages.reverse()
        src = base_label(lab(it))
        if isinstance(src, tuple) and src and src[0] == "iter":
            src = src[1]
        elem = self.on_next(src) if self.on_next is not None else None
        if elem is None:
            elem = Opaque(("elem", src))
        kinds = [k for k, _ in stages]
        st.effects.append(("iterate", mode, src, tuple(kinds), loc(t)))
        nf = Frame(("<native>", mode), 0)
        nf.locals = [Cell(elem), dest] + [Cell(c) for _, c in stages] + [Cell(args[1])]
        nf.data = {"kinds": kinds + ["sink"], "idx": 0, "target": target, "mode": mode, "loc": loc(t), "src": src}
        fr.bb = target
        st.frames.append(nf)
        return self.native_advance(st, nf)

    def native_finish(self, st, nf, value):
        st.frames.pop()
        nf.locals[1].val = value
        if not nf.data.get("quiet"):
            res = "unit"
            if nf.data["mode"] != "for_each":
                v = deref_val(value)
                if isinstance(v, AdtVal) and v.vname in ("Continue", "Some", "Ok"):
                    res = "continue"
                elif isinstance(v, AdtVal) and v.vname in ("Break", "None", "Err"):
                    res = "break"   # the generic element made the iteration stop: later elements are not processed
                else:
                    res = "unknown"
            st.effects.append(("iterate_end", nf.data["mode"], nf.data["src"], nf.data["loc"], res))
        return None

    def native_advance(self, st, nf):
        d = nf.data
        while True:
            kind = d["kinds"][d["idx"]]
            if kind in ("rev", "enumerate", "peekable", "by_ref", "copied", "cloned"):
                d["idx"] += 1
                continue
            break
        clo = nf.locals[2 + d["idx"]].val
        value = nf.locals[0].val
        return self.call_value(st, nf, clo, [value])

    def call_value(self, st, nf, f, cargs):
        """call closure value f with args; result delivered to native_resume"""
        fv = deref_val(f)
        if isinstance(fv, AdtVal) and fv.ty.startswith("closure:") and self.may_inline(fv.ty[8:]):
            cpath = fv.ty[8:]
            body = self.facts.fns[cpath]["body"]
            by_ref = body["locals"][1]["ty"].startswith("&")
            if by_ref:
                env = f if isinstance(f, Ref) and isinstance(f.cell.val, AdtVal) else (f.cell.val if isinstance(f, Ref) and isinstance(f.cell.val, Ref) else Ref(Cell(fv), True))
            else:
                env = fv
            self.push_frame(st, (cpath, None), [env] + cargs, None, None)
            return None
        if isinstance(fv, Const) and fv.kind == "fn" and self.may_inline(fv.v.get("resolved") or fv.v["def"]):
            self.push_frame(st, (fv.v.get("resolved") or fv.v["def"], None), cargs, None, None)
            return None
        if isinstance(fv, Const) and fv.kind == "fn":
            nm = fv.v.get("resolved") or fv.v["def"]
            if (nm in IDENTITY_CALLS or fv.v["def"] in IDENTITY_CALLS) and len(cargs) == 1:
                a = cargs[0]
                return self.native_resume(st, nf, copy_val(a.cell.val) if isinstance(a, Ref) and not nm.endswith(("::deref", "::as_ref", "::as_str")) else a)
        # unknown callable (a caller-supplied callback, or a fn item kept opaque)
        name = (fv.v.get("resolved") or fv.v["def"]) if isinstance(fv, Const) and fv.kind == "fn" else "callback"
        lbl = tuple([lab(fv)] + [lab(a) for a in cargs]) if name == "callback" else tuple(lab(a) for a in cargs)
        st.effects.append(("call", name, lbl, nf.data["loc"]))
        ret = Opaque(("call", name, lbl))
        return self.native_resume(st, nf, ret)

    def native_resume(self, st, nf, ret):
        d = nf.data
        kind = d["kinds"][d["idx"]]
        if kind == "sink":
            if d["mode"] == "for_each":
                return self.native_finish(st, nf, Const("unit", None))
            if d["mode"] == "option_map":
                return self.native_finish(st, nf, AdtVal("std::option::Option", 1, {0: Cell(ret)}, None, "Some"))
            if d["mode"] == "result_map_err":
                return self.native_finish(st, nf, AdtVal("std::result::Result", 1, {0: Cell(ret)}, None, "Err"))
            if d["mode"] == "result_map":
                return self.native_finish(st, nf, AdtVal("std::result::Result", 0, {0: Cell(ret)}, None, "Ok"))
            if d["mode"] == "option_filter":
                rv = deref_val(ret)
                some = AdtVal("std::option::Option", 1, {0: Cell(d["payload"])}, None, "Some")
                none = AdtVal("std::option::Option", 0, {}, None, "None")
                if isinstance(rv, Const) and rv.kind == "bool":
                    return self.native_finish(st, nf, some if rv.v else none)
                # undecided predicate: fork like an `if`
                s2 = copy.deepcopy(st)
                n2 = s2.frames[-1]
                s2.conds.append((lab(rv), False))
                self.native_finish(s2, n2, AdtVal("std::option::Option", 0, {}, None, "None"))
                st.conds.append((lab(rv), True))
                self.native_finish(st, nf, some)
                return [s2]
            return self.native_finish(st, nf, ret)
        if kind == "map":
            nf.locals[0].val = ret
            d["idx"] += 1
            return self.native_advance(st, nf)
        if kind in ("filter_map", "filter"):
            rv = deref_val(ret)
            if kind == "filter_map":
                if isinstance(rv, AdtVal) and rv.variant is not None:
                    if rv.variant == 0:
                        return self.native_finish(st, nf, self.unit_result(d))
                    nf.locals[0].val = self.field_cell(rv, 0, None, None).val
                    d["idx"] += 1
                    return self.native_advance(st, nf)
            else:
                if isinstance(rv, Const) and rv.kind == "bool":
                    if not rv.v:
                        return self.native_finish(st, nf, self.unit_result(d))
                    d["idx"] += 1
                    return self.native_advance(st, nf)
            # undecided filter: fork
            s2 = copy.deepcopy(st)
            n2 = s2.frames[-1]
            label = lab(rv)
            s2.conds.append((("filter", label), False))
            self.native_finish(s2, n2, self.unit_result(n2.data))
            st.conds.append((("filter", label), True))
            if kind == "filter_map":
                nf.locals[0].val = Opaque(join_label(label, "Some.0"))
            d["idx"] += 1
            self.native_advance(st, nf)
            return [s2]
        raise Unsupported("iterator adaptor %s" % kind)

    def unit_result(self, d):
        if d["mode"] == "for_each":
            return Const("unit", None)
        return AdtVal("std::ops::ControlFlow", 0, {0: Cell(Const("unit", None))}, None, "Continue")

    def try_model(self, what, name, args):
        a = args[0]
        CF = "std::ops::ControlFlow"
        if what == "from_output":
            if "ControlFlow" in name:
                return AdtVal(CF, 0, {0: Cell(a)}, None, "Continue")
            if "Option" in name:
                return AdtVal("std::option::Option", 1, {0: Cell(a)}, None, "Some")
            if "Result" in name:
                return AdtVal("std::result::Result", 0, {0: Cell(a)}, None, "Ok")
            return None
        if what == "from_residual" and not (isinstance(a, AdtVal) and a.variant is not None):
            # a residual can only be the failure variant (ControlFlow<B, Infallible>, Option<Infallible>, Result<Infallible, E>)
            if "ControlFlow" in name:
                return AdtVal(CF, 1, {0: Cell(Opaque(join_label(lab(a), "Break.0")))}, None, "Break")
            if "Option" in name:
                return AdtVal("std::option::Option", 0, {}, None, "None")
            if "Result" in name:
                return AdtVal("std::result::Result", 1, {0: Cell(Opaque(("from", join_label(lab(a), "Err.0"))))}, None, "Err")
            return None
        if not (isinstance(a, AdtVal) and a.variant is not None):
            return None
        if what == "branch":
            if "ControlFlow" in name:
                if a.vname == "Continue":
                    return AdtVal(CF, 0, {0: Cell(self.field_cell(a, 0, None, None).val)}, None, "Continue")
                return AdtVal(CF, 1, {0: Cell(AdtVal(CF, 1, {0: Cell(self.field_cell(a, 0, None, None).val)}, None, "Break"))}, None, "Break")
            if "Option" in name:
                if a.vname == "Some":
                    return AdtVal(CF, 0, {0: Cell(self.field_cell(a, 0, None, None).val)}, None, "Continue")
                return AdtVal(CF, 1, {0: Cell(AdtVal("std::option::Option", 0, {}, None, "None"))}, None, "Break")
            if "Result" in name:
                if a.vname == "Ok":
                    return AdtVal(CF, 0, {0: Cell(self.field_cell(a, 0, None, None).val)}, None, "Continue")
                return AdtVal(CF, 1, {0: Cell(AdtVal("std::result::Result", 1, {0: Cell(self.field_cell(a, 0, None, None).val)}, None, "Err"))}, None, "Break")
            return None
        if what == "from_residual":
            if "ControlFlow" in name and a.vname == "Break":
                return AdtVal(CF, 1, {0: Cell(self.field_cell(a, 0, None, None).val)}, None, "Break")
            if "Option" in name and a.vname == "None":
                return AdtVal("std::option::Option", 0, {}, None, "None")
            if "Result" in name and a.vname == "Err":
                return AdtVal("std::result::Result", 1, {0: Cell(Opaque(("from", lab(self.field_cell(a, 0, None, None).val))))}, None, "Err")
        return None

    def bump(self, ref, havoc=None):
        if isinstance(ref, Ref):
            c = ref.cell
            while isinstance(c.val, Ref):
                c = c.val.cell
            v = c.val
            if isinstance(v, Opaque):
                l = v.label
                n = 1
                if isinstance(l, tuple) and l and l[0] == "mut":
                    n = l[2] + 1
                    l = l[1]
                c.val = Opaque(("mut", l, n), v.ty)
            elif isinstance(v, (VecVal, AdtVal)) and havoc is not None:
                # a known value handed out by &mut to an unknown callee is no longer known
                c.val = Opaque(("havoc", havoc, lab(v)))


def decode_bytes(s):
    """body of a Rust byte-string literal (as printed by rustc) -> bytes"""
    out = bytearray()
    i = 0
    esc = {"n": 10, "r": 13, "t": 9, "\\": 92, "0": 0, '"': 34, "'": 39}
    while i < len(s):
        ch = s[i]
        if ch == "\\":
            n = s[i + 1]
            if n == "x":
                out.append(int(s[i + 2:i + 4], 16))
                i += 4
            elif n in esc:
                out.append(esc[n])
                i += 2
            else:
                return None
        else:
            if ord(ch) > 127:
                return None
            out.append(ord(ch))
            i += 1
    return bytes(out)


def decode_fmt_template(b):
    """rustc's compact format_args template: len-prefixed literal pieces (< 0x80), 0xC0 = next
    argument with default formatting, 0x00 = end.  Anything else -> None (fail closed)."""
    out = []
    i = 0
    while i < len(b):
        x = b[i]
        if x == 0:
            return "".join(out) if i == len(b) - 1 else None
        if x == 0xC0:
            out.append("{}")
            i += 1
        elif x < 0x80:
            try:
                out.append(b[i + 1:i + 1 + x].decode("utf-8").replace("{", "{{").replace("}", "}}"))
            except UnicodeDecodeError:
                return None
            i += 1 + x
        else:
            return None
    return None


def iteration_problems(path):
    """early exits hidden by the one-generic-element model: a `for` loop left before its iterator is exhausted
    (break / return inside the body) or a try_for_each whose closure short-circuits on the generic element"""
    out = []
    open_next = []
    for e in path.effects:
        if e[0] == "next":
            open_next.append(e[1])
        elif e[0] == "next_end" and e[1] in open_next:
            open_next.remove(e[1])
        elif e[0] == "iterate_end" and len(e) > 4 and e[4] == "break":
            out.append("the %s over %s stops at this element (its closure short-circuits): elements after it are not processed" % (e[1], fmt_label(e[2])))
    for src in open_next:
        if path.exit == "return":
            out.append("the loop over %s is left before the iterator is exhausted (break / return in the body): elements after this one are not processed" % fmt_label(src))
    return out


def base_label(l):
    while isinstance(l, tuple) and l and l[0] == "mut":
        l = l[1]
    return l


def join_label(base, seg):
    if isinstance(base, str):
        return base + "." + seg
    return ("field", base, seg)


def strip_ref(ty):
    if ty is None:
        return None
    t = ty.strip()
    if t.startswith("&"):
        t = t[1:].strip()
        if t.startswith("'"):
            t = t.split(" ", 1)[1] if " " in t else t
        if t.startswith("mut "):
            t = t[4:]
    return t.strip()


def deref_val(v):
    while isinstance(v, Ref):
        v = v.cell.val
    return v


def short(name):
    return name


def loc(t):
    sp = t.get("span")
    if not sp:
        return None
    return "%s:%d" % (sp["file"], sp["line"])


def struct_eq(a, b):
    """structural equality of two abstract values, None when undecided"""
    a, b = deref_val(a), deref_val(b)
    if isinstance(a, Const) and isinstance(b, Const):
        if a.kind == b.kind:
            return a.v == b.v
        return None
    if isinstance(a, AdtVal) and isinstance(b, AdtVal) and a.variant is not None and b.variant is not None:
        if a.variant != b.variant:
            return False
        keys = set(a.fields) | set(b.fields)
        if not keys:
            # same variant, payload (if any) unknown on both sides: equal only when the variant
            # has no payload at all - caller passes unit variants for comparisons
            return True if a.label is None and b.label is None else (True if not has_payload(a) else None)
        res = True
        for k in keys:
            if k not in a.fields or k not in b.fields:
                return None
            r = struct_eq(a.fields[k].val, b.fields[k].val)
            if r is False:
                return False
            if r is None:
                res = None
        return res
    return None


_PAYLOAD = {}


def has_payload(a):
    # conservatively: unknown -> has payload
    return _PAYLOAD.get((a.ty, a.variant), True)


def register_adts(facts):
    for p, adt in facts.adts.items():
        for v in adt["variants"]:
            _PAYLOAD[(p, v["index"])] = len(v["fields"]) > 0


# ---------------------------------------------------------------------------------------------
# helpers to build symbolic inputs
# ---------------------------------------------------------------------------------------------


def sym(label, ty=None):
    return Opaque(label, ty)


def sym_ref(label, ty=None, mut=False):
    return Ref(Cell(Opaque(label, ty)), mut)


def enum_val(facts, ty, vname, fields=None, label=None):
    adt = facts.adt(ty)
    for v in adt["variants"]:
        if v["name"] == vname:
            return AdtVal(ty, v["index"], dict((i, Cell(x)) for i, x in (fields or {}).items()), label, vname)
    raise KeyError("anchor-missing: variant %s::%s" % (ty, vname))


def struct_val(facts, ty, label, overrides=None):
    adt = facts.adt(ty)
    v = adt["variants"][0]
    fields = {}
    for i, f in enumerate(v["fields"]):
        if overrides and f["name"] in overrides:
            fields[i] = Cell(overrides[f["name"]])
        else:
            fields[i] = Cell(Opaque(join_label(label, f["name"]), f["ty"]))
    if overrides:
        unknown = set(overrides) - set(f["name"] for f in v["fields"])
        if unknown:
            raise KeyError("anchor-missing: fields %s of %s" % (sorted(unknown), ty))
    return AdtVal(ty, None, fields, label)
