"""C13 - a file's result depends only on its own text and the kinds of what it imports."""
import re
from absint import *
from domain import *
from mirlib import callee_info
import cfg
import dataflow
import c05


def leaves(l, out):
    if isinstance(l, tuple):
        for x in l:
            leaves(x, out)
    elif isinstance(l, str):
        out.add(l)
    return out


def run(ctx, rep):
    facts = ctx.mir
    rep.rule("L1", "the per-file closure of validation::validate captures only the shared key -> kind map, by shared reference (nothing mutable leaks between files)")
    rep.rule("L2", "every use of that map reachable from the closure is a keyed lookup (get / contains_key); no iteration, len or is_empty (type-resolved: receiver HashMap<String, ResolvedItemKind>)")
    rep.rule("L3", "entries of the map are (tree.get_key(), tree.item.get_kind()); get_key reads only the package name and the item's name, get_kind only the item's variant")
    rep.rule("L4", "no global state (statics, thread-locals, interior mutability)")
    clo = None
    for c in facts.closures_of("validation::validate"):
        if cfg.call_sites(facts.fns[c]["body"], lambda x: x == "validation::check_methods"):
            clo = c
    if clo is None:
        rep.fail("L1", "C13|L1|anchor-missing", None, "per-file closure not found")
        return
    cf = facts.fns[clo]
    caps = [(c["name"], c["by"]) for c in cf["captures"]]
    ok = len(caps) == 1 and caps[0][1].startswith("ByRef(Immutable") and "HashMap<std::string::String, ast::ResolvedItemKind>" in cf["captures"][0]["ty"]
    rep.check(ok, "L1", "C13|L1|captures", cfg.where(cf), "the per-file closure must capture only the key -> kind map by shared reference; captures: %r" % (caps,), sample={"captures": caps})
    # closure parameter: one (id, result) entry - its own file
    rep.check(cf["body"]["arg_count"] == 2, "L1", "C13|L1|params", cfg.where(cf), "the per-file closure takes exactly one entry (id, result)")
    # ---- L2
    reach, _ = dataflow.reachable_fns(facts, [clo])
    uses = []
    for p in sorted(reach):
        f = facts.fns[p]
        for b in f["body"]["blocks"]:
            t = b["term"]
            if b["cleanup"] or t["k"] != "call":
                continue
            ci = callee_info(t)
            if not ci:
                continue
            self_ty = ci.get("resolved_impl_self") or ""
            args = ci.get("resolved_args") or ci.get("args") or []
            a0 = (ci.get("args") or [""])[0]
            is_defined_map = (self_ty.startswith("std::collections::HashMap") and args[:2] == ["std::string::String", "ast::ResolvedItemKind"]) or \
                re.search(r"HashMap<std::string::String, ast::ResolvedItemKind", a0) is not None
            if is_defined_map:
                name = ci.get("resolved") or ci["def"]
                uses.append((p, name.rsplit("::", 1)[1], cfg.where(f, t)))
    rep.floor("L2", "uses of the key -> kind map reachable from the per-file closure", len(uses), 2)
    for p, meth, where in uses:
        rep.check(meth in ("get", "contains_key"), "L2", "C13|L2|%s|%s" % (p, meth), where,
                  "the shared key -> kind map may only be consulted by keyed lookup; `%s` in %s makes a file's result depend on unrelated files" % (meth, p),
                  sample={"fn": p, "method": meth})
    # keys of the lookups come from the file's own imports: C05 rule D (matched import path) and C06 rule L (entry of the file's import map)
    # ---- L3
    c05.builtin_tables(ctx, rep, "C13")
    fk = facts.fn("ast::Aidl::get_key")
    paths = Machine(facts).run("ast::Aidl::get_key", [sym_ref("self")])
    for p in paths:
        lv = set(x for x in leaves(lab(p.ret), set()) if x.startswith("self."))
        ok = all(x == "self.package.name" or re.match(r"self\.item\.[A-Za-z]+\.0\.name$", x) for x in lv) and "self.package.name" in lv and len(lv) == 2 and not p.effects
        rep.check(ok, "L3", "C13|L3|get_key|%s" % ",".join(v for _, v in p.conds), cfg.where(fk), "get_key must read only the package name and the item's name; reads %r" % (sorted(lv),), sample={"reads": sorted(lv)})
    rep.floor("L3", "paths of get_key", len(paths), 3)
    # ---- L4
    rep.check(not facts.statics, "L4", "C13|L4|statics", None, "no statics in the crate")
    from c11 import INTERIOR
    bad = []
    for path, adt in facts.adts.items():
        if "::_::" in path:
            continue
        for v in adt["variants"]:
            for fl in v["fields"]:
                if INTERIOR.search(fl["ty"]):
                    bad.append("%s.%s" % (path, fl["name"]))
    rep.check(not bad, "L4", "C13|L4|interior", None, "interior mutability in %r" % (bad,))
    rep.rule("B/D", "inherits C05 B/D: the project-wide key -> kind map is consulted only under the key of an import the file itself names (a lookup under the written name would make the result depend on files the file does not import)")
    c05.resolve_type_rules(ctx, rep, "C13")
    # ---- A6 inherited from C11: a choice made in hash order inside the per-file pipeline makes a file's result depend on something else than its text and its imports' kinds
    rep.rule("A6", "inherits C11 A6 for the functions reachable from validation::validate (hash-ordered choices must be unique choices)")
    import c11
    import core as _core
    r11 = _core.Report("C11")
    c11.run(ctx, r11)
    n6 = 0
    for v in r11.violations:
        if v.rule == "A6" and "parser::Parser" not in v.key:
            n6 += 1
            rep.fail("A6", v.key.replace("C11|", "C13|", 1), v.where, v.message, witness=v.witness)
    if not n6:
        rep.ok("A6", "no unclassified hash-ordered choice in validation (C11 A6: %d instances)" % r11.counts.get("A6", 0), {"instances": r11.counts.get("A6", 0)})
    rep.rule("H3", "inherits C12 H3: what add_content stores under an id is built only from the text given in that call (a replaced id keeps nothing of its previous content)")
    import c12
    c12.add_content_rule(ctx, rep, "C13", "H3")
    import pipeline
    pipeline.rule(ctx, rep, "C13", ['resolve_types', 'check_imports', 'check_declared_parcelables', 'check_containers', 'set_up_oneway_interface', 'check_methods'])
    rep.assumptions += ["TB-1 rustc MIR", "TB-3 HashMap get / contains_key depend only on the key and the entry stored under it"]
    rep.not_decided.append("which file wins when two define the same key (C11 known finding)")
