"""C03 - syntax verdicts agree with the grammar; failure is never silent."""
from absint import *
from domain import *
from mirlib import callee_info
import cfg
import common_g
import lexical
import langdiff
import dataflow


def run(ctx, rep):
    facts = ctx.mir
    rep.rule("A10", "lexical agreement on DFAs: every token class equals its reference language; ties resolved as in the reference; every keyword / reserved word is matched in full by a class that outranks IDENT and nothing else is taken from IDENT")
    rep.rule("A10.vi", "exact tokenizer comparison under the runtime's real matching semantics (each pattern matched leftmost-first by the regex crate, longest overall match wins, ties by priority): the class of every string equals the reference's")
    rep.rule("A11", "syntactic agreement: bounded exploration of the product of the LR automata of the current grammar and of spec/aidl_ref.lalrpop (both built by lalrpop's own front-end), with and without recovery alternatives")
    rep.rule("S1", "every recovery alternative converts the recovered error, pushes the diagnostic and yields Ok(None)")
    rep.rule("S2-S4", "from_parse_error tabulated over the ParseError variants: an Error for InvalidToken / UnrecognizedEOF / UnrecognizedToken / ExtraToken, None only for User; no user action produces a User error; from_error_recovery keeps kind")
    rep.rule("S5", "add_content: every path of the Err branch converts the error, pushes it and stores no tree; a tree-less Ok result can only come from the recovery alternative of OptItem")
    rep.rule("S6", "append-only: every call applied to a Vec<Diagnostic> in code reachable from validation is push / sort_by_key / sort_by / clone / iteration; results keep `diagnostics` from the stored result")
    rep.rule("N1", "every stored user identifier originates from an IDENT token (wiring), and IDENT never matches a keyword (A10.iv)")
    lexical.rules(ctx, rep, "C03", {"classes", "priority", "keywords", "finite", "tokenizer"})
    bound = 26 if ctx.tier == "thorough" else 22
    langdiff.rule(ctx, rep, "C03", bound)
    n, stats = common_g.emit(ctx, rep, "C03", {"recovery"}, "S1")
    rep.floor("S1", "recovery alternatives", n, 4)
    n, _ = common_g.emit(ctx, rep, "C03", {"ident"}, "N1")
    rep.floor("N1", "user identifier fields traced to IDENT", n, 12)
    # ---- S2
    FPE = "diagnostic::Diagnostic::from_parse_error"
    ff = facts.fn(FPE)
    paths = Machine(facts, opaque_fns=["diagnostic::expected_token_str", "ast::Range::new"], pure_fns=["diagnostic::expected_token_str", "ast::Range::new"]).run(FPE, [sym_ref("lookup"), Opaque("e", "lalrpop_util::ParseError")])
    seen = {}
    for p in paths:
        var = [v for l, v in p.conds if isinstance(l, tuple) and l[0] == "variant" and l[1] == "e"]
        r = deref_val(p.ret)
        if isinstance(r, AdtVal) and r.vname == "Some":
            d = deref_val(r.fields[0].val)
            seen[var[0]] = d.fields[0].val.vname if isinstance(d, AdtVal) and isinstance(d.fields[0].val, AdtVal) else "?"
        else:
            seen[var[0] if var else "?"] = None
    want = {"InvalidToken": "Error", "UnrecognizedEOF": "Error", "UnrecognizedToken": "Error", "ExtraToken": "Error", "User": None}
    rep.check(seen == want, "S2", "C03|S2|from_parse_error", cfg.where(ff), "from_parse_error must turn every lexer / parser failure into an Error diagnostic (None only for User errors); extracted %r" % (seen,), sample={"table": seen})
    # ---- S3: no user action builds an Err / ParseError::User
    acts = [p for p in facts.fns if p.startswith("rules::aidl::__action")]
    bad = []
    for a in acts:
        for b in facts.fns[a]["body"]["blocks"]:
            for s in b["stmts"]:
                if s["k"] == "assign" and s["rv"]["k"] == "aggregate" and s["rv"].get("agg") == "adt":
                    if (s["rv"]["adt"] == "std::result::Result" and s["rv"]["variant_name"] == "Err") or (s["rv"]["adt"].endswith("ParseError") and s["rv"]["variant_name"] == "User"):
                        bad.append(a)
    rep.check(not bad, "S3", "C03|S3|no-user-errors", None, "no grammar action may fail with a User error (they would be dropped by from_parse_error): %r" % (bad,), sample={"actions scanned": len(acts)})
    rep.floor("S3", "grammar action bodies scanned", len(acts), 150)
    recovery_keeps_range(ctx, rep, "C03")
    # ---- S5 add_content
    import c12
    P = c12.P
    pa = Machine(facts, opaque_fns=[FPE]).run(P + "add_content", [sym_ref("self", mut=True), Opaque("id"), sym_ref("content")])
    okerr = True
    n_err = 0
    for p in pa:
        ins = [e for e in p.effects if e[0] == "call" and e[1].endswith("::insert")]
        if not ins:
            okerr = False
            continue
        val = ins[-1][2][2]
        fl = dict(val[3]) if isinstance(val, tuple) and val[0] == "adt" else {}
        astf = fl.get(1)
        if any(v == "Err" for l, v in p.conds):
            conv = [v for l, v in p.conds if isinstance(l, tuple) and l[0] == "variant" and FPE in fmt_label(l)]
            pushes = [e for e in p.effects if e[0] == "push"]
            n_err += 1
            if conv == ["Some"]:
                okerr = okerr and len(pushes) == 1 and astf == ("adt", "std::option::Option", "None", ())
            elif conv == ["None"]:
                okerr = okerr and astf == ("adt", "std::option::Option", "None", ())
            else:
                # a failure path on which the error was not even converted (e.g. only "when nothing was reported yet"):
                # the file would be tree-less with whatever the recovery actions happened to push - possibly no Error
                okerr = False
        else:
            okerr = okerr and isinstance(astf, tuple) and astf[0] == "field" and astf[2] == "Ok.0"
    rep.check(okerr and n_err >= 1, "S5", "C03|S5|add_content", cfg.where(facts.fn(P + "add_content")),
              "add_content: a parse failure stores no tree and on EVERY failure path converts the error with from_parse_error and appends it (unconditionally - not only when nothing was reported before); a successful parse stores exactly what the parser returned")
    # None of Option<ast::Aidl> from a successful parse: only the OptAidl action, only when OptItem is None; None of Option<Item>: only the recovery alternative (wiring rules)
    append_only_rule(ctx, rep, "C03")
    c12.inherit_h7(ctx, rep, "C03")   # "which validation never drops": also not after validation::validate returned
    rep.assumptions += ["TB-2 lalrpop: generated tables == grammar; recovery reports the errors it swallowed", "TB-1 rustc MIR", "TB-4 tabulator", "A11 is bounded: equality of the two languages up to N tokens"]
    rep.not_decided.append("language equality beyond the token bound of A11")


def recovery_keeps_range(ctx, rep, prop):
    """S4 (shared with C11): from_error_recovery only rewrites the message of the converted diagnostic"""
    facts = ctx.mir
    import c20
    tb = c20.recovery_table(facts)
    ok = tb["ok"]
    if ok:
        base = tb["base"]
        ok = all(tb["fields"].get(nm) in (("field", base, nm), join_label(base, nm)) for nm in ("kind", "range"))
    rep.check(ok, "S4", "%s|S4|recovery-keeps-kind" % prop, cfg.where(facts.fn(c20.FER)), "from_error_recovery must keep the kind and range of the converted diagnostic (%s)" % (tb["detail"] or "kind %s, range %s" % (
        fmt_label(tb["fields"].get("kind"))[:100], fmt_label(tb["fields"].get("range"))[:100])))


def append_only_rule(ctx, rep, prop):
    """S6: validation only appends to (and finally sorts) the diagnostics; results keep the stored vector"""
    facts = ctx.mir
    reach, _ = dataflow.reachable_fns(facts, ["validation::validate"])
    allowed = ("push", "sort_by_key", "sort_by", "clone", "iter", "len", "is_empty", "new", "deref", "deref_mut", "as_slice", "as_mut_slice", "from", "drop_in_place")
    n = 0
    for pth in sorted(reach):
        f = facts.fns[pth]
        for b in f["body"]["blocks"]:
            t = b["term"]
            if b["cleanup"] or t["k"] != "call":
                continue
            ci = callee_info(t)
            if not ci:
                continue
            args = " ".join(ci.get("args") or []) + " " + (ci.get("resolved_impl_self") or "")
            rargs = ci.get("resolved_args") or []
            is_diag_vec = ("Vec<diagnostic::Diagnostic" in args) or ("[diagnostic::Diagnostic]" in args) or ((ci.get("resolved_impl_self") or "").startswith("std::vec::Vec") and rargs[:1] == ["diagnostic::Diagnostic"]) \
                or (((ci.get("resolved_impl_self") or "") == "[T]") and rargs[:1] == ["diagnostic::Diagnostic"])
            if not is_diag_vec:
                continue
            name = (ci.get("resolved") or ci["def"]).rsplit("::", 1)[1]
            n += 1
            rep.check(name in allowed, "S6", "%s|S6|%s|%s" % (prop, pth, name), cfg.where(f, t),
                      "`%s` is applied to a vector of diagnostics in %s: validation may only append (and finally sort) - it must never drop a stored syntax Error" % (name, pth),
                      sample={"fn": pth, "call": name})
    rep.floor("S6", "calls on Vec<Diagnostic> reachable from validation", n, 20)
    # struct update: ParseFileResult aggregates in the per-file closure take diagnostics from fr
    clo = None
    for c in facts.closures_of("validation::validate"):
        if cfg.call_sites(facts.fns[c]["body"], lambda x: x == "validation::check_methods"):
            clo = c
    okd = False
    if clo:
        from closures import run_closure
        entry = AdtVal("tuple", None, {0: Cell(Opaque("ID")), 1: Cell(Opaque("fr", "parser::ParseFileResult<ID>"))})
        ops = ["validation::resolve_types", "validation::check_imports", "validation::check_declared_parcelables", "validation::check_containers", "validation::set_up_oneway_interface", "validation::check_methods"]
        cp, _ = run_closure(facts, clo, {"defined": sym_ref("defined")}, [entry], opaque_fns=ops, lenient=True)   # what the closure captures is C13's / rule PL's business
        okd = len(cp) >= 2
        for p in cp:
            r = p.ret
            if not (isinstance(r, AdtVal) and r.ty == "tuple"):
                okd = False
                continue
            res = r.fields[1].val
            # the result is a ParseFileResult aggregate (struct update) or the entry's own value with `ast` re-assigned:
            # a field that was never written still is the entry's field
            names = [fl["name"] for fl in facts.adts["parser::ParseFileResult"]["variants"][0]["fields"]]

            def fld(i):
                if isinstance(res, AdtVal) and i in res.fields:
                    return lab(res.fields[i].val)
                if isinstance(res, AdtVal) and res.label is not None:
                    return join_label(res.label, names[i])
                return None
            dg = base_label(fld(2)) if fld(2) is not None else None
            idl = fld(0)
            okd = okd and lab(r.fields[0].val) == "ID" and idl == "fr.id" and dg is not None and "fr.diagnostics" in fmt_label(dg)
            sorts = [e for e in p.effects if e[0] == "call" and "sort" in e[1]]
            other = [e for e in p.effects if e[0] == "call" and e[1] not in ops and "sort" not in e[1] and "fr.diagnostics" in fmt_label(e[2])]
            okd = okd and not other
    rep.check(okd, "S6", "%s|S6|struct-update" % prop, cfg.where(facts.fn(clo)) if clo else None,
              "every result built by the per-file closure (with and without a tree) carries the id of its entry and the stored diagnostics vector (only appended to / sorted)")
