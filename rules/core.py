"""Framework: fact extraction (per tree hash), obligations, violations, known findings, evidence."""
import fcntl
import hashlib
import json
import os
import shutil
import subprocess
import sys
import time
import uuid

VERIF = os.path.dirname(os.path.dirname(os.path.abspath(__file__)))
WORK = os.path.join(VERIF, ".work")
TOOLS = os.path.join(WORK, "tools-target")
MIRFACTS = os.path.join(TOOLS, "mirfacts", "release", "mirfacts")
GRAMFACTS = os.path.join(TOOLS, "gramfacts", "release", "gramfacts")
SRCFACTS = os.path.join(TOOLS, "srcfacts", "release", "srcfacts")


def repo_dir():
    return os.environ.get("VERIF_REPO", "/repo")


def tree_hash(repo):
    h = hashlib.sha256()
    files = ["Cargo.toml", "Cargo.lock"]
    for root, dirs, fs in os.walk(os.path.join(repo, "src")):
        dirs.sort()
        for f in sorted(fs):
            files.append(os.path.relpath(os.path.join(root, f), repo))
    for f in files:
        p = os.path.join(repo, f)
        h.update(f.encode())
        h.update(b"\0")
        try:
            with open(p, "rb") as fh:
                h.update(fh.read())
        except IOError:
            h.update(b"<missing>")
        h.update(b"\0")
    h.update(os.path.abspath(repo).encode())
    # facts also depend on the extractors themselves
    for tool in (MIRFACTS, GRAMFACTS, SRCFACTS):
        try:
            st = os.stat(tool)
            h.update(("%s:%d:%d" % (tool, st.st_size, int(st.st_mtime))).encode())
        except OSError:
            h.update(b"<no tool>")
    return h.hexdigest()[:24]


def nightly_sysroot():
    return subprocess.check_output(["rustc", "+nightly", "--print", "sysroot"]).decode().strip()


class ExtractionError(Exception):
    pass


def run(cmd, cwd=None, env=None, stdin=None, timeout=1200):
    p = subprocess.run(cmd, cwd=cwd, env=env, input=stdin, stdout=subprocess.PIPE, stderr=subprocess.PIPE, timeout=timeout)
    return p.returncode, p.stdout.decode("utf-8", "replace"), p.stderr.decode("utf-8", "replace")


def extract_mir(repo, out):
    nonce = uuid.uuid4().hex
    target = os.path.join(WORK, "mir-target")
    # cargo's freshness cache would skip the wrapper: drop the crate's fingerprints
    fp = os.path.join(target, "debug", ".fingerprint")
    if os.path.isdir(fp):
        for d in os.listdir(fp):
            if d.startswith("aidl-parser-"):
                shutil.rmtree(os.path.join(fp, d), ignore_errors=True)
    env = dict(os.environ)
    env.update({
        "LD_LIBRARY_PATH": os.path.join(nightly_sysroot(), "lib"),
        "RUSTFLAGS": "-Zmir-opt-level=0 -Awarnings -Zallow-features=",
        "RUSTC_WORKSPACE_WRAPPER": MIRFACTS,
        "MIRFACTS_OUT": out,
        "MIRFACTS_NONCE": nonce,
        "MIRFACTS_SKIP": "rules::aidl::__parse__,rules::aidl::__intern_token,::_::",
        "CARGO_TARGET_DIR": target,
        "CARGO_NET_OFFLINE": "true",
    })
    if os.path.exists(out):
        os.remove(out)
    rc, so, se = run(["cargo", "+nightly", "check", "--offline", "--lib"], cwd=repo, env=env)
    if rc != 0:
        raise ExtractionError("cargo +nightly check failed in %s:\n%s" % (repo, se[-4000:]))
    if not os.path.exists(out):
        raise ExtractionError("mirfacts did not write %s (wrapper skipped?)" % out)
    with open(out) as fh:
        d = json.load(fh)
    if d.get("nonce") != nonce:
        raise ExtractionError("stale MIR fact file (nonce mismatch)")
    # location of the generated parser (for cross checks)
    return d


def extract_gram(repo, out):
    g = os.path.join(repo, "src", "aidl.lalrpop")
    rc, so, se = run([GRAMFACTS, "facts", g, "--lock", os.path.join(repo, "Cargo.lock")])
    if rc != 0:
        raise ExtractionError("gramfacts failed: %s" % se[-2000:])
    with open(out, "w") as fh:
        fh.write(so)


def extract_src(repo, out):
    rc, so, se = run([SRCFACTS, os.path.join(repo, "src")])
    if rc != 0:
        raise ExtractionError("srcfacts failed: %s" % se[-2000:])
    with open(out, "w") as fh:
        fh.write(so)


def ensure_facts(repo=None, force=False):
    """Return the directory with mir.json / gram.json / src.json for the current tree state."""
    repo = repo or repo_dir()
    os.makedirs(os.path.join(WORK, "facts"), exist_ok=True)
    lock_path = os.path.join(WORK, "facts.lock")
    with open(lock_path, "w") as lock:
        fcntl.flock(lock, fcntl.LOCK_EX)
        h = tree_hash(repo)
        d = os.path.join(WORK, "facts", h)
        done = os.path.join(d, "DONE")
        if force or not os.path.exists(done):
            # extract into a scratch directory and move the files into place one by one (atomic renames): a check that
            # is reading this tree's facts in parallel (same hash = same content) never sees a missing or half-written file
            tmp = os.path.join(WORK, "facts", ".tmp-%s-%s" % (h, uuid.uuid4().hex[:8]))
            os.makedirs(tmp)
            try:
                t0 = time.time()
                extract_mir(repo, os.path.join(tmp, "mir.json"))
                if os.path.exists(GRAMFACTS):
                    extract_gram(repo, os.path.join(tmp, "gram.json"))
                extract_src(repo, os.path.join(tmp, "src.json"))
                # the tree must not have changed while we were extracting
                if tree_hash(repo) != h:
                    raise ExtractionError("tree changed during extraction")
                os.makedirs(d, exist_ok=True)
                for fn in os.listdir(tmp):
                    os.replace(os.path.join(tmp, fn), os.path.join(d, fn))
                with open(done + ".tmp", "w") as fh:
                    fh.write("%.1f\n" % (time.time() - t0))
                os.replace(done + ".tmp", done)
            finally:
                shutil.rmtree(tmp, ignore_errors=True)
            prune_facts(keep=16, current=h)
        else:
            try:
                os.utime(d, None)   # in use: keep it away from pruning
            except OSError:
                pass
        return d


def prune_facts(keep, current):
    base = os.path.join(WORK, "facts")
    ds = [os.path.join(base, x) for x in os.listdir(base) if os.path.isdir(os.path.join(base, x))]
    ds.sort(key=lambda p: os.path.getmtime(p), reverse=True)
    now = time.time()
    for p in ds[keep:]:
        # never a directory that was used in the last 20 minutes (another check may be reading it) nor the current one
        if os.path.basename(p) != current and now - os.path.getmtime(p) > 1200:
            shutil.rmtree(p, ignore_errors=True)


# ---------------------------------------------------------------------------------------------
# obligations / violations
# ---------------------------------------------------------------------------------------------


class Violation(object):
    def __init__(self, rule, key, where, message, detail=None, witness=None):
        self.rule = rule
        self.key = key  # line-free
        self.where = where
        self.message = message
        self.detail = detail
        self.witness = witness

    def to_json(self):
        return {"rule": self.rule, "key": self.key, "where": self.where, "message": self.message,
                "detail": self.detail, "witness": self.witness}


class Report(object):
    """Collects obligations (each either discharged or a violation) for one property."""

    def __init__(self, prop):
        self.prop = prop
        self.obligations = 0
        self.discharged = 0
        self.violations = []
        self.samples = []
        self.counts = {}
        self.rules = []
        self.assumptions = []
        self.not_decided = []
        self.analysed = {}
        self.exhaustive = False  # set by a property module when it enumerated the finite space the property quantifies over

    def rule(self, rid, text):
        self.rules.append("%s: %s" % (rid, text))

    def ok(self, rule, what, sample=None):
        self.obligations += 1
        self.discharged += 1
        self.counts[rule] = self.counts.get(rule, 0) + 1
        if sample is not None and sum(1 for s in self.samples if s.get("rule") == rule) < 3:
            self.samples.append({"rule": rule, "obligation": what, "evidence": sample})

    def fail(self, rule, key, where, message, detail=None, witness=None):
        if any(v.key == key for v in self.violations):
            return  # one report per construct
        self.obligations += 1
        self.counts[rule] = self.counts.get(rule, 0) + 1
        self.violations.append(Violation(rule, key, where, message, detail, witness))

    def check(self, cond, rule, key, where, message, detail=None, witness=None, sample=None):
        if cond:
            self.ok(rule, message if sample is None else key, sample)
        else:
            self.fail(rule, key, where, message, detail, witness)
        return cond

    def floor(self, rule, what, count, minimum):
        """fail closed when a rule matched fewer instances than confirmed by hand"""
        self.analysed[what] = count
        if count < minimum:
            self.fail(rule, "%s|anchor-missing|%s" % (rule, what), None,
                      "rule %s matched %d instance(s) of `%s`, floor is %d: the anchor moved or vanished; "
                      "the rule cannot pass vacuously" % (rule, count, what, minimum))
            return False
        self.ok(rule + ".floor", "%s: %d >= %d" % (what, count, minimum))
        return True


def load_known(prop):
    p = os.path.join(VERIF, "known_findings.jsonl")
    known = {}
    if os.path.exists(p):
        for line in open(p):
            line = line.strip()
            if not line or line.startswith("#"):
                continue
            e = json.loads(line)
            if e.get("property") == prop and e.get("status") == "known":
                known[e["key"]] = e
    return known


def finish(report, tier, t0, level="other", explanation=""):
    prop = report.prop
    known = load_known(prop)
    new = []
    known_hits = []
    for v in report.violations:
        if v.key in known:
            known_hits.append(v)
        else:
            new.append(v)
    rep_dir = os.path.join(VERIF, "reports", prop)
    os.makedirs(rep_dir, exist_ok=True)
    for v in known_hits:
        print("KNOWN-FINDING: property=%s %s [%s] %s" % (prop, v.key, v.where or "-", known[v.key].get("what", v.message)))
    for v in new:
        hid = hashlib.sha256(v.key.encode()).hexdigest()[:12]
        path = os.path.join(rep_dir, hid + ".json")
        with open(path, "w") as fh:
            json.dump({"property": prop, "tier": tier, **v.to_json()}, fh, indent=1)
        print("VIOLATION property=%s replay=%s" % (prop, path))
        print("  rule=%s key=%s" % (v.rule, v.key))
        print("  where=%s" % (v.where,))
        print("  %s" % (v.message,))
        if v.witness:
            print("  witness: %s" % (json.dumps(v.witness)[:600],))
    ev = {
        "property_id": prop,
        "tier": tier,
        "seed": int(os.environ.get("VERIF_SEED", "0") or 0),
        "level": level,
        "coverage": {
            "explanation": explanation,
            "rules": report.rules,
            "obligations": report.obligations,
            "discharged": report.discharged,
            "rule_instances": report.counts,
            "analysed": report.analysed,
            "samples": report.samples[:40],
            "known_findings_reported": [v.key for v in known_hits],
            "not_decided": report.not_decided,
            "exhaustive": bool(report.exhaustive),
            "repo": repo_dir(),
            "tree_hash": tree_hash(repo_dir()),
        },
        "assumptions": report.assumptions,
        "wall_s": round(time.time() - t0, 2),
        "violations": len(new),
    }
    os.makedirs(os.path.join(VERIF, "evidence"), exist_ok=True)
    with open(os.path.join(VERIF, "evidence", prop + ".json"), "w") as fh:
        json.dump(ev, fh, indent=1, sort_keys=True)
    print("%s %s: %d obligations, %d discharged, %d known finding(s), %d violation(s), %.1fs" % (
        prop, tier, report.obligations, report.discharged, len(known_hits), len(new), time.time() - t0))
    return 1 if new else 0
