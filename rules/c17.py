"""C17 - an item's qualified name is the key that references to it resolve to."""
from absint import *
from domain import *
from tables import symbol_values
import cfg
import c05

GQN = "symbol::Symbol::<'a>::get_qualified_name"
GN = "symbol::Symbol::<'a>::get_name"

ITEMS = ("Interface", "Parcelable", "Enum")
MEMBERS = ("Method", "Const", "Field", "EnumElement")


def fmt_parts(l):
    """('fmt', template, args) -> (template, [arg labels]) ; plain label -> (None, [label])"""
    if isinstance(l, tuple) and l and l[0] == "fmt" and len(l) == 3:
        args = []
        for a in l[2]:
            if isinstance(a, tuple) and a[0] == "fmtarg" and a[1] == "display":
                args.append(a[2])
            else:
                args.append(("nondisplay", a))
        return l[1], args
    return None, [l]


def some_payload(v):
    v = deref_val(v)
    if isinstance(v, AdtVal) and v.vname == "Some":
        return lab(v.fields[0].val)
    if isinstance(v, AdtVal) and v.vname == "None":
        return "None"
    return ("raw", lab(v))


def owner_name(l):
    """normalise `owner.name` / `owner.Interface.0.name` (ConstOwner) to 'owner.name'"""
    if isinstance(l, str) and l.startswith("owner.") and l.endswith(".name"):
        return "owner.name"
    return l


def run(ctx, rep):
    facts = ctx.mir
    rep.rule("N1", "sibling agreement: Symbol::{Interface,Parcelable,Enum}.get_qualified_name() = format!(T, package.name, item.name) with the very template T and argument roles of Aidl::get_key(), and T = \"{}.{}\"")
    rep.rule("N2", "member symbols: format!(\"{}::{}\", owner.name, member.name)")
    rep.rule("N3", "package -> its name; import -> path.name (name alone for an empty path)")
    rep.rule("N4", "type symbol resolved to an item -> the stored key; any other type -> None")
    rep.rule("N5", "the stored key is the import path under which the project map answered, and the map's keys are get_key() values (C05 rules C, D re-evaluated)")
    rep.rule("N6", "get_name: the node's own name for every symbol kind (import: its qualified name; argument: its optional name)")
    fq = facts.fn(GQN)
    syms = symbol_values(facts)
    rep.floor("N1", "Symbol variants", len(syms), 11)
    # key template
    kp = Machine(facts).run("ast::Aidl::get_key", [sym_ref("self")])
    key_tpls = set()
    for p in kp:
        t, a = fmt_parts(lab(p.ret))
        roles = ["package" if x == "self.package.name" else ("item" if isinstance(x, str) and x.startswith("self.item.") and x.endswith(".name") else "?") for x in a]
        key_tpls.add((t, tuple(roles)))
    rep.check(key_tpls == {("{}.{}", ("package", "item"))}, "N1", "C17|N1|get_key", cfg.where(facts.fn("ast::Aidl::get_key")),
              "Aidl::get_key must be format!(\"{}.{}\", package.name, item name) for every item kind; extracted %r" % (sorted(key_tpls),), sample={"get_key": sorted(key_tpls)})
    table = {}
    for vname, sv in syms:
        paths = Machine(facts).run(GQN, [Ref(Cell(sv))])
        outs = []
        for p in paths:
            pl = some_payload(p.ret)
            t, a = fmt_parts(pl)
            outs.append((t, [owner_name(x) for x in a], dict((fmt_label(l), v) for l, v in p.conds)))
        table[vname] = outs
    for vname in ITEMS:
        outs = table.get(vname, [])
        ok = len(outs) == 1 and outs[0][0] == "{}.{}" and outs[0][1] == ["owner.name", "node.name"] and len(key_tpls) == 1 and list(key_tpls)[0][0] == outs[0][0]
        rep.check(ok, "N1", "C17|N1|%s" % vname, cfg.where(fq),
                  "Symbol::%s qualified name must be format!(\"{}.{}\", package.name, item.name), the same template as Aidl::get_key (%r); extracted template %r with arguments %r" % (
                      vname, sorted(key_tpls), outs[0][0] if outs else None, outs[0][1] if outs else None),
                  witness="package p.q; enum E { A } -> qualified name would not be `p.q.E`" if vname == "Enum" else None,
                  sample={"variant": vname, "template": outs[0][0] if outs else None, "args": outs[0][1] if outs else None})
    for vname in MEMBERS:
        outs = table.get(vname, [])
        ok = len(outs) >= 1 and all(o[0] == "{}::{}" and o[1] == ["owner.name", "node.name"] for o in outs)
        rep.check(ok, "N2", "C17|N2|%s" % vname, cfg.where(fq), "Symbol::%s qualified name must be format!(\"{}::{}\", owner.name, member.name); extracted %r" % (vname, [(o[0], o[1]) for o in outs]),
                  sample={"variant": vname, "template": outs[0][0] if outs else None, "args": outs[0][1] if outs else None})
    # N3
    outs = table.get("Package", [])
    rep.check(len(outs) == 1 and outs[0][:2] == (None, ["node.name"]), "N3", "C17|N3|Package", cfg.where(fq), "Symbol::Package qualified name must be the package name; extracted %r" % (outs,))
    outs = table.get("Import", [])
    okimp = len(outs) == 2
    for t, a, c in outs:
        empty = [v for k, v in c.items() if "is_empty" in k and "node.path" in k]
        if empty == [True]:
            okimp = okimp and (t, a) == (None, ["node.name"])
        elif empty == [False]:
            okimp = okimp and (t, a) == ("{}.{}", ["node.path", "node.name"])
        else:
            okimp = False
    rep.check(okimp, "N3", "C17|N3|Import", cfg.where(fq), "Symbol::Import qualified name must be `path.name`, or the name alone when the path is empty; extracted %r" % (outs,), sample={"import": [(o[0], o[1]) for o in outs]})
    # N4
    outs = table.get("Type", [])
    okt = len(outs) >= 2
    n_some = 0
    for t, a, c in outs:
        kind = [v for k, v in c.items() if "node.kind" in k]
        if kind == ["ResolvedItem"]:
            n_some += 1
            okt = okt and (t, a) == (None, ["node.kind.ResolvedItem.0"])
        else:
            okt = okt and (t, a) == (None, ["None"])
    rep.check(okt and n_some == 1, "N4", "C17|N4|Type", cfg.where(fq), "Symbol::Type qualified name must be the stored key for a resolved item and None otherwise; extracted %r" % ([(o[0], o[1], o[2]) for o in outs],))
    out = table.get("Arg", [])
    # N6
    fnm = facts.fn(GN)
    for vname, sv in syms:
        paths = Machine(facts).run(GN, [Ref(Cell(sv))])
        vals = [some_payload(p.ret) for p in paths]
        if vname == "Import":
            ok = sorted(fmt_label(v) for v in vals) == sorted(["node.name", "(fmt, {}.{}, ((fmtarg, display, node.path), (fmtarg, display, node.name)))"])
        elif vname == "Arg":
            ok = vals == [("raw", "node.name")]
        else:
            ok = vals == ["node.name"]
        rep.check(ok, "N6", "C17|N6|%s" % vname, cfg.where(fnm), "Symbol::%s.get_name() must be the node's own name as written; extracted %r" % (vname, [fmt_label(v) for v in vals]), sample={"variant": vname, "name": [fmt_label(v) for v in vals]})
    # N7: the names that make up keys and qualified names are the identifiers as written (grammar wiring)
    import wiring
    obls, _ = wiring.analyse(ctx)
    n = 0
    for o in obls:
        if o.aspect in ("value", "ident") and ("|name" in o.key or "QualifiedName" in o.key or "|path" in o.key or o.aspect == "ident"):
            n += 1
            if o.ok:
                rep.ok("N7", o.key, o.sample)
            else:
                rep.fail("N7", "C17|%s" % o.key, o.where, o.message, witness=o.witness)
    rep.floor("N7", "name wiring obligations", n, 20)
    rep.rule("N7", "A9: package / item / member names and qualified-name segments are the IDENT texts, re-joined with '.' irrespective of spacing")
    # N5
    # every type reference, at any depth, reaches the resolver (walker coverage) and is resolved per AIDL scoping: C05 rules A-E
    c05.resolution_rules(ctx, rep, "C17")
    import common_g
    rep.floor("IN", "grammar actions feeding this rule", common_g.emit_inputs(ctx, rep, "C17"), 5)
    import pipeline
    pipeline.rule(ctx, rep, "C17", ['resolve_types'])
    rep.rule("LX", "lexical agreement (C03 A10, re-evaluated here): the property quantifies over documents - token classes, their priorities, the keyword rule, comments and white space must be the reference ones (a changed comment / number / keyword regex silently drops or merges members)")
    import lexical
    lexical.rules(ctx, rep, "C17", {"trivia", "classes", "priority", "keywords", "tokenizer"})
    rep.assumptions += ["TB-1 rustc MIR (format templates are read from rustc's compact format_args encoding)", "TB-4 tabulator", "names stored in the tree are the identifiers written in the source (grammar wiring rule, C02)"]
