"""C19 - serialising a tree and reading it back gives an equal tree."""
import re
from absint import *
from domain import *
import cfg

STD_PREDICATES = {  # predicate -> (type head it applies to, what Default::default() produces makes it true, nothing else does)
    "Vec::is_empty": "Vec", "Option::is_none": "Option", "HashMap::is_empty": "HashMap", "String::is_empty": "String",
    "BTreeMap::is_empty": "BTreeMap", "HashSet::is_empty": "HashSet",
}
LOSSY = {"skip", "skip_serializing", "skip_deserializing", "flatten", "untagged", "with", "serialize_with", "deserialize_with", "from", "into", "try_from", "other", "borrow", "getter", "remote"}
SCALARS = {"bool", "String", "usize", "u8", "u16", "u32", "u64", "i8", "i16", "i32", "i64", "isize", "char"}


def type_names(ty):
    return set(re.findall(r"[A-Za-z_][A-Za-z0-9_]*", ty))


def run(ctx, rep):
    facts = ctx.mir
    src = ctx.src
    rep.rule("X1", "every type reachable from ast::Aidl through fields derives Serialize, Deserialize and PartialEq")
    rep.rule("X2", "every skip_serializing_if = P comes with `default`, and P holds only for the value Default::default() produces (std predicates by catalogue, crate-local predicates and Default impls by abstract interpretation of their MIR)")
    rep.rule("X3", "no one-sided or lossy serde attribute (skip*, flatten, untagged, with, from/into ...); renames are symmetric")
    rep.rule("X4", "field types stay within what a self-describing format round-trips (integers, bool, String, Option, Vec, HashMap<String,_>, tuples, ADTs of the same set); no floats, no borrowed data")
    types = dict((t["name"], t) for t in src["types"] if t["file"] == "ast.rs")
    if "Aidl" not in types:
        raise KeyError("anchor-missing: ast::Aidl in srcfacts")
    reach = []
    work = ["Aidl"]
    while work:
        n = work.pop()
        if n in reach or n not in types:
            continue
        reach.append(n)
        t = types[n]
        fl = list(t.get("fields") or [])
        for v in t.get("variants") or []:
            fl += v.get("fields") or []
        for f in fl:
            for nm in type_names(f["ty"]):
                if nm in types and nm not in reach:
                    work.append(nm)
    rep.analysed["types reachable from ast::Aidl"] = sorted(reach)
    rep.floor("X1", "types reachable from ast::Aidl", len(reach), 20)
    for n in sorted(reach):
        t = types[n]
        where = "src/ast.rs:%d (ast::%s)" % (t["line"], n)
        der = set(d.split("::")[-1] for d in t["derives"])
        rep.check({"Serialize", "Deserialize", "PartialEq"} <= der, "X1", "C19|X1|ast::%s" % n, where, "ast::%s must derive Serialize, Deserialize and PartialEq (derives: %s)" % (n, sorted(der)))
        for a in t["attrs"]:
            if a["path"] == "serde":
                for it in a["items"]:
                    if it["key"] in LOSSY:
                        rep.fail("X3", "C19|X3|ast::%s|%s" % (n, it["key"]), where, "type-level serde attribute `%s` on ast::%s is one-sided / lossy" % (it["key"], n))
                    else:
                        rep.ok("X3", "type attr %s" % it["key"])
        fl = [(None, f) for f in (t.get("fields") or [])]
        for v in t.get("variants") or []:
            for a in v["attrs"]:
                if a["path"] == "serde":
                    for it in a["items"]:
                        if it["key"] in LOSSY:
                            rep.fail("X3", "C19|X3|ast::%s::%s|%s" % (n, v["name"], it["key"]), where, "variant attribute `%s` is one-sided / lossy" % it["key"])
            fl += [(v["name"], f) for f in (v.get("fields") or [])]
        for vn, f in fl:
            fname = "%s%s.%s" % (n, "::" + vn if vn else "", f["name"] if f["name"] is not None else "?")
            fw = "src/ast.rs:%d (ast::%s)" % (f.get("line") or t["line"], fname)
            items = {}
            for a in f.get("attrs") or []:
                if a["path"] == "serde":
                    for it in a["items"]:
                        items[it["key"]] = it["value"]
            for k in items:
                if k in LOSSY:
                    rep.fail("X3", "C19|X3|ast::%s|%s" % (fname, k), fw, "field attribute `%s` on ast::%s is one-sided / lossy" % (k, fname))
            if "rename" in items:
                rep.ok("X3", "rename %s" % fname, {"field": fname, "rename": items["rename"], "note": "plain rename applies to both directions"})
            # X4 types
            names = type_names(f["ty"])
            bad = [x for x in names if x in ("f32", "f64", "str", "Cow", "Rc", "Arc", "Box", "dyn")]
            unknown = [x for x in names if x not in SCALARS and x not in types and x not in ("Vec", "Option", "HashMap", "BTreeMap", "std", "collections") and not x.islower()]
            rep.check(not bad and not unknown and "&" not in f["ty"], "X4", "C19|X4|ast::%s" % fname, fw, "field ast::%s: %s is outside the round-trippable set (%s)" % (fname, f["ty"], bad + unknown))
            if "HashMap" in names:
                rep.check(re.search(r"HashMap<\s*String\s*,", f["ty"]) is not None, "X4", "C19|X4|ast::%s|map-key" % fname, fw, "map keys must be strings for a self-describing format: %s" % f["ty"])
            # X2
            if "skip_serializing_if" in items:
                pred = items["skip_serializing_if"]
                key = "C19|X2|ast::%s|skip_serializing_if=%s" % (fname, pred)
                if "default" not in items:
                    rep.fail("X2", key + "|no-default", fw, "ast::%s is skipped when %s holds but has no `default`: deserialising the shortened form fails" % (fname, pred))
                    continue
                if items["default"] is not None:
                    rep.fail("X2", key + "|custom-default", fw, "ast::%s uses a custom default function %s: not analysed (fail closed)" % (fname, items["default"]))
                    continue
                if pred in STD_PREDICATES:
                    head = STD_PREDICATES[pred]
                    ok = re.match(r"(std::[a-z:]+::)?%s\b" % head, f["ty"].strip()) is not None
                    rep.check(ok, "X2", key, fw, "%s on a field of type %s: the predicate must be the emptiness test of the field's own type (whose Default is the empty value)" % (pred, f["ty"]),
                              sample={"field": fname, "predicate": pred, "default": "%s::default() is the empty value, the only one for which %s holds" % (head, pred)})
                    continue
                # crate-local predicate: find its MIR body and the Default of the field type
                meth = pred.split("::")[-1]
                owner = pred.split("::")[0] if "::" in pred else None
                cands = [p for p in facts.fns if p.endswith("::" + meth) and (owner is None or owner in p)]
                if len(cands) != 1:
                    rep.fail("X2", key + "|predicate-not-found", fw, "predicate %s: %d candidate bodies" % (pred, len(cands)))
                    continue
                ty = f["ty"].strip()
                values = None
                default = None
                if ty == "bool":
                    values = [("true", Const("bool", True)), ("false", Const("bool", False))]
                    default = "false"
                elif ty in types and types[ty]["kind"] == "enum":
                    values = []
                    adt = facts.adt("ast::" + ty)
                    for v in adt["variants"]:
                        values.append((v["name"], enum_val(facts, "ast::" + ty, v["name"], dict((i, Opaque("payload%d" % i)) for i in range(len(v["fields"])))) ))
                    dflt = [p for p in facts.fns if p == "<ast::%s as std::default::Default>::default" % ty]
                    if dflt:
                        dp = Machine(facts).run(dflt[0], [])
                        if len(dp) == 1 and isinstance(dp[0].ret, AdtVal):
                            default = dp[0].ret.vname
                    elif "Default" in [d.split("::")[-1] for d in types[ty]["derives"]]:
                        dv = [v["name"] for v in types[ty]["variants"] if any(a["path"] == "default" for a in v["attrs"])]
                        default = dv[0] if dv else None
                if values is None or default is None:
                    rep.fail("X2", key + "|unsupported-type", fw, "cannot enumerate the values / default of %s for predicate %s (fail closed)" % (ty, pred))
                    continue
                truth = {}
                for vn_, val in values:
                    pp = Machine(facts).run(cands[0], [Ref(Cell(val))])
                    r = pp[0].ret if len(pp) == 1 else None
                    truth[vn_] = r.v if isinstance(r, Const) and r.kind == "bool" else None
                skipped = sorted(k for k, v in truth.items() if v is not False)
                ok = skipped == [default]
                # keyed by what is lost, not by the predicate's path (renaming / moving the predicate keeps the finding the same)
                key = "C19|X2|ast::%s|skipped=%s|restored-as=%s" % (fname, ",".join(skipped), default)
                rep.check(ok, "X2", key, fw,
                          "ast::%s is omitted from the output when %s holds, i.e. for the value(s) %s, and reads back as Default::default() = %s: every omitted value other than the default is lost" % (fname, pred, skipped, default),
                          witness={"field": "ast::" + fname, "values_skipped": skipped, "restored_as": default},
                          sample={"field": fname, "predicate": pred, "truth_table": truth, "default": default})
    rep.assumptions += ["TB-3 serde derive and the data format (RON) round-trip the remaining shapes", "srcfacts (syn) attribute extraction", "TB-1/TB-4 for crate-local predicates and Default impls"]
    rep.not_decided.append("serde's and RON's own correctness")
