"""debug helper: python3 rules/dbg.py  -> ctx for interactive use"""
import sys, os
sys.path.insert(0, os.path.dirname(os.path.abspath(__file__)))
import core, check


def ctx(tier="quick"):
    return check.Ctx(core.ensure_facts(), tier)
