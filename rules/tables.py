"""Helpers to tabulate `match self { Variant(..) => .. }` style functions over enum variants."""
from absint import *


def symbol_values(facts, node_label="node", owner_label="owner"):
    """[(variant name, Symbol abstract value)] for every variant of symbol::Symbol; payload field 0 is
    a reference to the symbolic node `node`, field 1 (if any) a reference to `owner`"""
    out = []
    for v in facts.adt("symbol::Symbol")["variants"]:
        fields = {}
        for i, f in enumerate(v["fields"]):
            ty = f["ty"]
            if i == 0:
                fields[i] = Ref(Cell(Opaque(node_label, strip_ref(ty))))
            elif ty.startswith("symbol::ConstOwner"):
                fields[i] = Opaque(owner_label, ty)
            else:
                fields[i] = Ref(Cell(Opaque(owner_label, strip_ref(ty))))
        out.append((v["name"], AdtVal("symbol::Symbol", v["index"], dict((i, Cell(x)) for i, x in fields.items()), None, v["name"])))
    return out
