"""C18 K: the backward doc-comment scanner as an extracted finite transducer.

The loop of javadoc::find_content_string is one step of a finite-state transducer over
characters.  Each transition (scanner state x character class) is extracted by abstract
interpretation of the loop body (the interpreter is stopped at the loop head, the locals are set to
the configuration of interest, one character is fed, and it is stopped at the next loop head or
runs to the function's return).  The extracted table is then *simulated* - not the repository's
code - on every structured prefix of a bounded family and compared with an independent forward
reference (tokenise comments left to right, take the closest doc comment that is followed only by
whitespace and ordinary comments)."""
import copy, itertools
from absint import *

FCS = "javadoc::find_content_string"
def char_classes(body):
    """the characters the scanner distinguishes = every constant a `char` is compared with, plus one ASCII and one
    non-ASCII representative of 'any other character'"""
    cps = set()
    for b in body["blocks"]:
        for s in b["stmts"]:
            if s["k"] == "assign" and s["rv"]["k"] == "binop" and s["rv"]["op"] in ("Eq", "Ne"):
                for o in (s["rv"]["a"], s["rv"]["b"]):
                    if o["k"] == "const" and o["c"].get("ty") == "char" and "int" in o["c"]:
                        cps.add(int(o["c"]["int"]))
        t = b["term"]
        if t["k"] == "switch" and t.get("discr_ty") == "char":
            for v, _ in t["targets"]:
                cps.add(int(v))
    other = next(c for c in (ord("x"), ord("q"), ord("k"), ord("w")) if c not in cps)
    other2 = next(c for c in (0xE9, 0x4E2D, 0x1F600) if c not in cps)
    out = dict((chr(c), c) for c in sorted(cps))
    out["<other>"] = other
    out["<non-ascii>"] = other2
    return out


def locals_by_name(body):
    out = {}
    for d in body["debug"]:
        if "l" in d["place"] and not d["place"]["p"]:
            out.setdefault(d["name"], d["place"]["l"])
    return out


def extract(facts):
    """-> dict with 'states', 'trans': {(state, class): {'next': state|None, 'end': bool, 'start': bool, 'stop': bool}}, 'result_rule'"""
    fn = facts.fn(FCS)
    body = fn["body"]
    names = locals_by_name(body)
    if any(need not in names for need in ("pos", "start_pos", "end_pos", "state")):
        # renamed locals: recognise them by type (declaration order separates the two markers: begin marker first)
        user = sorted(set(d["place"]["l"] for d in body["debug"] if "l" in d["place"] and not d["place"]["p"]))
        ty = lambda l: body["locals"][l]["ty"]
        counters = [l for l in user if ty(l) == "usize" and l > body["arg_count"]]
        marks = [l for l in user if ty(l) == "std::option::Option<usize>"]
        states = [l for l in user if ty(l).startswith(FCS + "::")]
        if not counters or len(marks) < 2 or not states:
            raise KeyError("anchor-missing: the scanner locals (a usize position, two Option<usize> markers, a state) of %s" % FCS)
        names = dict(names)
        names.update({"pos": counters[0], "start_pos": marks[0], "end_pos": marks[1], "state": states[0]})
    # all four names appear twice (shadowed in the final match): take the first declared (lowest index)
    st_adt = body["locals"][names["state"]]["ty"]
    variants = facts.variants(st_adt)
    calls = {"n": 0}

    def hook_stop_first(st, il):
        return ("stop",)
    m0 = Machine(facts, next_hook=hook_stop_first)
    p0 = m0.run(FCS, [Ref(Cell(Opaque("input", "str")))])
    if len(p0) != 1 or p0[0].exit != "stopped_at_next":
        raise Unsupported("scanner prologue: %r" % ([p.exit for p in p0],))
    S0 = p0[0].state
    fr0 = S0.frames[-1]
    init = {"state": fr0.locals[names["state"]].val.vname, "pos": repr(fr0.locals[names["pos"]].val),
            "start": fr0.locals[names["start_pos"]].val.vname, "end": fr0.locals[names["end_pos"]].val.vname}
    trans = {}
    classes = char_classes(body)
    for sv in variants:
        for cname, cp in sorted(classes.items()):
            st = copy.deepcopy(S0)
            st.exit = None
            st.ret = None
            fr = st.frames[-1]
            fr.visits = {}
            fr.locals[names["state"]].val = enum_val(facts, st_adt, sv)
            fr.locals[names["pos"]].val = Opaque("POS", "usize")
            fr.locals[names["start_pos"]].val = AdtVal("std::option::Option", 0, {}, None, "None")
            fr.locals[names["end_pos"]].val = AdtVal("std::option::Option", 1, {0: Cell(Opaque("END0", "usize"))}, None, "Some")
            fed = {"n": 0}

            def hook(s_, il, cp=cp, fed=fed):
                fed["n"] += 1
                if fed["n"] == 1:
                    return ("some", Const("int", cp))
                return ("stop",)
            m = Machine(facts, next_hook=hook, pure_fns=["std::char::methods::<impl char>::len_utf8"])
            paths = m.explore(st)
            if len(paths) != 1:
                raise Unsupported("scanner step (%s, %s): %d paths, conditions %r" % (sv, cname, len(paths), [[(fmt_label(l), v) for l, v in p.conds] for p in paths]))
            p = paths[0]
            f2 = p.state.frames[-1] if p.state.frames else None
            rec = {"next": None, "end": False, "start": False, "stop": False, "width": None}
            if p.exit == "stopped_at_next":
                loc = f2.locals
                rec["next"] = loc[names["state"]].val.vname
                newpos = lab(loc[names["pos"]].val)
                if isinstance(newpos, tuple) and newpos[0] == "add" and newpos[1] == "POS" and isinstance(newpos[2], tuple) and newpos[2][0] == "call" and newpos[2][1].endswith("len_utf8"):
                    rec["step"] = "utf8"
                elif isinstance(newpos, tuple) and newpos[0] == "add" and newpos[1] == "POS" and isinstance(newpos[2], tuple) and newpos[2][:2] == ("const", "int"):
                    rec["step"] = newpos[2][2]
                else:
                    raise Unsupported("scanner step (%s, %s): position becomes %s" % (sv, cname, fmt_label(newpos)))
                e, s_ = loc[names["end_pos"]].val, loc[names["start_pos"]].val
                rec["width"] = fmt_label(newpos)
                if not (isinstance(e, AdtVal) and e.vname == "Some"):
                    raise Unsupported("scanner step (%s, %s): end_pos := %r" % (sv, cname, e))
                el = lab(e.fields[0].val)
                if el != "END0":
                    rec["end"] = el == newpos
                    if not rec["end"]:
                        raise Unsupported("scanner step (%s, %s): end_pos := %s, not the current position" % (sv, cname, fmt_label(el)))
                if not (isinstance(s_, AdtVal) and s_.vname == "None"):
                    raise Unsupported("scanner step (%s, %s): start_pos changed without leaving the loop" % (sv, cname))
            elif p.exit == "return":
                rec["stop"] = True
                r = deref_val(p.ret)
                if isinstance(r, AdtVal) and r.vname == "Some":
                    rl = lab(r.fields[0].val)
                    rec["start"] = True
                    rec["ret"] = fmt_label(rl)
                elif isinstance(r, AdtVal) and r.vname == "None":
                    rec["start"] = False
                else:
                    raise Unsupported("scanner step (%s, %s): returns %r" % (sv, cname, r))
            else:
                raise Unsupported("scanner step (%s, %s): exit %s" % (sv, cname, p.exit))
            trans[(sv, cname)] = rec
    steps = set(str(t.get("step")) for t in trans.values() if t.get("step") is not None)
    return {"states": variants, "init": init, "trans": trans, "classes": classes, "steps": sorted(steps)}


def simulate(tab, text):
    """run the extracted transducer backwards over `text` (a Python str); returns the doc body or None"""
    state = tab["init"]["state"]
    pos = 0
    start = end = None
    b = text.encode("utf-8")
    classes = tab["classes"]
    step = tab["steps"][0] if len(tab["steps"]) == 1 else "utf8"
    for ch in reversed(text):
        cls = ch if ch in classes else ("<non-ascii>" if ord(ch) > 127 else "<other>")
        pos += len(ch.encode("utf-8")) if step == "utf8" else int(step)
        t = tab["trans"][(state, cls)]
        if t["end"]:
            end = pos
        if t["stop"]:
            if t["start"]:
                start = pos - 3
            break
        state = t["next"]
    if start is not None and end is not None:
        lo, hi = len(b) - start, len(b) - end
        if lo < 0 or hi < lo or hi > len(b):
            return ("PANIC", lo, hi)
        try:
            return b[lo:hi].decode("utf-8")
        except UnicodeDecodeError:
            return ("PANIC-not-a-char-boundary", lo, hi)
    return None


def reference(text):
    """forward reading of the statement: tokenise whitespace, line comments, block comments and other text; the
    documentation is the body of the last doc comment if only whitespace and ordinary comments follow it"""
    toks = []
    i = 0
    n = len(text)
    while i < n:
        c = text[i]
        if c in " \t\r\n":
            i += 1
            continue
        if text.startswith("//", i):
            j = text.find("\n", i)
            j = n if j < 0 else j + 1
            toks.append(("line", text[i:j]))
            i = j
            continue
        if text.startswith("/*", i):
            j = text.find("*/", i + 2)
            if j < 0:
                toks.append(("code", text[i:]))
                break
            body = text[i:j + 2]
            if body.startswith("/**") and len(body) >= 5:
                toks.append(("doc", body[3:-2]))
            else:
                toks.append(("block", body))
            i = j + 2
            continue
        toks.append(("code", c))
        i += 1
    while toks and toks[-1][0] in ("line", "block"):
        toks.pop()
    if toks and toks[-1][0] == "doc":
        return toks[-1][1]
    return None


# the family stays inside the property's domain: doc words contain no `@`, `*`, `/`; ordinary comments contain no `/`, `*`.
# It is the set of ALL sequences of up to `depth` lexical pieces (code, white space, line / block / doc comments, incl. the
# edge forms `/**/`, `/***/`, non-ASCII and CRLF bodies): every way code, comments and doc comments can follow each other.
TOKENS = ["x", ";", " ", "\n", "\r\n", "// l\n", "//\n", "// l;\r\n", "/* o */", "/**/", "/* é\n o */", "/** d */", "/***/", "/** é d\n * e */", "/**d*/"]


def family(depth):
    import itertools
    for k in range(depth + 1):
        for seq in itertools.product(TOKENS, repeat=k):
            yield "".join(seq)


def margin_of(tab):
    """the constant subtracted from the position when the begin marker is recognised, read from the returned slice expression;
    also checks the slice is input[len - (pos - margin) .. len - end]"""
    import re
    ms = set()
    for (s_, c), t in tab["trans"].items():
        if t["stop"] and t["start"]:
            m = re.match(r"^\(index, input, \(adt, std::ops::Range, None, \(\(0, \(sub, [\w:<> ]*len\(input\), \(sub, \(add, POS, [^()]*len_utf8\(\(const, int, \d+\)\)\), \(const, int, (\d+)\)\)\)\), \(1, \(sub, [\w:<> ]*len\(input\), END0\)\)\)\)\)$", t.get("ret", ""))
            if not m:
                raise Unsupported("the returned slice is not input[len - (pos - k) .. len - end]: %s" % t.get("ret"))
            ms.add(int(m.group(1)))
    if len(ms) != 1:
        raise Unsupported("begin-marker margins %r" % sorted(ms))
    return ms.pop()


def slice_safety(tab):
    """All-inputs argument for the three subtractions and the slice of find_content_string, on the extracted table
    (states x classes; every transition consumes >= 1 byte, exactly 1 for an ASCII class):
      S1  from the initial state a start-marking stop is at least 3 transitions away            (`pos - 3` cannot underflow)
      S2  after the LAST end-marking transition a start-marking stop is at least 3 transitions away
          (start = pos_stop - 3 >= pos_end, i.e. the slice has start <= end)
      S3  the three characters consumed last before a start-marking stop belong to single-byte classes
          (pos_stop - 3 is a character boundary; pos_end is one because pos only accumulates whole characters)
    returns a list of problems (empty = safe)"""
    trans = tab["trans"]
    problems = []
    K = margin_of(tab)
    succ = {}
    for (s, c), t in trans.items():
        succ.setdefault(s, []).append((c, t))

    def min_dist_to_start(src_states, avoid_end):
        """fewest transitions from one of src_states up to and including a start-marking stop (None: unreachable)"""
        from collections import deque
        dist = {}
        dq = deque()
        for s in src_states:
            dist[s] = 0
            dq.append(s)
        best = None
        while dq:
            s = dq.popleft()
            for c, t in succ.get(s, []):
                if avoid_end and t["end"]:
                    continue   # a later end mark restarts the count
                if t["stop"]:
                    if t["start"]:
                        d = dist[s] + 1
                        best = d if best is None or d < best else best
                    continue
                n = t["next"]
                if n not in dist:
                    dist[n] = dist[s] + 1
                    dq.append(n)
        return best
    d0 = min_dist_to_start([tab["init"]["state"]], False)
    if d0 is not None and d0 < K:
        problems.append("a begin marker can be recognised after only %d character(s): `pos - %d` underflows" % (d0, K))
    for (s, c), t in sorted(trans.items()):
        if not t["end"]:
            continue
        if t["stop"]:
            if t["start"]:
                problems.append("transition (%s, %r) marks end and start at once: start = pos - 3 < end = pos" % (s, c))
            continue
        d = min_dist_to_start([t["next"]], True)
        if d is not None and d < K:
            problems.append("after the end mark set on (%s, %r) a begin marker can be recognised %d character(s) later: the slice gets start > end (needs at least %d, e.g. the text `/**/`)" % (s, c, d, K))
    # S3: the K characters consumed last before a start-marking stop are single-byte
    single = lambda c: c != "<non-ascii>"
    pred = {}
    for (s, c), t in trans.items():
        if not t["stop"]:
            pred.setdefault(t["next"], []).append((s, c))
    frontier = set()
    for (s1, c0), t in trans.items():
        if t["stop"] and t["start"]:
            if not single(c0):
                problems.append("the begin marker is recognised on a multi-byte class (%s, %r)" % (s1, c0))
            frontier.add(s1)
    for back in range(1, K):
        nxt = set()
        for st in frontier:
            for p, c in pred.get(st, []):
                if not single(c):
                    problems.append("state %s is entered on a multi-byte class from %s, %d character(s) before a begin marker: pos - %d may not be a character boundary" % (st, p, back, K))
                nxt.add(p)
        frontier = nxt
    return sorted(set(problems))
