"""A11 grammar language comparison against spec/aidl_ref.lalrpop (bounded product of the two LR automata)."""
import json, os, subprocess
import core


def run(ctx, bound, drop_error=True):
    ref = os.path.join(core.VERIF, "spec", "aidl_ref.lalrpop")
    cur = os.path.join(ctx.repo, "src", "aidl.lalrpop")
    cmd = [core.GRAMFACTS, "langdiff", ref, cur, "--start", "OptAidl", "--bound", str(bound)]
    if drop_error:
        cmd.append("--drop-error-alts")
    p = subprocess.run(cmd, stdout=subprocess.PIPE, stderr=subprocess.PIPE)
    if p.returncode not in (0, 1):
        raise core.ExtractionError("gramfacts langdiff failed (%d): %s" % (p.returncode, p.stderr.decode()[-600:]))
    return json.loads(p.stdout.decode())


def rule(ctx, rep, prop, bound):
    for drop, what in ((True, "documents without syntax diagnostics (recovery alternatives removed)"), (False, "documents incl. recovery (error as a terminal)")):
        r = run(ctx, bound, drop)
        key = "%s|A11|%s" % (prop, "no-recovery" if drop else "with-recovery")
        if r.get("equal_up_to_bound"):
            rep.ok("A11", key, {"language": what, "bound_tokens": r["bound"], "configuration_pairs": r["pairs_explored"], "max_depth": r["max_depth_reached"],
                                "productions_never_reduced_cur": r.get("productions_never_reduced_cur"), "states_ref": r["ref"]["states"], "states_cur": r["cur"]["states"]})
            rep.analysed["A11 pairs explored (%s)" % ("no-recovery" if drop else "with-recovery")] = r["pairs_explored"]
            rep.analysed["A11 bound (tokens)"] = r["bound"]
        else:
            side = r.get("viable_in")
            rep.fail("A11", key + "|%s" % " ".join(r.get("witness_tokens", []))[:120], "src/aidl.lalrpop",
                     "the grammar's language differs from the reference grammar (spec/aidl_ref.lalrpop) on %s: after `%s` the token %s is accepted by the %s grammar only; "
                     "a complete document accepted by one and rejected by the other: %s" % (what, " ".join(r.get("witness_prefix_tokens", [])), r.get("differing_token"),
                                                                                         "reference" if side == "ref" else "current", r.get("document_text")),
                     witness={"document": r.get("document_text"), "accepted_by": side, "tokens": r.get("document_tokens")})
