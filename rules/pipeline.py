"""Rule PL: the per-file pipeline of validation::validate.

The per-file closure is tabulated with the six checkers opaque.  On every path that has a tree each checker must be
called exactly once (set_up_oneway_interface exactly when the item is an interface), with the arguments the properties'
tables assume (the resolved tree, the name sets computed from the tree's own imports / forward declarations, the result
of the previous stage, the file's own diagnostics vector), and the only conditions a path may depend on are "the file has
a tree" and "the item is an interface / parcelable / enum".  The relative order of independent checkers is free."""
import cfg
from absint import *
from domain import *

V = "validation::"
OPS = [V + "resolve_types", V + "check_imports", V + "check_declared_parcelables", V + "check_containers", V + "set_up_oneway_interface", V + "check_methods"]
AST = "fr.ast.Some.0"
DIAGS = "fr.diagnostics"


def norm(l):
    """strip havoc / mutation-version wrappers"""
    if isinstance(l, tuple) and l:
        if l[0] == "havoc" and len(l) == 3:
            return norm(l[2])
        if l[0] == "mut" and len(l) == 3:
            return norm(l[1])
        return tuple(norm(x) for x in l)
    return l


def flatten_args(args):
    """arguments bundled into a private struct (`KnownNames { imports, declared_parcelables, defined }`) count as the arguments themselves, in field order"""
    out = []
    for x in args:
        y = x
        while isinstance(y, tuple) and y and y[0] in ("ref",) and len(y) >= 2:
            y = y[1]
        if isinstance(y, tuple) and len(y) == 4 and y[0] == "adt" and isinstance(y[1], str) and y[1].startswith("validation::") and y[2] is None:
            out.extend(v for _, v in sorted(y[3]))
        else:
            out.append(x)
    return tuple(out)


def name_set(field):
    return ("call", "std::iter::Iterator::collect", (("adt", "iter:map", None, ((0, ("iter", "%s.%s" % (AST, field))), (1, "QN"))),))


def norm_names(l):
    """closure objects inside the name-set expressions are replaced by QN when the closure returns get_qualified_name(its argument)"""
    if isinstance(l, tuple) and l:
        if l[0] == "adt" and isinstance(l[1], str) and l[1].startswith("closure:"):
            return ("closure", l[1][len("closure:"):])
        return tuple(norm_names(x) for x in l)
    return l


def find_closure(facts):
    for c in facts.closures_of("validation::validate"):
        if cfg.call_sites(facts.fns[c]["body"], lambda x: x == V + "check_methods"):
            return c
    return None


def tabulate(facts):
    from closures import run_closure
    clo = find_closure(facts)
    if clo is None:
        raise KeyError("anchor-missing: per-file closure of validation::validate")
    entry = AdtVal("tuple", None, {0: Cell(Opaque("ID")), 1: Cell(Opaque("fr", "parser::ParseFileResult<ID>"))})
    cp, _ = run_closure(facts, clo, {"defined": sym_ref("defined")}, [entry], opaque_fns=OPS, lenient=True)
    return clo, cp


def captures_rule(facts, rep, prop, clo):
    """the per-file closure may capture only the shared key -> kind map, by shared reference: anything else is state shared
    between files (the files are visited in HashMap order: one file's result would depend on which files came before it)"""
    f = facts.fns[clo]
    ok_all = True
    for c in f.get("captures") or []:
        shared_map = c["ty"].startswith("std::collections::HashMap<std::string::String, ast::ResolvedItemKind") and "Mutable" not in c["by"]
        if not shared_map:
            ok_all = False
        rep.check(shared_map, "PL", "%s|PL|captures|%s" % (prop, c["ty"]), cfg.where(f),
                  "the per-file closure of validation::validate captures `%s` (%s, %s): the only thing files may share is the read-only key -> kind map; anything else lets one file's names / results leak into "
                  "the files validated after it, in HashMap order" % (c["name"], c["ty"], c["by"]), sample={"capture": c["name"], "type": c["ty"], "by": c["by"]})
    return ok_all


def qn_closures(facts, clo):
    """nested closures that return <their argument>.get_qualified_name()"""
    from closures import run_closure
    ok = set()
    # closures of the per-file closure and of the private helpers of validation (a chain extracted into a helper is still the chain)
    cands = list(facts.closures_of(clo)) + [p for p in sorted(facts.fns) if p.startswith("validation::") and "{closure" in p and not p.startswith("validation::validate::")]
    for c in cands:
        if (facts.fns[c].get("captures") or []):
            continue
        try:
            cp, _ = run_closure(facts, c, {}, [sym_ref("i")], opaque_fns=["ast::Import::get_qualified_name"], pure_fns=["ast::Import::get_qualified_name"])
        except Exception:
            continue
        if len(cp) == 1 and lab(cp[0].ret) == ("call", "ast::Import::get_qualified_name", ("i",)) and not [e for e in cp[0].effects if e[0] != "call"]:
            ok.add(c)
    return ok


def rule(ctx, rep, prop, focus):
    """focus: short names of the stages this property owns"""
    facts = ctx.mir
    rep.rule("PL", "the per-file pipeline (closure of validation::validate tabulated with the checkers opaque): on every path with a tree, %s called exactly once with the expected arguments "
                   "(resolved tree; name sets = get_qualified_name over the tree's own imports / forward declarations; previous stage's result; the file's own diagnostics), "
                   "conditional on nothing but 'has a tree' and the item's kind" % ", ".join(focus))
    clo, paths = tabulate(facts)
    fclo = facts.fns[clo]
    import c12 as _c12h
    _c12h.inherit_h7(ctx, rep, prop)   # the pipeline's output must reach the caller untouched
    import c14 as _c14t
    rep.rule("R8a", "inherits C14 R8 (a) (re-evaluated here): the per-file closure returns Some(the tree that went through the stages) - the resolved kinds / propagated oneway flags "
                    "this property speaks of are in the tree the caller receives")
    _c14t.tree_result_rule(ctx, rep, prop, "R8a")
    if prop not in ("C07", "C11"):     # (those two evaluate it themselves)
        import c03 as _c03
        rep.rule("S6", "inherits C03 S6 (re-evaluated here): validation only appends to a file's diagnostics (push / final sort); the per-file closure returns the entry's id and the stored vector - "
                       "a diagnostic a rule of this property emitted is never removed, merged or replaced afterwards")
        _c03.append_only_rule(ctx, rep, prop)
    if not focus or "resolve_types" in focus:
        captures_rule(facts, rep, prop, clo)   # shared state reaches a file through name resolution (and makes the output order-dependent)
    qn = qn_closures(facts, clo)
    tree = [p for p in paths if ("variant", "fr.ast") in [l for l, v in p.conds if v == "Some"] or any(l == ("variant", "fr.ast") and v == "Some" for l, v in p.conds)]
    rep.floor("PL", "paths of the per-file closure that have a tree", len(tree), 2)
    kinds = set()
    for p in tree:
        kind = None
        extra = []
        for l, v in p.conds:
            nl = norm(l)
            if nl == ("variant", "fr.ast"):
                continue
            if nl == ("variant", ("field", AST, "item")):
                kind = v
                continue
            extra.append((fmt_label(l), v))
        kinds.add(kind)
        if len(focus) == len(OPS):   # only the property that owns every stage reports stray conditions; per stage, "exactly once on every path" says it all
          rep.check(not extra, "PL", "%s|PL|conditions|%s" % (prop, kind), cfg.where(fclo),
                    "a path of the per-file closure (item kind %s) depends on %r: a checker that runs only under such a condition leaves the other files unchecked" % (kind, extra),
                    sample={"item": kind, "conditions": [fmt_label(l) for l, v in p.conds]})
        calls = [(e[1], norm_names(norm(e[2]))) for e in p.effects if e[0] == "call" and e[1] in OPS]

        def nset(field):
            e = name_set(field)
            return e

        def is_name_set(l, field):
            # collect(map(iter(AST.field), closure)) with a get_qualified_name closure
            try:
                ok = l[0] == "call" and l[1] == "std::iter::Iterator::collect" and l[2][0][0] == "adt" and l[2][0][1] == "iter:map"
                flds = dict(l[2][0][3])
                return ok and flds[0] == ("iter", "%s.%s" % (AST, field)) and flds[1][0] == "closure" and flds[1][1] in qn
            except Exception:
                return False
        by = {}
        for nm, args in calls:
            by.setdefault(nm, []).append(args)
        order = [nm for nm, _ in calls]
        for short in focus:
            nm = V + short
            want_n = 1
            if short == "set_up_oneway_interface":
                want_n = 1 if kind == "Interface" else 0
            got = by.get(nm, [])
            key = "%s|PL|%s|%s" % (prop, short, kind)
            if len(got) != want_n:
                rep.fail("PL", key, cfg.where(fclo), "item kind %s: %s must be called exactly %d time(s) on every path with a tree; found %d" % (kind, short, want_n, len(got)))
                continue
            if want_n == 0:
                rep.ok("PL", key, {"stage": short, "item": kind, "calls": 0})
                continue
            a = flatten_args(got[0])
            rt = by.get(V + "resolve_types", [None])[0]
            rt_call = ("call", V + "resolve_types", rt) if rt is not None else None   # (the label of the call keeps the arguments as written)
            ci = by.get(V + "check_imports", [None])[0]
            ci_call = ("call", V + "check_imports", ci) if ci is not None else None
            ok = False
            why = ""
            if short == "resolve_types":
                ok = len(a) == 5 and a[0] == AST and is_name_set(a[1], "imports") and is_name_set(a[2], "declared_parcelables") and a[3] == "defined" and a[4] == DIAGS
                why = "resolve_types(tree, names of tree.imports, names of tree.declared_parcelables, defined, diagnostics)"
            elif short == "check_imports":
                ok = len(a) == 4 and a[0] == ("field", AST, "imports") and a[1] == rt_call and a[2] == "defined" and a[3] == DIAGS
                why = "check_imports(tree.imports, <result of resolve_types>, defined, diagnostics)"
            elif short == "check_declared_parcelables":
                ok = len(a) == 4 and a[0] == ("field", AST, "declared_parcelables") and a[1] == ci_call and a[2] == rt_call and a[3] == DIAGS
                why = "check_declared_parcelables(tree.declared_parcelables, <result of check_imports>, <result of resolve_types>, diagnostics)"
            elif short in ("check_containers", "check_methods"):
                ok = len(a) == 2 and a[0] == AST and a[1] == DIAGS
                why = "%s(tree, diagnostics)" % short
            elif short == "set_up_oneway_interface":
                ok = len(a) == 2 and a[0] == ("field", ("field", AST, "item"), "Interface.0") and a[1] == DIAGS
                why = "set_up_oneway_interface(the interface, diagnostics)"
            # order: resolve_types first; set_up before check_methods
            if ok and short != "resolve_types":
                ok = V + "resolve_types" in order and order.index(V + "resolve_types") < order.index(nm)
                if not ok:
                    why += "; it must run after resolve_types"
            if ok and short == "check_methods" and kind == "Interface":
                ok = V + "set_up_oneway_interface" in order and order.index(V + "set_up_oneway_interface") < order.index(nm)
                if not ok:
                    why += "; it must run after set_up_oneway_interface"
            rep.check(ok, "PL", key, cfg.where(fclo), "item kind %s: expected %s; extracted arguments %s" % (kind, why, fmt_label(a)[:400]),
                      sample={"stage": short, "item": kind, "args": fmt_label(a)[:300]})
    rep.check(kinds >= set(["Interface", "Parcelable", "Enum"]), "PL", "%s|PL|item-kinds" % prop, cfg.where(fclo), "the pipeline was tabulated for every item kind; got %r" % sorted(str(k) for k in kinds))
