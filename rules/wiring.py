"""A9: what every grammar action stores in the tree, compared with spec/wiring.json.

The extraction (grammar.Action.run) interprets each generated `__action{i}` abstractly with one
symbolic value per production symbol, so every AST field is known as a term over production
symbols; the spec states, by symbol *role*, what the field must be.  Obligations are tagged with
an aspect so that each property reports its own part:
  value  - C02 (names, flags, children, order)          range - C04 (name / full ranges)
  doc    - C18 (doc comment is looked up from the construct's first token)
  ident  - C03 (d) (user identifiers come from IDENT)   recovery - C03 S1 / C14 R1
  direction - C07 T4                                      oneway - C10 T4
"""
import json, os, re
from core import VERIF
from absint import *
from domain import *
import grammar

LOOK = ("lookahead", "lookbehind")
RANGE_NEW = "ast::Range::new"


class Obl(object):
    def __init__(self, aspect, key, where, ok, message, sample=None, witness=None):
        self.aspect, self.key, self.where, self.ok, self.message, self.sample, self.witness = aspect, key, where, ok, message, sample, witness


def spec():
    return json.load(open(os.path.join(VERIF, "spec", "wiring.json")))


FORWARD = {}  # helper nonterminal -> the symbol it forwards unchanged (computed per analysis)


def resolve_alias(name):
    seen = set()
    while name in FORWARD and name not in seen:
        seen.add(name)
        name = FORWARD[name]
    return name


def find_sym(symbols, role):
    m = re.match(r"(.*)#(\d+)$", role)
    k = None
    name = role
    if m:
        name, k = m.group(1), int(m.group(2))
    idx = [i for i, s in enumerate(symbols) if s["name"] == name and s["kind"] not in LOOK]
    if not idx:
        # a helper nonterminal that only forwards the named symbol stands for it
        idx = [i for i, s in enumerate(symbols) if resolve_alias(s["name"]) == name and s["kind"] not in LOOK]
    if not idx:
        # helper groups: ignore position captures and selection brackets inside the group's name
        norm = lambda x: re.sub(r"<@[LR]>|[<> ]", "", x)
        idx = [i for i, s in enumerate(symbols) if norm(s["name"]) == norm(name) and s["kind"] not in LOOK]
    if k is not None:
        return idx[k - 1] if len(idx) >= k else None
    return idx[0] if len(idx) == 1 else None


def captures_before(symbols, i):
    out = []
    j = i - 1
    while j >= 0 and symbols[j]["kind"] in LOOK:
        if symbols[j]["kind"] == "lookahead":
            out.append(j)
        j -= 1
    return out


def captures_after(symbols, i):
    out = []
    j = i + 1
    while j < len(symbols) and symbols[j]["kind"] in LOOK:
        if symbols[j]["kind"] == "lookbehind":
            out.append(j)
        j += 1
    return out


def L(a, j):
    if j is None:
        raise KeyError("anchor-missing: a symbol named by spec/wiring.json is not in production %s -> %s" % (a.nt, " ".join(s["name"] for s in a.symbols)))
    return a.labels[j]


def field_names(facts, node):
    return [f["name"] for f in facts.adt(node)["variants"][0]["fields"]]


def range_args(label):
    """(start label, end label) of a Range::new(lookup, s, e) term, or None"""
    if isinstance(label, tuple) and label[0] == "call" and label[1] == RANGE_NEW and len(label[2]) == 3 and label[2][0] == "lookup":
        return label[2][1], label[2][2]
    return None


def expect_range(a, expr):
    """-> (allowed start labels, allowed end labels, description) or error string"""
    syms = a.symbols
    m = re.match(r"span\((.*)\)$", expr)
    if m:
        A = B = m.group(1)
    else:
        m = re.match(r"from\((.*)\)to\((.*)\)$", expr)
        if not m:
            return "bad range expression %r" % expr
        A, B = m.group(1), m.group(2)
    ia, ib = find_sym(syms, A), find_sym(syms, B)
    if ia is None or ib is None:
        return "symbol %s / %s not found (or not unique) in production %s" % (A, B, [s["name"] for s in syms])
    st = [L(a, j) for j in captures_before(syms, ia)]
    en = [L(a, j) for j in captures_after(syms, ib)]
    return st, en, "from the @L capture directly before %s to the @R capture directly after %s" % (A, B)


def analyse(ctx):
    if getattr(ctx, "_wiring", None) is not None:
        return ctx._wiring
    facts, gram = ctx.mir, ctx.gram
    sp = spec()
    obls = []
    acts = grammar.user_actions(gram, facts)
    prods = sp["productions"]
    used_specs = set()
    helper_returns = {}
    by_nt = {}
    for p in gram["lowered"]["productions"]:
        by_nt.setdefault(p["nonterminal"], []).append(p)
    stats = {"user_actions": len(acts), "range_sites": 0, "doc_sites": 0, "fields": 0}

    def add(aspect, key, a, ok, msg, sample=None, witness=None):
        obls.append(Obl(aspect, key, a.where() if a is not None else None, ok, msg, sample, witness))

    # pre-pass: helper nonterminals that forward a single symbol unchanged are transparent
    FORWARD.clear()
    forwarders = set()
    per_nt = {}
    for a in acts:
        per_nt.setdefault(a.nt, []).append(a)
    known = set(prods) | set(sp["wrappers"]) | set(sp["recovery"]) | set(k.split("/")[0] for k in prods)
    for nt, lst in per_nt.items():
        if nt in known or re.sub(r"<.*>$", "", nt) in known or len(lst) != 1:
            continue
        a = lst[0]
        real = [j for j, sy in enumerate(a.symbols) if sy["kind"] not in LOOK]
        if len(real) != 1:
            continue
        try:
            ps = a.run(facts)
        except Unsupported:
            continue
        if len(ps) == 1 and not ps[0].effects and lab(ps[0].ret) == a.labels[real[0]]:
            FORWARD[nt] = a.symbols[real[0]]["name"]
            forwarders.add(nt)

    for a in acts:
        try:
            paths = a.run(facts, opaque_fns=["ast::Range::new", "ast::Position::new", "javadoc::get_javadoc", "diagnostic::Diagnostic::from_error_recovery"])
        except Unsupported as e:
            add("value", "wiring|%s/%d|unsupported" % (a.nt, a.prod["alternative"]), a, False, "the tabulator cannot interpret the action: %s" % e)
            continue
        names = [s["name"] for s in a.symbols]
        real = [s for s in a.symbols if s["kind"] not in LOOK]
        base = re.sub(r"<.*>$", "", a.nt)
        key0 = "%s/%d" % (a.nt, a.prod["alternative"])
        # ---- every Range::new anywhere in the action must use untouched captures, start = @L, end = @R (C01 D1 / C04 W1)
        rl = []
        for p in paths:
            collect_calls(lab(p.ret), RANGE_NEW, rl)
            for e in p.effects:
                if e[0] == "push":
                    collect_calls(lab(e[2]), RANGE_NEW, rl)
        seen = set()
        for r in rl:
            if r in seen:
                continue
            seen.add(r)
            stats["range_sites"] += 1
            ra = range_args(r)
            okc = ra is not None and all(is_capture(a, x, gram, by_nt) for x in ra)
            okd = okc and capture_kind(a, ra[0], gram, by_nt) == "lookahead" and capture_kind(a, ra[1], gram, by_nt) == "lookbehind"
            mono = okc and capture_pos(a, ra[0]) <= capture_pos(a, ra[1])
            add("offsets", "D1|%s|%s" % (key0, fmt_label(r)), a, okc,
                "every offset handed to Range::new must be an untouched position capture (@L / @R of the production, or one forwarded by a helper group): arithmetic on offsets can leave the token boundaries; found %s" % fmt_label(r),
                sample={"production": key0, "range": fmt_label(r)}, witness="void f() = 9999999999; (offset arithmetic lands inside a multi-byte character)" if not okc else None)
            if okc:
                add("range", "W1|%s|%s" % (key0, fmt_label(r)), a, okd and mono,
                    "a range must start at an @L capture and end at an @R capture that does not precede it in the production (start <= end; an @R as start would swallow preceding trivia): %s" % fmt_label(r))
        # ---- dispatch on the spec
        entry = None
        ekey = None
        for k in (a.nt, base):
            for cand in [k] + [x for x in prods if x.startswith(k + "/")]:
                e = prods.get(cand)
                if e is None:
                    continue
                if "when" in e and e["when"] not in names:
                    continue
                if "unless" in e and e["unless"] in names:
                    continue
                entry, ekey = e, cand
                break
            if entry:
                break
        wr = sp["wrappers"].get(a.nt)
        if any(s["kind"] == "error" for s in a.symbols):
            check_recovery(a, paths, add, sp)
            continue
        if entry is None and wr is not None and len(real) == 1 and real[0]["name"] in wr:
            check_wrapper(a, paths, wr[real[0]["name"]], add)
            continue
        if entry is None and a.nt == "Value":
            vs = sp["value_special"].get(" ".join(names))
            if vs is not None:
                check_value_special(a, paths, vs, add)
                continue
        if entry is None and a.nt in forwarders:
            add("value", "wiring|%s|forwarder" % key0, a, True, "%s only forwards %s" % (a.nt, FORWARD[a.nt]), {"production": key0, "forwards": FORWARD[a.nt]})
            continue
        if entry is None:
            add("value", "wiring|%s|no-spec" % key0, a, False, "production %s -> %s has no entry in spec/wiring.json: what it stores in the tree is unspecified (fail closed)" % (a.nt, " ".join(names)))
            continue
        used_specs.add(ekey)
        if entry.get("comma_separated"):
            check_comma(a, paths, add)
            continue
        if "direction" in entry:
            check_direction(a, paths, add, entry)
            continue
        if "value" in entry:
            check_value_expr(a, paths, entry["value"], add, key0)
            continue
        if "tuple" in entry:
            for p in paths:
                r = p.ret
                okk = isinstance(r, AdtVal) and r.ty == "tuple" and len(r.fields) == len(entry["tuple"])
                if not okk:
                    add("value", "wiring|%s|tuple" % key0, a, False, "expected a %d-tuple, got %r" % (len(entry["tuple"]), r))
                    continue
                for i, ex in enumerate(entry["tuple"]):
                    check_field(a, p, "%d" % i, r.fields[i].val, ex, add, key0, stats, gram, by_nt, facts)
            continue
        node = entry["node"]
        fnames = field_names(facts, node)
        missing = [f for f in fnames if f not in entry["fields"]]
        if missing:
            add("value", "wiring|%s|fields-without-spec" % key0, a, False, "fields %s of %s have no wiring spec" % (missing, node))
        for p in paths:
            r = p.ret
            if entry.get("option_of"):
                # Some(node) iff the named symbol is Some
                i = find_sym(a.symbols, entry["option_of"])
                cv = dict(p.conds).get(("variant", L(a, i)))
                if cv == "None":
                    add("value", "wiring|%s|none" % key0, a, isinstance(r, AdtVal) and r.vname == "None", "no tree exactly when %s yields none" % entry["option_of"])
                    continue
                r = r.fields[0].val if isinstance(r, AdtVal) and r.vname == "Some" else r
            elif entry.get("some"):
                r = r.fields[0].val if isinstance(r, AdtVal) and r.vname == "Some" else None
            if not (isinstance(r, AdtVal) and r.ty == node):
                add("value", "wiring|%s|node" % key0, a, False, "the action must build one %s node, got %r" % (node, r))
                continue
            for i, fn in enumerate(fnames):
                ex = entry["fields"].get(fn)
                if ex is None:
                    continue
                stats["fields"] += 1
                check_field(a, p, fn, r.fields[i].val if i in r.fields else None, ex, add, key0, stats, gram, by_nt, facts, node=node)
    # every spec entry must have matched a production (a renamed / removed rule must not pass vacuously)
    for k in prods:
        if k not in used_specs:
            obls.append(Obl("value", "wiring|spec-unmatched|%s" % k, "src/aidl.lalrpop", False, "spec/wiring.json describes `%s` but no production of the grammar matches it (anchor missing)" % k))
    ctx._wiring = (obls, stats)
    return ctx._wiring


def collect_calls(label, name, out):
    if isinstance(label, tuple):
        if len(label) == 3 and label[0] == "call" and label[1] == name:
            out.append(label)
        for x in label:
            collect_calls(x, name, out)


def helper_symbol(a, label, gram, by_nt):
    """a label like `S14:("=" <@L> <INTEGER>)?.Some.0.0` -> the inner production symbol it forwards,
    by following lalrpop's canned actions for `?` and parenthesised groups"""
    if not isinstance(label, str):
        return None
    m = re.match(r"S(\d+):(.*?)\.Some\.0(?:\.(\d+))?$", label)
    if not m:
        return None
    j, nm, k = int(m.group(1)), m.group(2), m.group(3)
    if j >= len(a.symbols) or a.symbols[j]["name"] != nm or not nm.endswith("?"):
        return None
    inner = nm[:-1]
    ps = by_nt.get(inner)
    if not ps or len(ps) != 1:
        return None
    sel = [s for s in ps[0]["symbols"] if s.get("named")]
    if k is None:
        return sel[0] if len(sel) == 1 else None
    k = int(k)
    return sel[k] if k < len(sel) else None


def is_capture(a, x, gram, by_nt):
    return capture_kind(a, x, gram, by_nt) is not None


def capture_kind(a, x, gram, by_nt):
    if isinstance(x, str):
        m = re.match(r"S(\d+):@[LR]$", x)
        if m:
            return a.symbols[int(m.group(1))]["kind"]
        h = helper_symbol(a, x, gram, by_nt)
        if h is not None and h["kind"] in LOOK:
            return h["kind"]
    return None


def capture_pos(a, x):
    m = re.match(r"S(\d+):", x)
    return int(m.group(1)) if m else -1


def check_field(a, p, fname, val, ex, add, key0, stats, gram, by_nt, facts, node=None):
    syms = a.symbols
    cm = dict(p.conds)
    got = lab(val) if val is not None else None
    fkey = "%s.%s" % (node or a.nt, fname)
    aspect = "range" if fname.endswith("_range") else ("doc" if fname == "doc" else "value")
    if fname in ("oneway", "oneway_range"):
        aspect2 = "oneway"
    else:
        aspect2 = None

    def emit(ok, msg, sample=None, witness=None, asp=None):
        add(asp or aspect, "wiring|%s|%s" % (key0, fname), a, ok, "%s (production %s -> %s): %s" % (fkey, a.nt, " ".join(s["name"] for s in syms), msg), sample, witness)
        if aspect2:
            add(aspect2, "wiring|%s|%s" % (key0, fname), a, ok, "%s: %s" % (fkey, msg), sample, witness)

    if ex == "any":
        return
    if ex == "doc":
        stats["doc_sites"] += 1
        want = ("call", "javadoc::get_javadoc", ("input", L(a, 0)))
        ok = syms[0]["kind"] == "lookahead" and got == want
        emit(ok, "documentation must be looked up from the construct's very first position capture (in front of annotations / direction), i.e. get_javadoc(input, %s); extracted %s" % (L(a, 0), fmt_label(got)),
             sample={"field": fkey, "doc": fmt_label(got)}, witness="a comment placed before the annotations would no longer attach" if not ok else None)
        return
    if ex.startswith("span(") or ex.startswith("from("):
        er = expect_range(a, ex)
        if isinstance(er, str):
            emit(False, er)
            return
        st, en, descr = er
        ra = range_args(got)
        ok = ra is not None and ra[0] in st and ra[1] in en
        emit(ok, "must run %s, i.e. Range::new(lookup, one of %s, one of %s); extracted %s" % (descr, st, en, fmt_label(got)),
             sample={"field": fkey, "range": fmt_label(got), "spec": ex})
        return
    m = re.match(r"val\((.*)\)$", ex)
    if m:
        i = find_sym(syms, m.group(1))
        ok = i is not None and got == L(a, i)
        emit(ok, "must be exactly the value of %s (text-preserving conversions only); extracted %s" % (m.group(1), fmt_label(got)), sample={"field": fkey, "value": fmt_label(got)})
        if ok and syms[i]["name"] in ("IDENT",) and fname == "name":
            add("ident", "ident|%s|%s" % (key0, fname), a, True, "%s comes from IDENT" % fkey, {"field": fkey, "terminal": "IDENT"})
        return
    m = re.match(r"opt\((.*)\)$", ex)
    if m:
        i = find_sym(syms, m.group(1))
        cv = cm.get(("variant", L(a, i))) if i is not None else None
        if cv == "Some":
            ok = isinstance(val, AdtVal) and val.vname == "Some" and lab(val.fields[0].val) == join_label(L(a, i), "Some.0")
        elif cv == "None":
            ok = isinstance(val, AdtVal) and val.vname == "None"
        else:
            ok = False
        emit(ok, "must be Some(text of %s) when present and None otherwise (path: %s); extracted %s" % (m.group(1), cv, fmt_label(got)), sample={"field": fkey, "when": cv, "value": fmt_label(got)})
        if ok and m.group(1) == "IDENT?":
            add("ident", "ident|%s|%s" % (key0, fname), a, True, "%s comes from IDENT" % fkey, {"field": fkey, "terminal": "IDENT"})
        return
    m = re.match(r"present\((.*)\)$", ex)
    if m:
        i = find_sym(syms, m.group(1))
        ok = i is not None and got in (("is_some", L(a, i)), ("not", ("is_none", L(a, i))))
        if i is not None and not ok and isinstance(val, Const) and val.kind == "bool":
            # decided by a match on the optional symbol (matches!(x, Some(_)), if let ...): a constant per path
            cvp = cm.get(("variant", L(a, i)))
            if cvp is None:
                cvp = {True: "Some", False: "None"}.get(cm.get(("is_some", L(a, i))))
            ok = cvp in ("Some", "None") and val.v == (cvp == "Some")
        emit(ok, "must be true exactly when %s is present; extracted %s" % (m.group(1), fmt_label(got)), sample={"field": fkey, "value": fmt_label(got)})
        return
    m = re.match(r"join\((.),(.*)\)$", ex)
    if m:
        i = find_sym(syms, m.group(2))
        ok = i is not None and got == ("call", "std::slice::<impl [T]>::join", (L(a, i), ("const", "str", m.group(1))))
        emit(ok, "must be the elements of %s joined by %r; extracted %s" % (m.group(2), m.group(1), fmt_label(got)), sample={"field": fkey, "value": fmt_label(got)})
        if ok:
            add("ident", "ident|%s|%s" % (key0, fname), a, "IDENT" in m.group(2), "%s is built from IDENT tokens only" % fkey, {"field": fkey, "terminal": m.group(2)})
        return
    m = re.match(r"flatten\((.*)\)$", ex)
    if m:
        i = find_sym(syms, m.group(1))
        want = ("call", "std::iter::Iterator::collect", (("call", "std::iter::Iterator::flatten", (("iter", L(a, i)),)),)) if i is not None else None
        ok = got == want
        emit(ok, "must be the members of %s in source order with recovered members dropped (into_iter().flatten().collect() and nothing else: no take_while / filter / rev / sort); extracted %s" % (m.group(1), fmt_label(got)),
             sample={"field": fkey, "value": fmt_label(got)})
        add("flatten", "flatten|%s|%s" % (key0, fname), a, ok, "%s keeps every well-formed sibling, in order" % fkey)
        return
    m = re.match(r"const\((.*)\)$", ex)
    if m:
        ok = isinstance(val, AdtVal) and val.vname == m.group(1)
        emit(ok, "must be the constant %s; extracted %s" % (m.group(1), fmt_label(got)))
        add("arity", "arity|%s|kind" % key0, a, ok, "kind of %s" % a.nt, {"production": key0, "kind": m.group(1)})
        return
    if ex == "empty":
        ok = isinstance(val, VecVal) and len(val.elems) == 0
        emit(ok, "must be empty; extracted %s" % fmt_label(got))
        add("arity", "arity|%s|children" % key0, a, ok, "children of %s: none" % a.nt, {"production": key0, "children": 0})
        return
    m = re.match(r"list\((.*)\)$", ex)
    if m:
        roles = m.group(1).split(",")
        idx = [find_sym(syms, r) for r in roles]
        ok = isinstance(val, VecVal) and None not in idx and [lab(c.val) for c in val.elems] == [L(a, i) for i in idx]
        emit(ok, "must be exactly [%s] in that order; extracted %s" % (", ".join(roles), fmt_label(got)), sample={"field": fkey, "children": fmt_label(got)})
        add("arity", "arity|%s|children" % key0, a, ok, "children of %s: %d" % (a.nt, len(roles)), {"production": key0, "children": len(roles)})
        return
    m = re.match(r"some_payload\((.*)\)$", ex)
    if m:
        i = find_sym(syms, m.group(1))
        ok = got == join_label(L(a, i), "Some.0")
        emit(ok, "must be the payload of %s; extracted %s" % (m.group(1), fmt_label(got)))
        return
    m = re.match(r"collect_all\((.*)\)$", ex)
    if m:
        i = find_sym(syms, m.group(1))
        want = ("call", "std::iter::Iterator::collect", (("iter", ("call", "std::option::Option::<T>::unwrap_or_default", (L(a, i),))),))
        ok = got == want
        emit(ok, "must collect every parameter of %s (none when absent); extracted %s" % (m.group(1), fmt_label(got)))
        return
    m = re.match(r"parse_u32\(INTEGER in (.*)\)$", ex)
    if m:
        i = find_sym(syms, m.group(1))
        opt = L(a, i)
        cv = cm.get(("variant", opt))
        pushes = [e for e in p.effects if e[0] == "push"]
        if cv == "None":
            ok = isinstance(val, AdtVal) and val.vname == "None" and not pushes
            emit(ok, "no code -> None, no diagnostic; extracted %s, %d diagnostics" % (fmt_label(got), len(pushes)))
            return
        # which component of the group is the INTEGER, which the capture in front of it
        sel = [s for s in by_nt[a.symbols[i]["name"][:-1]][0]["symbols"] if s.get("named")]
        try:
            ki = [k for k, s in enumerate(sel) if s["name"] == "INTEGER"][0]
        except IndexError:
            emit(False, "the optional group does not forward an INTEGER")
            return
        inner_syms = by_nt[a.symbols[i]["name"][:-1]][0]["symbols"]
        ii = [k for k, s in enumerate(inner_syms) if s["name"] == "INTEGER"][0]
        caps = [k for k, s in enumerate(sel) if s["kind"] == "lookahead" and inner_syms.index(s) == ii - 1]
        text = join_label(opt, "Some.0.%d" % ki) if len(sel) > 1 else join_label(opt, "Some.0")
        parse = ("call", "rules::aidl::core::str::<impl str>::parse", (text,))
        # the number type the text is parsed as (generic argument of str::parse at the call site): codes are u32
        ptys = set()
        for fp in [a.fn_path] + facts.closures_of(a.fn_path, nested=True):
            for b in facts.fns[fp]["body"]["blocks"]:
                t = b["term"]
                if t["k"] == "call":
                    ci = callee_info(t)
                    if ci and (ci.get("resolved") or ci["def"]).endswith("<impl str>::parse"):
                        ptys.add(tuple(ci.get("resolved_args") or ci.get("args") or ()))
        if ptys != set([("u32",)]):
            emit(False, "the transact code must be parsed as u32 (every value of the INTEGER token that fits 32 bits is a code); str::parse is instantiated with %r" % sorted(ptys))
            return
        pv = [v for l, v in p.conds if l == ("variant", parse)]
        if pv == ["Ok"]:
            ok = isinstance(val, AdtVal) and val.vname == "Some" and lab(val.fields[0].val) == ("field", parse, "Ok.0") and not pushes
            emit(ok, "parsable code -> Some(str::parse(text of INTEGER)), no diagnostic; extracted %s" % fmt_label(got), sample={"field": fkey, "value": fmt_label(got)})
        elif pv == ["Err"]:
            okv = isinstance(val, AdtVal) and val.vname == "None" and len(pushes) == 1
            okr = False
            rg = None
            if okv:
                d = diag_of(pushes[0])
                rg = d["range"]
                ra = range_args(rg)
                starts = [join_label(opt, "Some.0.%d" % k) for k in caps]
                ends = [L(a, j) for j in captures_after(syms, i)]
                okr = d["kind"] == "Error" and ra is not None and ra[0] in starts and ra[1] in ends
            emit(okv, "unparsable code -> None and exactly one diagnostic; extracted %s with %d diagnostics" % (fmt_label(got), len(pushes)))
            add("range", "G2|%s|transact-code-error" % key0, a, okr,
                "the 'invalid transact code' Error must lie exactly on the INTEGER token: from the @L capture directly in front of it (inside the `=` group) to the @R capture directly after the group; extracted %s" % fmt_label(rg),
                sample={"diagnostic_range": fmt_label(rg)}, witness="void f() =9999999999; (range must start at the first digit whatever the spacing)" if not okr else None)
        else:
            emit(False, "unexpected path %r" % (p.conds,))
        return
    emit(False, "unknown spec expression %r" % ex)


def check_wrapper(a, paths, wrapper, add):
    real = [j for j, s in enumerate(a.symbols) if s["kind"] not in LOOK]
    j = real[0]
    key0 = "%s/%d" % (a.nt, a.prod["alternative"])
    ok = len(paths) == 1 and not paths[0].effects
    got = None
    if ok:
        r = paths[0].ret
        got = repr(r) if isinstance(r, AdtVal) and r.label is None else fmt_label(lab(r))
        if wrapper == "id":
            ok = lab(r) == L(a, j)
        elif wrapper == "Some":
            ok = isinstance(r, AdtVal) and r.vname == "Some" and lab(r.fields[0].val) == L(a, j)
        else:
            m = re.match(r"Some\((.*)::(\w+)\)$", wrapper)
            inner = r.fields[0].val if isinstance(r, AdtVal) and r.vname == "Some" else None
            ok = isinstance(inner, AdtVal) and inner.ty == m.group(1) and inner.vname == m.group(2) and lab(inner.fields[0].val) == L(a, j)
    add("value", "wiring|%s|wrapper" % key0, a, ok, "%s -> %s must forward its symbol as %s; extracted %s" % (a.nt, a.symbols[j]["name"], wrapper, got), {"production": key0, "wrapper": wrapper})


def check_value_special(a, paths, vs, add):
    key0 = "%s/%d" % (a.nt, a.prod["alternative"])
    ok = len(paths) == 1 and not paths[0].effects
    got = fmt_label(lab(paths[0].ret)) if paths else None
    if ok:
        l = lab(paths[0].ret)
        m = re.match(r"const\((.*)\)$", vs)
        if m:
            ok = l == ("const", "str", m.group(1))
        else:
            m = re.match(r"fmt\((.*),(.*),(.*)\)$", vs)
            i1, i2 = find_sym(a.symbols, m.group(2)), find_sym(a.symbols, m.group(3))
            ok = l == ("fmt", m.group(1), (("fmtarg", "display", L(a, i1)), ("fmtarg", "display", L(a, i2))))
    add("value", "wiring|%s|value" % key0, a, ok, "Value -> %s must yield %s; extracted %s" % (" ".join(s["name"] for s in a.symbols), vs, got), {"production": key0, "value": got})


def check_value_expr(a, paths, ex, add, key0):
    m = re.match(r"qualified\((.*),(.*)\)$", ex)
    if m:
        i1, i2 = find_sym(a.symbols, m.group(1)), find_sym(a.symbols, m.group(2))
        ok = len(paths) == 2
        # same string, written as one join over the prefix segments followed by the last one
        chained = ("call", "std::slice::<impl [T]>::join", (("call", "std::iter::Iterator::collect", (("call", "std::iter::Iterator::chain", (("iter", L(a, i1)), ("call", "std::iter::once", (L(a, i2),)))),)), ("const", "str", ".")))
        pure = ("std::iter::once", "std::iter::Iterator::chain", "std::iter::Iterator::collect")
        if len(paths) == 1 and all(e[0] == "call" and e[1] in pure for e in paths[0].effects) and lab(paths[0].ret) == chained:
            ok = True
            paths_ = []
        else:
            paths_ = paths
        for p in paths_:
            empty = [v for l, v in p.conds if isinstance(l, tuple) and l[0] == "call" and l[1].endswith("is_empty") and l[2] == (L(a, i1),)]
            l = lab(p.ret)
            if empty == [True]:
                ok = ok and l == L(a, i2)
            elif empty == [False]:
                ok = ok and l == ("fmt", "{}.{}", (("fmtarg", "display", ("call", "std::slice::<impl [T]>::join", (L(a, i1), ("const", "str", ".")))), ("fmtarg", "display", L(a, i2))))
            else:
                ok = False
        add("value", "wiring|%s|value" % key0, a, ok, "%s must be the segments joined by '.' irrespective of spacing (the last IDENT alone when there is no prefix); extracted %r" % (
            a.nt, [fmt_label(lab(p.ret)) for p in paths]), {"production": key0, "value": [fmt_label(lab(p.ret)) for p in paths]})
        add("ident", "ident|%s|segments" % key0, a, ok, "qualified name segments come from IDENT tokens only", {"production": key0})
        return
    m = re.match(r"flatten\((.*)\)$", ex)
    if m:
        i = find_sym(a.symbols, m.group(1))
        want = ("call", "std::iter::Iterator::collect", (("call", "std::iter::Iterator::flatten", (("iter", L(a, i)),)),))
        ok = len(paths) == 1 and lab(paths[0].ret) == want
        add("value", "wiring|%s|value" % key0, a, ok, "%s must keep every annotation in order; extracted %r" % (a.nt, [fmt_label(lab(p.ret)) for p in paths]), {"production": key0})
        return
    add("value", "wiring|%s|value" % key0, a, False, "unknown value expression %r" % ex)


def check_comma(a, paths, add):
    key0 = "%s/%d" % (a.nt, a.prod["alternative"])
    ok = len(paths) == 2 and len(a.symbols) == 2
    for p in paths:
        cv = dict(p.conds).get(("variant", L(a, 1)))
        pushes = [e for e in p.effects if e[0] == "push"]
        other = [e for e in p.effects if e[0] != "push"]
        if cv == "Some":
            ok = ok and len(pushes) == 1 and pushes[0][1] == L(a, 0) and lab(pushes[0][2]) == join_label(L(a, 1), "Some.0") and base_label(lab(p.ret)) == L(a, 0) and not other
        elif cv == "None":
            ok = ok and not pushes and lab(p.ret) == L(a, 0) and not other
        else:
            ok = False
    add("value", "wiring|%s|comma-separated" % key0, a, ok, "%s must be the `(T \",\")*` elements followed by the optional last element (pushed after the prefix), nothing reordered or dropped" % a.nt,
        {"production": key0, "paths": len(paths)})


def check_direction(a, paths, add, entry):
    key0 = "%s/%d" % (a.nt, a.prod["alternative"])
    i = find_sym(a.symbols, entry["direction"])
    opt = L(a, i)
    text = join_label(opt, "Some.0")
    table = {}
    panics = []
    ok = True
    er = expect_range(a, "span(%s)" % entry["direction"])
    for p in paths:
        cm = p.conds
        pres = [v for l, v in cm if l == ("variant", opt)]
        eqs = [(l[2], v) for l, v in cm if isinstance(l, tuple) and l[0] == "eq" and l[1] == text]
        if pres == ["None"]:
            table[None] = p.ret.vname if isinstance(p.ret, AdtVal) else repr(p.ret)
            continue
        true = [c for c, v in eqs if v]
        if p.exit == "panic":
            panics.append(sorted(c[2] for c, v in eqs if not v and isinstance(c, tuple)))
            continue
        if len(true) != 1 or not isinstance(p.ret, AdtVal):
            ok = False
            continue
        word = true[0][2] if isinstance(true[0], tuple) and true[0][0] == "const" else fmt_label(true[0])
        rg = lab(p.ret.fields[0].val) if 0 in p.ret.fields else None
        ra = range_args(rg)
        rok = ra is not None and not isinstance(er, str) and ra[0] in er[0] and ra[1] in er[1]
        table[word] = (p.ret.vname, rok)
    want = {"in": ("In", True), "out": ("Out", True), "inout": ("InOut", True), None: "Unspecified"}
    add("direction", "wiring|%s|direction-table" % key0, a, ok and table == want,
        "Direction must map the token texts in / out / inout to In / Out / InOut carrying the range of the DIRECTION token, and absence to Unspecified; extracted %r" % (table,),
        {"production": key0, "table": repr(table)})
    add("value", "wiring|%s|direction-table" % key0, a, ok and table == want, "Direction mapping: %r" % (table,))
    add("range", "wiring|%s|direction-range" % key0, a, all(v[1] for k, v in table.items() if k is not None and isinstance(v, tuple)), "direction ranges span exactly the DIRECTION token")
    # the unreachable!() arm: words the action does not handle; discharged by the token language (C01 D5)
    add("unreachable", "D5|%s" % key0, a, len(panics) <= 1, "at most one fall-through arm", {"handled_words": sorted(k for k in table if k), "panic_paths": len(panics)})
    analyse_direction_words[0] = sorted(k for k in table if k)


analyse_direction_words = [None]


def check_recovery(a, paths, add, sp):
    key0 = "%s/%d" % (a.nt, a.prod["alternative"])
    ok = len(paths) == 2 and a.defn.get("fallible")
    det = []
    for p in paths:
        calls = [l for l, v in p.conds if isinstance(l, tuple) and l[0] == "variant" and isinstance(l[1], tuple) and l[1][0] == "call" and l[1][1] == "diagnostic::Diagnostic::from_error_recovery"]
        cv = [v for l, v in p.conds if l in calls]
        pushes = [e for e in p.effects if e[0] == "push" and e[1] == "diagnostics"]
        r = p.ret
        ret_ok = isinstance(r, AdtVal) and r.vname == "Ok" and isinstance(r.fields[0].val, AdtVal) and r.fields[0].val.vname == "None"
        det.append((cv, len(pushes), ret_ok))
        if not calls:
            ok = False
            continue
        c = calls[0][1]
        arg_ok = len(c[2]) == 3 and c[2][1] == "lookup" and c[2][2] == L(a, 0)
        if cv == ["Some"]:
            ok = ok and len(pushes) == 1 and lab(pushes[0][2]) == ("field", c, "Some.0") and ret_ok and arg_ok
        elif cv == ["None"]:
            ok = ok and not pushes and ret_ok and arg_ok
        else:
            ok = False
    add("recovery", "S1|%s" % key0, a, ok,
        "the recovery alternative of %s must convert the recovered error with Diagnostic::from_error_recovery(.., lookup, <the error>), push the resulting diagnostic and yield Ok(None); extracted (conversion result, pushes, Ok(None)) per path: %r" % (a.nt, det),
        {"production": key0, "paths": repr(det)}, witness="a malformed member would be dropped silently" if not ok else None)
