"""C20 - syntax-error messages name every token the parser was prepared to accept."""
import re
from absint import *
from domain import *
import cfg

ETS = "diagnostic::expected_token_str"
FPE = "diagnostic::Diagnostic::from_parse_error"
FER = "diagnostic::Diagnostic::from_error_recovery"
MAXLEN = 24


def maxlen(ctx):
    return 64 if ctx.tier == "thorough" else MAXLEN


def leaves(l, out):
    if isinstance(l, tuple):
        for x in l:
            leaves(x, out)
    elif isinstance(l, str):
        out.append(l)
    return out


KNOWN_CARRIERS = ("fmt", "fmtarg", "vec", "const", "adt", "index", "field", "mut")


def unknown_calls(l, inside=False):
    """calls (other than join) in a provenance term that have an element v[i] or a vector of them beneath"""
    out = []
    if isinstance(l, tuple) and l:
        if l[0] == "call":
            has_elem = any(re.match(r"v\[\d+\]$", x) for x in leaves(l, []))
            if has_elem and not l[1].endswith("::join"):
                out.append(l[1])
        for x in l:
            out += unknown_calls(x)
    return out


def recovery_table(facts):
    """from_error_recovery tabulated as a whole (from_parse_error opaque): {'ok': bool, 'fields': {name: label}, 'message': label, 'conv': label, 'detail': str}
    - independent of whether the rewrite is written with Option::map and a closure, with `?` and a field assignment, or with a match"""
    paths = Machine(facts, opaque_fns=[FPE], pure_fns=[FPE]).run(FER, [sym_ref("msg"), sym_ref("lookup"), Opaque("error_recovery", "lalrpop_util::ErrorRecovery")])
    conv = ("call", FPE, ("lookup", "error_recovery.error"))
    out = {"ok": False, "fields": {}, "message": None, "conv": conv, "detail": "", "paths": len(paths)}
    some = none = 0
    for p in paths:
        cv = [v for l, v in p.conds if l == ("variant", conv)]
        r = deref_val(p.ret)
        if p.exit != "return" or p.effects or len(cv) != 1 or len(p.conds) != 1:
            out["detail"] = "path with exit %s, effects %r, conditions %r" % (p.exit, [fmt_label(e[1:3]) for e in p.effects], [(fmt_label(l), v) for l, v in p.conds])
            return out
        if cv[0] == "None":
            none += 1
            if not (isinstance(r, AdtVal) and r.vname == "None"):
                out["detail"] = "no converted diagnostic but the result is %r" % (r,)
                return out
        else:
            some += 1
            d = deref_val(r.fields[0].val) if isinstance(r, AdtVal) and r.vname == "Some" and 0 in r.fields else None
            if not isinstance(d, AdtVal):
                out["detail"] = "a converted diagnostic exists but the result is %r" % (r,)
                return out
            names = DIAG_FIELDS.get("names") or {0: "kind", 1: "range", 2: "message", 3: "context_message", 4: "hint", 5: "related_infos"}
            base = ("field", conv, "Some.0")
            for i, nm in names.items():
                out["fields"][nm] = lab(d.fields[i].val) if i in d.fields else (join_label(d.label, nm) if d.label is not None else None)
            out["message"] = out["fields"].get("message")
            out["base"] = base
    out["ok"] = some == 1 and none == 1
    if not out["ok"]:
        out["detail"] = "%d paths with / %d without a converted diagnostic" % (some, none)
    return out


def run(ctx, rep):
    facts = ctx.mir
    rep.rule("A13", "slice coverage: for every length n in 0..%d the returned sentence of expected_token_str(v) is built from every element v[0..n) exactly once and from nothing else that is dynamic (provenance of the format arguments, join and index expressions)" % MAXLEN)
    rep.rule("F2", "from_parse_error tabulated over the ParseError variants: the `expected` vector of UnrecognizedEOF / UnrecognizedToken reaches expected_token_str untouched and its result is part of the message")
    rep.rule("F3", "from_error_recovery embeds the converted message whole")
    rep.rule("F4", "every error path (Err branch of add_content, recovery actions) goes through from_parse_error")
    fn = facts.fn(ETS)
    arms = {}
    MAXL = maxlen(ctx)
    for n in range(0, MAXL + 1):
        v = VecVal([Cell(Opaque("v[%d]" % i)) for i in range(n)])
        paths = Machine(facts).run(ETS, [Ref(Cell(v))])
        if len(paths) != 1 or paths[0].exit != "return":
            rep.fail("A13", "C20|A13|%s|len=%d|exit" % (ETS, n), cfg.where(fn), "expected_token_str with %d element(s): %r" % (n, [(p.exit, p.ret) for p in paths]))
            continue
        p = paths[0]
        lv = leaves(lab(p.ret), [])
        used = [x for x in lv if re.match(r"v\[\d+\]$", x)]
        want = ["v[%d]" % i for i in range(n)]
        missing = [x for x in want if x not in used]
        dup = sorted(set(x for x in used if used.count(x) > 1))
        foreign = [x for x in used if x not in want]
        arm = "len=%d" % n if n < 3 else "len>=3"
        miss_sym = ",".join("len-%d" % (n - int(x[2:-1])) for x in missing) if n >= 3 else ",".join(missing)
        unknown = sorted(set(unknown_calls(lab(p.ret))))
        ok = not missing and not dup and not foreign and not p.effects and used == want
        for u in unknown:
            rep.fail("A13", "C20|A13|%s|arm=%s|unknown-carrier|%s" % (ETS, arm, u), cfg.where(fn),
                     "with %d expected tokens the elements pass through `%s`, which the rule does not know to keep every element (only indexing, range slicing, join and format! are known to): tokens may be dropped on the way "
                     "(e.g. chunks_exact discards the remainder)" % (n, u), witness={"expected": n, "sentence": fmt_label(lab(p.ret))[:300]})
        if n == 0:
            # nothing expected: the sentence must name nothing at all (an invented "Expected EOF" names a token kind lalrpop never lists)
            rl0 = lab(p.ret)
            lits0 = []

            def lit0(l):
                if isinstance(l, tuple) and l and l[0] == "const" and l[1] in ("str", "bytes"):
                    lits0.append(str(l[2]))
                elif isinstance(l, tuple) and l and l[0] == "fmt":
                    lits0.append(l[1] if isinstance(l[1], str) else repr(l[1]))
                    for a in l[2] if len(l) > 2 and isinstance(l[2], tuple) else ():
                        lit0(a)
                elif isinstance(l, tuple):
                    for x in l:
                        lit0(x)
            lit0(rl0)
            empty = all(not x.strip() for x in lits0)
            rep.check(empty, "A13", "C20|A13|%s|empty-set" % ETS, cfg.where(fn),
                      "with no expected token the sentence must be empty: it is built from the text %r, which names something the parser did not expect" % (lits0,), sample={"n": 0, "text": lits0})
        key = "C20|A13|%s|arm=%s|missing=%s" % (ETS, arm, miss_sym) if missing else "C20|A13|%s|arm=%s|n=%d" % (ETS, arm, n)
        arms.setdefault(arm, []).append(n)
        rep.check(ok, "A13", key, cfg.where(fn),
                  "expected_token_str with %d expected token(s): the sentence must name each of them once, in order; sentence = %s; missing %r, duplicated %r" % (n, fmt_label(lab(p.ret))[:220], missing, dup),
                  witness={"expected": ["T%d" % i for i in range(n)], "sentence_built_from": used},
                  sample={"n": n, "sentence": fmt_label(lab(p.ret))[:200]})
    rep.floor("A13", "vector lengths examined", sum(len(v) for v in arms.values()), MAXL + 1)
    # ---- F2
    ff = facts.fn(FPE)
    m = Machine(facts, opaque_fns=[ETS, "ast::Range::new"], pure_fns=[ETS, "ast::Range::new"])
    paths = m.run(FPE, [sym_ref("lookup"), Opaque("e", "lalrpop_util::ParseError")])
    seen = {}
    raw = {}
    for p in paths:
        var = [v for l, v in p.conds if isinstance(l, tuple) and l[0] == "variant" and l[1] == "e"]
        var = var[0] if var else "?"
        r = deref_val(p.ret)
        if isinstance(r, AdtVal) and r.vname == "Some":
            d = deref_val(r.fields[0].val)
            msg = lab(d.fields[2].val) if isinstance(d, AdtVal) and 2 in d.fields else None
            kind = d.fields[0].val.vname if isinstance(d, AdtVal) and isinstance(d.fields[0].val, AdtVal) else None
            seen[var] = (kind, fmt_label(msg), fmt_label(range_label(d.fields[1].val)) if isinstance(d, AdtVal) else None)
            raw.setdefault(var, []).extend([msg] + [lab(d.fields[i].val) for i in (3, 4) if i in d.fields])
        elif isinstance(r, AdtVal) and r.vname == "None":
            seen[var] = (None, None, None)
        else:
            seen[var] = ("?", repr(r), None)
    rep.floor("F2", "ParseError variants handled", len(seen), 5)
    for var in ("UnrecognizedEOF", "UnrecognizedToken"):
        kind, msg, rng = seen.get(var, (None, None, None))
        want = "%s(e.%s.expected)" % (ETS, var)
        ok = kind == "Error" and msg is not None and want in msg and msg.startswith("(fmt, ")
        rep.check(ok, "F2", "C20|F2|%s" % var, cfg.where(ff), "ParseError::%s: the message must embed expected_token_str(&expected) of the untouched expectation vector; extracted kind %s, message %s" % (var, kind, msg),
                  sample={"variant": var, "message": msg})
    # ---- F5: the message names nothing outside the set
    rep.rule("F5", "the message names nothing outside the set: every dynamic part of a syntax-error message (message, context, hint) is the offending token's own text or expected_token_str(expected); "
                   "no literal part contains the display name of a grammar terminal (IDENT, INTEGER, ... read from the grammar)")
    bare = sorted(t["name"] for t in ctx.gram["terminals"] if t["kind"] == "bare")
    rep.floor("F5", "named terminals of the grammar", len(bare), 15)
    word = re.compile(r"(?<![A-Za-z0-9_])(%s)(?![A-Za-z0-9_])" % "|".join(re.escape(b) for b in bare))

    def dyn_parts(l, var, out_dyn, out_lit):
        if isinstance(l, tuple) and l and l[0] == "fmt":
            out_lit.append(l[1] if isinstance(l[1], str) else repr(l[1]))
            for a in l[2]:
                dyn_parts(a[2] if isinstance(a, tuple) and a and a[0] == "fmtarg" else a, var, out_dyn, out_lit)
        elif isinstance(l, tuple) and l and l[0] == "const":
            out_lit.append(str(l[-1]))
        elif isinstance(l, tuple) and l and l[0] == "adt" and l[1] == "std::option::Option":
            for _, x in (l[3] or ()):
                dyn_parts(x, var, out_dyn, out_lit)
        elif isinstance(l, tuple) and l and l[0] == "call" and l[1].rsplit("::", 1)[-1] in ("to_owned", "to_string", "from", "into", "clone") and len(l[2]) == 1:
            dyn_parts(l[2][0], var, out_dyn, out_lit)
        elif l is not None:
            out_dyn.append(l)
    for var in sorted(raw):
        dyn, lit = [], []
        for l in raw[var]:   # every path of this variant
            dyn_parts(l, var, dyn, lit)
        allowed = lambda x: x == ("call", ETS, ("e.%s.expected" % var,)) or (isinstance(x, str) and (x == "e.%s.token.1" % var or x.startswith("e.%s.token.1." % var)))
        foreign = [fmt_label(x) for x in dyn if not allowed(x)]
        named = sorted(set(m.group(1) for t in lit for m in word.finditer(t)))
        rep.check(not foreign and not named, "F5", "C20|F5|%s" % var, cfg.where(ff),
                  "ParseError::%s: the diagnostic's texts may be built only from the offending token's text and expected_token_str(expected); other dynamic parts %r, terminal names in literal text %r "
                  "(such a part can name a token kind the parser was not prepared to accept at this point)" % (var, foreign, named),
                  sample={"variant": var, "dynamic_parts": [fmt_label(x) for x in dyn], "literals": lit})
    # literal parts of expected_token_str itself
    lits = []
    for n in (0, 1, 2, 3):
        v = VecVal([Cell(Opaque("v[%d]" % i)) for i in range(n)])
        for p in Machine(facts).run(ETS, [Ref(Cell(v))]):
            d, l2 = [], []
            dyn_parts(lab(p.ret), "-", d, l2)
            lits += l2
    named = sorted(set(m.group(1) for t in lits for m in word.finditer(t)))
    rep.check(not named and bool(lits), "F5", "C20|F5|expected_token_str|literals", cfg.where(fn), "the fixed text of expected_token_str must not name a terminal itself; found %r in %r" % (named, lits[:6]), sample={"literals": sorted(set(lits))})
    # ---- F3
    fe = facts.fn(FER)
    tb = recovery_table(facts)
    det = None
    ok = tb["ok"]
    if ok:
        base = tb["base"]
        msg = tb["message"]
        det = fmt_label(msg)
        keep = all(tb["fields"].get(nm) in (("field", base, nm), join_label(base, nm)) for nm in ("kind", "range", "context_message", "hint", "related_infos"))
        ok = keep and isinstance(msg, tuple) and msg[0] == "fmt" and ("fmtarg", "display", "msg") in msg[2] and \
            any(a in msg[2] for a in (("fmtarg", "display", ("field", base, "message")), ("fmtarg", "display", join_label(base, "message"))))
    rep.check(ok, "F3", "C20|F3", cfg.where(fe), "from_error_recovery must convert error_recovery.error with from_parse_error and keep kind / range / hints, prefixing the whole message; extracted message %r, %s" % (
        det, tb["detail"] or ("fields %r" % dict((k, fmt_label(v)[:80]) for k, v in tb["fields"].items()))), sample={"message": det})
    # ---- F4 (MIR part): add_content's Err branch converts with from_parse_error; recovery actions are checked in the grammar rules (C03 S1)
    pa = Machine(facts, opaque_fns=[FPE]).run("parser::Parser::<ID>::add_content", [sym_ref("self", mut=True), Opaque("id"), sym_ref("content")])
    errp = [p for p in pa if any(v == "Err" for l, v in p.conds)]
    okf = bool(errp) and all(any(e[0] == "call" and e[1] == FPE and "Err.0" in fmt_label(e[2][1]) for e in p.effects) for p in errp)
    rep.check(okf, "F4", "C20|F4|add_content", cfg.where(facts.fn("parser::Parser::<ID>::add_content")), "the Err branch of add_content must convert the parse error with from_parse_error")
    acts = [p for p in facts.fns if p.startswith("rules::aidl::__action")]
    rec = []
    for a in acts:
        body = facts.fns[a]["body"]
        if cfg.call_sites(body, lambda c: c == FER):
            rec.append(a)
    import c12
    c12.add_content_rule(ctx, rep, "C20", "F4")   # nothing rewrites the stored messages after the conversion
    rep.floor("F4", "recovery actions calling from_error_recovery", len(rec), 4)
    rep.assumptions += ["TB-1 rustc MIR", "TB-2 the generated parser supplies its own expectation set in ParseError::{UnrecognizedToken, UnrecognizedEOF}.expected",
                        "bound: vector lengths 0..%d (the property explores sizes 0 to ~15); the len>=3 arm is one straight-line expression in len" % MAXLEN]
