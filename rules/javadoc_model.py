"""C18 N: the normalisation pipeline of javadoc::parse_javadoc as an extracted model.

Extraction (abstract interpretation of parse_javadoc and its closures): the three regex constants,
the replacement strings, the set of characters trimmed, the joiner and the shape
split -> map(trim, replace_all) -> map(replace_all) -> collect -> join.  The extracted model is then
evaluated (with Python's `re`, whose semantics coincide with the regex crate's for these
constructs: character classes, greedy star/optional, one capture group, leftmost non-overlapping
replacement) on a bounded family of doc-comment bodies and compared with a reference normaliser
written from the statement."""
import itertools, re
from absint import *
from closures import run_closure

PJ = "javadoc::parse_javadoc"
PURE = ["regex::Regex::new", "std::result::Result::<T, E>::unwrap", "regex::Regex::split", "regex::Regex::replace_all",
        "rules::aidl::core::str::<impl str>::trim_matches", "std::iter::Iterator::collect",
        "<std::borrow::Cow<'_, str> as std::string::ToString>::to_string", "<std::borrow::Cow<'a, str> as std::string::ToString>::to_string"]


def regex_const(l):
    """label of `Regex::new(<const>).unwrap()` -> pattern"""
    if isinstance(l, tuple) and l[0] == "call" and l[1].endswith("::unwrap") and len(l[2]) == 1:
        r = l[2][0]
        if isinstance(r, tuple) and r[0] == "call" and r[1] == "regex::Regex::new" and r[2][0][:2] == ("const", "str"):
            return r[2][0][2]
    return None


def extract(facts):
    fn = facts.fn(PJ)
    ps = Machine(facts, pure_fns=PURE).run(PJ, [sym_ref("s")])
    if len(ps) != 1 or ps[0].effects:
        raise Unsupported("parse_javadoc: %d paths / effects" % len(ps))
    l = lab(ps[0].ret)
    m = {}
    try:
        assert l[0] == "call" and l[1].endswith("::join")
        coll, joiner = l[2]
        m["joiner"] = joiner[2]
        assert coll[0] == "call" and coll[1].endswith("::collect")
        it2 = coll[2][0]
        assert it2[0] == "adt" and it2[1] == "iter:map"
        f2 = dict(it2[3])
        it1 = f2[0]
        clo2 = f2[1]
        assert it1[0] == "adt" and it1[1] == "iter:map"
        f1 = dict(it1[3])
        src = f1[0]
        clo1 = f1[1]
        assert src[0] == "call" and src[1] == "regex::Regex::split" and src[2][1] == "s"
        m["split"] = regex_const(src[2][0])
        c1, c2 = clo1[1][len("closure:"):], clo2[1][len("closure:"):]
        m["re_a"] = regex_const(dict(clo1[3])[0])
        m["re_b"] = regex_const(dict(clo2[3])[0])
    except (AssertionError, KeyError, IndexError, TypeError) as e:
        raise Unsupported("parse_javadoc no longer has the shape split -> map -> map -> collect -> join: %s" % fmt_label(l)[:300])
    if None in (m["split"], m["re_a"], m["re_b"]):
        raise Unsupported("a regex of parse_javadoc is not a string constant")
    # closure 1: re.replace_all(s.trim_matches(pred), REPL).to_string()
    cp, _ = run_closure(facts, c1, {"re": Opaque("RE_A")}, [sym_ref("part")], pure_fns=PURE)
    if len(cp) != 1:
        raise Unsupported("per-paragraph closure has %d paths" % len(cp))
    l1 = lab(cp[0].ret)
    while isinstance(l1, tuple) and l1[0] == "call" and l1[1].endswith("to_string"):
        l1 = l1[2][0]
    if not (isinstance(l1, tuple) and l1[0] == "call" and l1[1] == "regex::Regex::replace_all" and l1[2][0] == "RE_A"):
        raise Unsupported("per-paragraph closure: %s" % fmt_label(l1)[:200])
    tm = l1[2][1]
    m["repl_a"] = l1[2][2][2] if l1[2][2][:2] == ("const", "str") else None
    if not (isinstance(tm, tuple) and tm[0] == "call" and tm[1].endswith("trim_matches") and tm[2][0] == "part"):
        raise Unsupported("per-paragraph closure does not trim its input: %s" % fmt_label(tm)[:200])
    pred = tm[2][1]
    pc = pred[1][len("closure:"):] if isinstance(pred, tuple) and pred[0] == "adt" and str(pred[1]).startswith("closure:") else None
    is_fn = False
    if pc is None and isinstance(pred, tuple) and len(pred) == 2 and pred[0] == "fn" and pred[1] in facts.fns:
        pc, is_fn = pred[1], True   # a (nested) function used as predicate
    if pc is None:
        raise Unsupported("trim predicate is neither a closure nor a local function: %s" % fmt_label(pred)[:120])
    trimmed = []
    body = facts.fn(pc)["body"]
    import scanner
    cls = scanner.char_classes(body)
    for name, cpnt in sorted(cls.items()):
        pp = Machine(facts).run(pc, ([] if is_fn else [Ref(Cell(AdtVal("closure:" + pc, None, {})))]) + [Const("int", cpnt)])
        if len(pp) != 1 or not isinstance(pp[0].ret, Const):
            raise Unsupported("trim predicate on %r" % name)
        if pp[0].ret.v:
            if name.startswith("<"):
                raise Unsupported("trim predicate accepts arbitrary characters")
            trimmed.append(name)
    m["trim"] = "".join(trimmed)
    cp, _ = run_closure(facts, c2, {"re": Opaque("RE_B")}, [Opaque("part2", "std::string::String")], pure_fns=PURE)
    if len(cp) != 1:
        raise Unsupported("tag closure has %d paths" % len(cp))
    l2 = lab(cp[0].ret)
    while isinstance(l2, tuple) and l2[0] == "call" and l2[1].endswith("to_string"):
        l2 = l2[2][0]
    if not (isinstance(l2, tuple) and l2[0] == "call" and l2[1] == "regex::Regex::replace_all" and l2[2][0] == "RE_B" and l2[2][1] == "part2"):
        raise Unsupported("tag closure: %s" % fmt_label(l2)[:200])
    m["repl_b"] = l2[2][2][2] if l2[2][2][:2] == ("const", "str") else None
    if m["repl_a"] is None or m["repl_b"] is None:
        raise Unsupported("replacement is not a string constant")
    return m


def rust_repl(r):
    """Rust replacement syntax -> Python"""
    return re.sub(r"\$\{(\d+)\}|\$(\d+)", lambda mo: "\\g<%s>" % (mo.group(1) or mo.group(2)), r.replace("\\", "\\\\"))


def evaluate(m, body):
    parts = re.split(m["split"], body)
    out = []
    for p in parts:
        p = p.strip(m["trim"])
        p = re.sub(m["re_a"], rust_repl(m["repl_a"]), p)
        p = re.sub(m["re_b"], rust_repl(m["repl_b"]), p)
        out.append(p)
    return m["joiner"].join(out)


def reference(body):
    """statement: decoration removed, the lines of a paragraph joined by single spaces, paragraphs and @tag clauses
    separated by newlines, words preserved"""
    lines = re.split(r"\r?\n", body)
    clean = []
    for ln in lines:
        ln = ln.strip(" \t\r")
        while ln.startswith("*"):
            ln = ln[1:].lstrip(" \t")
        while ln.endswith("*"):
            ln = ln[:-1].rstrip(" \t")
        clean.append(ln.strip(" \t"))
    # paragraphs
    paras = [[]]
    for ln in clean:
        if ln == "":
            if paras[-1]:
                paras.append([])
        else:
            paras[-1].append(ln)
    paras = [p for p in paras if p]
    out = []
    for p in paras:
        words = " ".join(p).split()
        cur = []
        for w in words:
            if w.startswith("@") and cur:
                out.append(" ".join(cur))
                cur = [w]
            else:
                cur.append(w)
        if cur:
            out.append(" ".join(cur))
    return "\n".join(out)


WORDS = ["w", "Grüße", "字", "😀x"]


def family(thorough=False):
    """doc bodies (the text between /** and */) in the layouts the property quantifies over"""
    nls = ["\n", "\r\n"]
    para_shapes = [[1], [2], [1, 1], [2, 1]] + ([[1, 2, 1]] if thorough else [])
    tag_opts = [[], ["@p a"], ["@p a", "@return b"]]
    wi = itertools.cycle(WORDS)
    for nl in nls:
        for shape in para_shapes:
            for tags in tag_opts:
                for style in ("star", "bare"):
                    lines = []
                    for pi, nlines in enumerate(shape):
                        if pi:
                            lines.append("")
                        for _ in range(nlines):
                            lines.append("%s %s" % (next(wi), next(wi)))
                    lines += tags
                    if style == "star":
                        body = nl + "".join(" * %s%s" % (l, nl) if l else " *%s" % nl for l in lines) + " "
                    else:
                        body = nl + "".join("   %s%s" % (l, nl) if l else nl for l in lines) + " "
                    yield body
        # single-line forms
        for tags in tag_opts[:2]:
            yield " %s %s %s" % (next(wi), next(wi), " ".join(tags)) + " "
