"""C18 N: the normalisation pipeline of javadoc::parse_javadoc as an extracted model.

Extraction (abstract interpretation of parse_javadoc and its closures): the split regex, the joiner and the
sequence of per-part operations (trim_matches with its character set, replace_all with its regex constant and
replacement string) applied by the `map` stages between split and collect -> join, in whatever way the
operations are distributed over the stages.  The extracted model is then
evaluated (with Python's `re`, whose semantics coincide with the regex crate's for these
constructs: character classes, greedy star/optional, one capture group, leftmost non-overlapping
replacement) on a bounded family of doc-comment bodies and compared with a reference normaliser
written from the statement."""
import itertools, re
from absint import *
from closures import run_closure

PJ = "javadoc::parse_javadoc"
PURE = ["regex::Regex::new", "std::result::Result::<T, E>::unwrap", "regex::Regex::split", "regex::Regex::replace_all",
        "rules::aidl::core::str::<impl str>::trim_matches", "std::iter::Iterator::collect",
        "<std::borrow::Cow<'_, str> as std::string::ToString>::to_string", "<std::borrow::Cow<'a, str> as std::string::ToString>::to_string",
        "<std::borrow::Cow<'_, B> as std::ops::Deref>::deref", "std::borrow::Cow::<'_, B>::into_owned", "<std::borrow::Cow<'_, B> as std::convert::AsRef<T>>::as_ref"]


def regex_const(l):
    """label of `Regex::new(<const>).unwrap()` -> pattern"""
    if isinstance(l, tuple) and l[0] == "call" and l[1].endswith("::unwrap") and len(l[2]) == 1:
        r = l[2][0]
        if isinstance(r, tuple) and r[0] == "call" and r[1] == "regex::Regex::new" and r[2][0][:2] == ("const", "str"):
            return r[2][0][2]
    return None


TEXT_IDENTITY = ("to_string", "into_owned", "to_owned", "::deref", "::as_ref", "::borrow", "::as_str", "::into", "::from", "::clone")


def trim_set(facts, pred):
    """the set of characters accepted by a trim predicate (closure or local function), by evaluating it on each class"""
    pc = pred[1][len("closure:"):] if isinstance(pred, tuple) and pred[0] == "adt" and str(pred[1]).startswith("closure:") else None
    is_fn = False
    if pc is None and isinstance(pred, tuple) and len(pred) == 2 and pred[0] == "fn" and pred[1] in facts.fns:
        pc, is_fn = pred[1], True   # a (nested) function used as predicate
    if pc is None:
        raise Unsupported("trim predicate is neither a closure nor a local function: %s" % fmt_label(pred)[:120])
    trimmed = []
    body = facts.fn(pc)["body"]
    import scanner
    cls = scanner.char_classes(body)
    for name, cpnt in sorted(cls.items()):
        pp = Machine(facts).run(pc, ([] if is_fn else [Ref(Cell(AdtVal("closure:" + pc, None, {})))]) + [Const("int", cpnt)])
        if len(pp) != 1 or not isinstance(pp[0].ret, Const):
            raise Unsupported("trim predicate on %r" % name)
        if pp[0].ret.v:
            if name.startswith("<"):
                raise Unsupported("trim predicate accepts arbitrary characters")
            trimmed.append(name)
    return "".join(trimmed)


def ops_of(facts, l, inp):
    """label of a per-part text expression -> list of operations applied to `inp`, innermost first"""
    if l == inp:
        return []
    if isinstance(l, tuple) and l and l[0] == "call":
        name, args = l[1], l[2]
        if name == "regex::Regex::replace_all" and len(args) == 3:
            pat = args[0][1] if isinstance(args[0], tuple) and args[0][0] == "regex-const" else None
            if pat is None:
                raise Unsupported("replace_all on something that is not one of the captured regex constants: %s" % fmt_label(args[0])[:120])
            if not (isinstance(args[2], tuple) and args[2][:2] == ("const", "str")):
                raise Unsupported("replacement is not a string constant")
            return ops_of(facts, args[1], inp) + [("sub", pat, args[2][2])]
        if name.endswith("trim_matches") and len(args) == 2:
            return ops_of(facts, args[0], inp) + [("trim", trim_set(facts, args[1]))]
        if len(args) == 1 and name.endswith(TEXT_IDENTITY):
            return ops_of(facts, args[0], inp)
    raise Unsupported("per-part stage is not a composition of trim_matches / replace_all on its input: %s" % fmt_label(l)[:200])


def run_stage(facts, cpath, cap_labels, arg):
    """run one `map` closure with its captures bound to the regex constants they hold in parse_javadoc"""
    f = facts.fn(cpath)
    fields = {}
    for i, c in enumerate(f["captures"]):
        pat = regex_const(cap_labels.get(i))
        if pat is None:
            raise Unsupported("closure %s captures `%s`, which is not a regex constant" % (cpath, c["name"]))
        cell = Cell(Opaque(("regex-const", pat)), c["name"].lstrip("*"))
        fields[i] = Cell(Ref(cell, False)) if c["by"].startswith("ByRef") else cell
    env = AdtVal("closure:" + cpath, None, fields)
    body = f["body"]
    a0 = Ref(Cell(env), True) if body["locals"][1]["ty"].startswith("&") else env
    ps = Machine(facts, pure_fns=PURE).run(cpath, [a0, arg])
    if len(ps) != 1 or ps[0].effects:
        raise Unsupported("stage closure %s has %d paths / effects" % (cpath, len(ps)))
    return lab(ps[0].ret)


def extract(facts):
    """model = split regex, joiner and the sequence of per-part operations (trim set / regex substitution) in the
    order in which the `map` stages apply them - however the stages are distributed over closures"""
    facts.fn(PJ)
    ps = Machine(facts, pure_fns=PURE).run(PJ, [sym_ref("s")])
    if len(ps) != 1 or ps[0].effects:
        raise Unsupported("parse_javadoc: %d paths / effects" % len(ps))
    l = lab(ps[0].ret)
    m = {}
    stages = []
    try:
        assert l[0] == "call" and l[1].endswith("::join")
        coll, joiner = l[2]
        assert joiner[:2] == ("const", "str")
        m["joiner"] = joiner[2]
        assert coll[0] == "call" and coll[1].endswith("::collect")
        it = coll[2][0]
        while it[0] == "adt" and it[1] == "iter:map":
            fs = dict(it[3])
            stages.insert(0, fs[1])
            it = fs[0]
        assert stages
        assert it[0] == "call" and it[1] == "regex::Regex::split" and it[2][1] == "s"
        m["split"] = regex_const(it[2][0])
        for clo in stages:
            assert clo[0] == "adt" and str(clo[1]).startswith("closure:")
    except (AssertionError, KeyError, IndexError, TypeError) as e:
        raise Unsupported("parse_javadoc no longer has the shape split -> map ... -> collect -> join: %s" % fmt_label(l)[:300])
    if m["split"] is None:
        raise Unsupported("the split regex of parse_javadoc is not a string constant")
    ops = []
    for k, clo in enumerate(stages):
        cpath = clo[1][len("closure:"):]
        arg = sym_ref("part") if k == 0 else Opaque("part", "std::string::String")
        ops += ops_of(facts, run_stage(facts, cpath, dict(clo[3]), arg), "part")
    m["ops"] = [list(o) for o in ops]
    return m


def rust_repl(r):
    """Rust replacement syntax -> Python"""
    return re.sub(r"\$\{(\d+)\}|\$(\d+)", lambda mo: "\\g<%s>" % (mo.group(1) or mo.group(2)), r.replace("\\", "\\\\"))


def evaluate(m, body):
    parts = re.split(m["split"], body)
    out = []
    for p in parts:
        for op in m["ops"]:
            if op[0] == "trim":
                p = p.strip(op[1])
            else:
                p = re.sub(op[1], rust_repl(op[2]), p)
        out.append(p)
    return m["joiner"].join(out)


def reference(body):
    """statement: decoration removed, the lines of a paragraph joined by single spaces, paragraphs and @tag clauses
    separated by newlines, words preserved"""
    lines = re.split(r"\r?\n", body)
    clean = []
    for ln in lines:
        ln = ln.strip(" \t\r")
        while ln.startswith("*"):
            ln = ln[1:].lstrip(" \t")
        while ln.endswith("*"):
            ln = ln[:-1].rstrip(" \t")
        clean.append(ln.strip(" \t"))
    # paragraphs
    paras = [[]]
    for ln in clean:
        if ln == "":
            if paras[-1]:
                paras.append([])
        else:
            paras[-1].append(ln)
    paras = [p for p in paras if p]
    out = []
    for p in paras:
        words = " ".join(p).split()
        cur = []
        for w in words:
            if w.startswith("@") and cur:
                out.append(" ".join(cur))
                cur = [w]
            else:
                cur.append(w)
        if cur:
            out.append(" ".join(cur))
    return "\n".join(out)


WORDS = ["w", "Grüße", "字", "😀x"]


def family(thorough=False):
    """doc bodies (the text between /** and */) in the layouts the property quantifies over"""
    nls = ["\n", "\r\n"]
    para_shapes = [[1], [2], [1, 1], [2, 1]] + ([[1, 2, 1]] if thorough else [])
    tag_opts = [[], ["@p a"], ["@p a", "@return b"]]
    wi = itertools.cycle(WORDS)
    for nl in nls:
        for shape in para_shapes:
            for tags in tag_opts:
                for style in ("star", "bare"):
                    lines = []
                    for pi, nlines in enumerate(shape):
                        if pi:
                            lines.append("")
                        for _ in range(nlines):
                            lines.append("%s %s" % (next(wi), next(wi)))
                    lines += tags
                    if style == "star":
                        body = nl + "".join(" * %s%s" % (l, nl) if l else " *%s" % nl for l in lines) + " "
                    else:
                        body = nl + "".join("   %s%s" % (l, nl) if l else nl for l in lines) + " "
                    yield body
        # single-line forms
        for tags in tag_opts[:2]:
            yield " %s %s %s" % (next(wi), next(wi), " ".join(tags)) + " "
