"""CFG utilities over MIR bodies (non-cleanup blocks; unwind and assert-failure edges ignored)."""
from mirlib import successors, callee_of, callee_info


def succ_map(body):
    m = {}
    for b in body["blocks"]:
        if b["cleanup"]:
            continue
        m[b["i"]] = [s for s in successors(b["term"]) if not body["blocks"][s]["cleanup"]]
    return m


def reachable(body, start=0):
    sm = succ_map(body)
    seen = set([start])
    st = [start]
    while st:
        n = st.pop()
        for s in sm.get(n, []):
            if s not in seen:
                seen.add(s)
                st.append(s)
    return seen


def dominators(body, start=0):
    """dom[n] = set of blocks dominating n (including n)"""
    sm = succ_map(body)
    nodes = sorted(reachable(body, start))
    preds = dict((n, []) for n in nodes)
    for n in nodes:
        for s in sm.get(n, []):
            if s in preds:
                preds[s].append(n)
    allset = set(nodes)
    dom = dict((n, set(allset)) for n in nodes)
    dom[start] = set([start])
    changed = True
    while changed:
        changed = False
        for n in nodes:
            if n == start:
                continue
            ps = [dom[p] for p in preds[n]]
            new = set.intersection(*ps) if ps else set()
            new = new | set([n])
            if new != dom[n]:
                dom[n] = new
                changed = True
    return dom


def exits(body):
    return [b["i"] for b in body["blocks"] if not b["cleanup"] and b["term"]["k"] == "return"]


def post_dominators(body):
    """pdom[n] = blocks that every path from n to a normal return passes through (incl. n).
    Blocks that cannot reach a return (panic paths) are ignored."""
    sm = succ_map(body)
    ex = exits(body)
    nodes = sorted(reachable(body))
    # restrict to nodes that can reach a return
    preds = dict((n, []) for n in nodes)
    for n in nodes:
        for s in sm.get(n, []):
            if s in preds:
                preds[s].append(n)
    can = set(ex)
    st = list(ex)
    while st:
        n = st.pop()
        for p in preds.get(n, []):
            if p not in can:
                can.add(p)
                st.append(p)
    nodes = [n for n in nodes if n in can]
    allset = set(nodes)
    pdom = dict((n, set(allset)) for n in nodes)
    for e in ex:
        pdom[e] = set([e])
    changed = True
    while changed:
        changed = False
        for n in nodes:
            if n in ex:
                continue
            ss = [pdom[s] for s in sm.get(n, []) if s in allset]
            new = set.intersection(*ss) if ss else set()
            new = new | set([n])
            if new != pdom[n]:
                pdom[n] = new
                changed = True
    return pdom


def call_sites(body, pred):
    """[(bb, term)] for calls whose resolved callee path satisfies pred (str -> bool)"""
    out = []
    for b in body["blocks"]:
        if b["cleanup"]:
            continue
        t = b["term"]
        if t["k"] == "call":
            c = callee_of(t)
            if c is not None and pred(c):
                out.append((b["i"], t))
    return out


def back_edges(body):
    sm = succ_map(body)
    heads = set()
    color = {}
    stack = [(0, iter(sm.get(0, [])))]
    color[0] = 1
    edges = []
    while stack:
        node, it = stack[-1]
        adv = False
        for s in it:
            if color.get(s, 0) == 0:
                color[s] = 1
                stack.append((s, iter(sm.get(s, []))))
                adv = True
                break
            elif color[s] == 1:
                edges.append((node, s))
        if not adv:
            color[node] = 2
            stack.pop()
    return edges


def where(fn, term_or_stmt=None):
    sp = (term_or_stmt or {}).get("span") or fn["span"]
    return "%s:%d:%d (%s)" % (sp["file"], sp["line"], sp["col"], fn["path"])
