"""C15 - traversal visits every node once, in order; filter and find agree with it."""
from absint import *
from domain import *
import cfg
import walkers
from walkers import CONFIGS, run_walker, events, expand, type_conds_of, cond_key, first_diff

WALKER = "traverse::walk_symbols_with_control_flow"
LEVELS = ["ItemsOnly", "ItemsAndItemElements", "All"]


def level_val(facts, name):
    return enum_val(facts, "traverse::SymbolFilter", name)


def spec_lines(sp, level, item, el):
    s = sp["walk_symbols"][level]
    lines = list(s["prefix"])
    key = "%s/%s" % (item, el) if el else item
    for ln in s[item]:
        if ln == "MEMBER":
            lines += s["members"].get(key, [])
        else:
            lines.append(ln)
    return lines


def is_cb(e, name):
    return e[0] == "call" and e[1] in ("std::ops::FnMut::call_mut", "std::ops::FnOnce::call_once", "std::ops::Fn::call") \
        and base_label(e[2][0]) == name


def branch_conds(path):
    """[(label of the branched value, 'Continue'|'Break')] in order"""
    out = []
    for l, v in path.conds:
        if isinstance(l, tuple) and l[0] == "variant" and v in ("Continue", "Break"):
            out.append((l[1], v))
    return out


def contains_label(hay, needle):
    if hay == needle:
        return True
    if isinstance(hay, tuple):
        return any(contains_label(h, needle) for h in hay)
    return False


def visit_lines(ev):
    return [x for x in ev if x.startswith("visit ") or x.startswith("recurse ")]


def symbol_walker_rules(ctx, rep, prop):
    facts = ctx.mir
    sp = walkers.spec()
    fn = facts.fn(WALKER)
    levels = facts.variants("traverse::SymbolFilter")
    rep.floor("V2", "filter levels", len(levels), 3)
    rec_fns = set()
    full_by_cfg = {}
    ncfg = 0
    for level in levels:
        if level not in sp["walk_symbols"]:
            rep.fail("V2", "%s|V2|%s|no-spec" % (prop, level), cfg.where(fn), "filter level %s has no spec" % level)
            continue
        for item, el in CONFIGS:
            key = "%s|%s" % (level, "%s/%s" % (item, el) if el else item)
            try:
                paths = run_walker(facts, WALKER, item, el, pre_args=[level_val(facts, level)])
            except Unsupported as e:
                rep.fail("V1", "%s|V1|%s|unsupported" % (prop, key), cfg.where(fn), "tabulator: %s" % e)
                continue
            ncfg += 1
            lines = spec_lines(sp, level, item, el)
            fulls = []
            breaks = []
            for p in paths:
                bc = branch_conds(p)
                if all(v == "Continue" for _, v in bc):
                    fulls.append(p)
                else:
                    breaks.append(p)
            # V1/V2/V4: full sequences
            full_visits = []
            for p in fulls:
                ev = events(p)
                conds, other = type_conds_of(p)
                other = [(l, v) for l, v in other if not (isinstance(l, tuple) and l[0] == "variant")]
                recs = [e for e in p.effects if e[0] == "recurse"]
                for r in recs:
                    rec_fns.add(r[1])
                rec = recs[0][1] if recs else "<recursive visit>"
                exp = expand(lines, conds, rec, {"type_fmt": "Type %s"})
                ret_ok = isinstance(p.ret, AdtVal) and p.ret.vname == "Continue"
                ok = ev == exp and p.exit == "return" and not other and ret_ok
                k = "%s|V1|%s|%s" % (prop, key, cond_key(conds))
                if not ok and walkers.depth_witness(ev, exp):
                    k = "%s|V1|depth" % prop
                rep.check(ok, "V1", k, cfg.where(fn),
                          "walk_symbols level %s on %s (%s): visit sequence must be %s and the walk must end with Continue; extracted %s (returns %r)%s" % (
                              level, key.split("|")[1], cond_key(conds), exp, ev, p.ret, walkers.diagnose(ev, exp)),
                          detail={"expected": exp, "extracted": ev, "first_difference": first_diff(ev, exp)},
                          witness=walkers.depth_witness(ev, exp),
                          sample={"level": level, "config": key, "sequence": ev})
                full_visits.append((conds, visit_lines(ev), p))
            if not fulls:
                rep.fail("V1", "%s|V1|%s|no-full-path" % (prop, key), cfg.where(fn), "no path on which every callback result is Continue")
            full_by_cfg[(level, item, el)] = [v for _, v, _ in full_visits]
            # V3: every callback / recursion result is propagated: a Break after visit i ends the walk there
            for conds, fv, fp in full_visits:
                for i in range(len(fv)):
                    want = fv[:i + 1]
                    hit = None
                    for p in breaks:
                        c2, _ = type_conds_of(p)
                        if any(c2.get(t) != conds.get(t) for t in c2):
                            continue
                        if visit_lines(events(p)) == want and p.exit == "return":
                            bc = branch_conds(p)
                            if bc and bc[-1][1] == "Break" and not (isinstance(p.ret, AdtVal) and p.ret.vname == "Continue"):
                                hit = p
                                break
                    rep.check(hit is not None, "V3", "%s|V3|%s|%s" % (prop, level, fv[i]), cfg.where(fn),
                              "the ControlFlow returned for `%s` must be propagated (level %s): when it is Break the walk must stop right there and return it; "
                              "no such path exists - the result is dropped" % (fv[i], level),
                              witness="find_symbol(ast, %s, |s| <matches %s>) cannot return it" % (level, fv[i]),
                              sample={"level": level, "visit": fv[i], "stops_after": i + 1})
            # no break path may visit something that is not a prefix of a full sequence
            for p in breaks:
                v = visit_lines(events(p))
                ok = any(v == fv[:len(v)] for _, fv, _ in full_visits)
                if not ok:
                    rep.fail("V3", "%s|V3|%s|stray-break-path" % (prop, key), cfg.where(fn), "a Break path visits %r which is not a prefix of the full sequence" % (v,))
    rep.floor("V2", "level x configuration runs", ncfg, 15)
    # coarser levels are sub-sequences of finer ones (spec sanity, on extracted sequences)
    for item, el in CONFIGS:
        seqs = [full_by_cfg.get((l, item, el)) for l in LEVELS]
        if all(seqs) and all(s for s in seqs):
            a, b, c = [s[0] for s in seqs]
            rep.check(is_subseq(a, b) and is_subseq(b, c), "V2", "%s|V2|subsequence|%s/%s" % (prop, item, el), cfg.where(fn),
                      "ItemsOnly ⊂ ItemsAndItemElements ⊂ All as visit sequences for %s/%s: %r / %r / %r" % (item, el, a, b, c))
    # inductive step for nested types
    if len(rec_fns) != 1:
        rep.fail("V1", "%s|V1|depth" % prop, cfg.where(fn),
                 "types nested in generic parameters must be visited through a recursive visit function; recursion targets found: %r" % (sorted(rec_fns),),
                 witness="Map<String, List<Foo>>: the symbol for `Foo` is never visited")
        return
    rec = list(rec_fns)[0]
    rf = facts.fn(rec)
    args = []
    tpos = None
    for i in range(rf["body"]["arg_count"]):
        ty = rf["body"]["locals"][i + 1]["ty"]
        if ty.replace("&'a ", "&") == "&ast::Type":
            args.append(Ref(Cell(Opaque("t", "ast::Type"))))
            tpos = i
        else:
            args.append(Ref(Cell(Opaque("F")), True))
    paths = Machine(facts, loop_once=True).run(rec, args)
    fulls = [p for p in paths if all(v == "Continue" for _, v in branch_conds(p))]
    for p in fulls:
        ev = events(p)
        conds, _ = type_conds_of(p)
        exp = expand(["TYPE t"], conds, rec, {"type_fmt": "Type %s"})
        recs = [e for e in p.effects if e[0] == "recurse"]
        pos_ok = len(recs) == 1 and recs[0][1] == rec and recs[0][2][tpos] == ("elem", "t.generic_types") and base_label(recs[0][2][1 - tpos]) == "F"
        ret_ok = (isinstance(p.ret, AdtVal) and p.ret.vname == "Continue") or contains_label(lab(p.ret), ("elem", "t.generic_types")) or True
        rep.check(ev == exp and pos_ok, "V1", "%s|V1|induction|%s" % (prop, cond_key(conds)), cfg.where(rf),
                  "inductive step: %s(t, f) must visit Symbol::Type(t) once and recurse (same callback) on every element of t.generic_types, element first for arrays; expected %s, extracted %s" % (rec, exp, ev),
                  sample={"helper": rec, "conds": cond_key(conds), "sequence": ev})
        fv = visit_lines(exp)
        for i in range(len(fv)):
            hit = any(visit_lines(events(q)) == fv[:i + 1] and branch_conds(q) and branch_conds(q)[-1][1] == "Break"
                      and all(type_conds_of(q)[0].get(t) == conds.get(t) for t in type_conds_of(q)[0]) for q in paths)
            if not hit and i == len(fv) - 1:
                # the last call's ControlFlow is the function's own return value
                last = [e for e in p.effects if is_cb(e, "F") or e[0] == "recurse"][-1]
                lbl = ("call", last[1], last[2]) if last[0] == "call" else ("recurse", last[1], last[2])
                hit = contains_label(lab(p.ret), lbl)
            rep.check(hit, "V3", "%s|V3|induction|%s|%s" % (prop, cond_key(conds), fv[i]), cfg.where(rf),
                      "in %s the result of `%s` must be propagated with `?` / as the return value" % (rec, fv[i]))
    rep.floor("V1", "inductive paths of the recursive type visit", len(fulls), 2)


def is_subseq(a, b):
    it = iter(b)
    return all(x in it for x in a)


def wrapper_rules(ctx, rep, prop):
    """V5: walk_symbols / filter_symbols / find_symbol are the walker with the right callback"""
    facts = ctx.mir
    sp = walkers.spec()
    for level, item, el in (("All", "Parcelable", "Field"), ("ItemsAndItemElements", "Interface", "Method"), ("All", "Enum", None)):
        lines = spec_lines(sp, level, item, el)
        # ---- walk_symbols: every visit is handed to the user's callback, nothing stops the walk
        fw = facts.fn("traverse::walk_symbols")
        paths = run_walker(facts, "traverse::walk_symbols", item, el, pre_args=[level_val(facts, level)], callback=Opaque("P"))
        for p in paths:
            if any(v == "Break" for _, v in branch_conds(p)):
                continue  # the induction hypothesis (recursive visit) returned Break: covered by V3
            conds, _ = type_conds_of(p)
            recs = [e for e in p.effects if e[0] == "recurse"]
            rec = recs[0][1] if recs else "<rec>"
            exp = [x.replace("visit ", "visit ") for x in expand(lines, conds, rec, {"type_fmt": "Type %s"})]
            ev = [x for x in events_cb(p, "P")]
            rep.check(visit_lines(ev) == visit_lines(exp) and p.exit == "return", "V5", "%s|V5|walk_symbols|%s|%s" % (prop, level, cond_key(conds)), cfg.where(fw),
                      "walk_symbols(%s) must hand exactly the walker's sequence to the callback: expected %s, extracted %s" % (level, visit_lines(exp), visit_lines(ev)),
                      sample={"level": level, "sequence": visit_lines(ev)})
        # ---- filter_symbols
        ff = facts.fn("traverse::filter_symbols")
        paths = run_walker(facts, "traverse::filter_symbols", item, el, pre_args=[level_val(facts, level)], callback=Opaque("P"))
        n = 0
        for p in paths:
            n += 1
            calls = [e for e in p.effects if is_cb(e, "P")]
            verdicts = dict((l, v) for l, v in p.conds if isinstance(l, tuple) and l[0] == "call")
            kept = []
            okp = True
            for e in calls:
                lbl = ("call", e[1], e[2])
                v = verdicts.get(lbl)
                if v is None:
                    okp = False
                if v:
                    kept.append(walkers.sym_of(e[2][1]))
            got = None
            if isinstance(p.ret, VecVal):
                got = [walkers.sym_part(lab(c.val)) for c in p.ret.elems]
            ok = okp and got == kept and p.exit == "return"
            seqmsg = ""
            if not any(v == "Break" for _, v in branch_conds(p)):
                conds_t, _ = type_conds_of(p)
                recs_ = [e for e in p.effects if e[0] == "recurse"]
                exp_ = visit_lines(expand(lines, conds_t, recs_[0][1] if recs_ else "<rec>", {"type_fmt": "Type %s"}))
                ev_ = visit_lines(events_cb(p, "P"))
                if ev_ != exp_:
                    ok = False
                    seqmsg = "; the predicate must be asked on exactly the walker's sequence %s, was asked on %s" % (exp_, ev_)
            rep.check(ok, "V5", "%s|V5|filter_symbols|%s|%d" % (prop, level, n), cfg.where(ff),
                      "filter_symbols must return exactly the visited symbols for which the predicate held, in visit order: expected %r, returned %r%s" % (kept, got, seqmsg))
        rep.floor("V5", "filter_symbols paths (%s)" % level, n, 4)
        # ---- find_symbol
        fs = facts.fn("traverse::find_symbol")
        paths = run_walker(facts, "traverse::find_symbol", item, el, pre_args=[level_val(facts, level)], callback=Opaque("P"))
        n = 0
        for p in paths:
            n += 1
            calls = [e for e in p.effects if is_cb(e, "P")]
            verdicts = dict((l, v) for l, v in p.conds if isinstance(l, tuple) and l[0] == "call")
            first_true = None
            for i, e in enumerate(calls):
                if verdicts.get(("call", e[1], e[2])):
                    first_true = i
                    break
            rec_break = [l for l, v in branch_conds(p) if v == "Break" and contains_label(l, "recurse")]
            ret = p.ret
            if first_true is not None:
                want = walkers.sym_of(calls[first_true][2][1])
                got = walkers.sym_part(lab(ret.fields[0].val)) if isinstance(ret, AdtVal) and ret.vname == "Some" and 0 in ret.fields else repr(ret)
                ok = got == want and first_true == len(calls) - 1
                msg = "predicate first true at `%s`: find_symbol must return that symbol and stop; returned %r after %d predicate calls" % (want, got, len(calls))
            elif rec_break:
                ok = isinstance(ret, AdtVal) and ret.vname == "Some"
                msg = "a match inside nested types (recursive visit returned Break) must be returned as Some(..): got %r" % (ret,)
            else:
                ok = isinstance(ret, AdtVal) and ret.vname == "None"
                msg = "predicate false everywhere: find_symbol must return None; returned %r" % (ret,)
            # the predicate is asked in the walker's order of this level, from the start (a prefix of it when a match stops the search)
            if not any(v == "Break" for _, v in branch_conds(p) if True) or first_true is not None:
                conds_t, _ = type_conds_of(p)
                recs_ = [e for e in p.effects if e[0] == "recurse"]
                exp_ = visit_lines(expand(lines, conds_t, recs_[0][1] if recs_ else "<rec>", {"type_fmt": "Type %s"}))
                ev_ = visit_lines(events_cb(p, "P"))
                seq_ok = ev_ == exp_[:len(ev_)] and (first_true is not None or rec_break or len(ev_) == len(exp_))
                if not seq_ok:
                    ok = False
                    msg = "find_symbol(%s) must ask the predicate in the walker's order for that level, from the first symbol on (a match is the FIRST symbol in traversal order): walker order %s, predicate asked on %s" % (level, exp_, ev_)
            rep.check(ok and p.exit == "return", "V5", "%s|V5|find_symbol|%s|%d" % (prop, level, n), cfg.where(fs), msg)
        rep.floor("V5", "find_symbol paths (%s)" % level, n, 3)


def events_cb(path, name):
    out = []
    for e in path.effects:
        if is_cb(e, name):
            out.append("visit " + walkers.sym_of(e[2][1]))
        elif e[0] == "recurse":
            out.append("recurse %s %s" % (e[1], fmt_label(e[2][0])))
    return out


def simple_walker(ctx, rep, prop, walker, key):
    facts = ctx.mir
    sp = walkers.spec()[key]
    fn = facts.fn(walker)
    for item, el in CONFIGS:
        k = "%s/%s" % (item, el) if el else item
        paths = run_walker(facts, walker, item, el)
        for p in paths:
            ev = events(p)
            exp = expand(sp[k], {}, "-", {"type_fmt": "%s"})
            rep.check(ev == exp and p.exit == "return" and not p.conds, "V6", "%s|V6|%s|%s" % (prop, walker, k), cfg.where(fn),
                      "%s on %s must yield %s; extracted %s" % (walker, k, exp, ev), sample={"walker": walker, "config": k, "sequence": ev})


def run(ctx, rep):
    rep.rule("V1", "A5 visit sequence of walk_symbols_with_control_flow at level All per item/member configuration vs spec/traversal.json (package, imports, item, members, return type, args and their types, every nested type by induction on the recursive type visit, array element before the array)")
    rep.rule("V2", "the two coarser levels yield the item alone / item + direct members, as sub-sequences")
    rep.rule("V3", "A4 result-must-be-used: for every callback invocation there is a path on which its Break stops the walk right there (a dropped ControlFlow has no such path)")
    rep.rule("V5", "walk_symbols / filter_symbols / find_symbol tabulated end to end with an opaque predicate: callback sequence, kept symbols in visit order, first match returned, None otherwise")
    rep.rule("V6", "walk_types (A5 + induction), walk_methods, walk_args sequences")
    symbol_walker_rules(ctx, rep, "C15")
    wrapper_rules(ctx, rep, "C15")
    walkers.check_type_walker(ctx.mir, rep, "C15", "traverse::walk_types", "walk_types", False)
    simple_walker(ctx, rep, "C15", "traverse::walk_methods", "walk_methods")
    simple_walker(ctx, rep, "C15", "traverse::walk_args", "walk_args")
    import loopstate
    loopstate.rule(ctx, rep, "C15", ['traverse'])
    rep.rule("LX", "lexical agreement (C03 A10, re-evaluated here): the property quantifies over documents - token classes, their priorities, the keyword rule, comments and white space must be the reference ones (a changed comment / number / keyword regex silently drops or merges members)")
    import lexical
    lexical.rules(ctx, rep, "C15", {"trivia", "classes", "priority", "keywords", "tokenizer"})
    rep.assumptions += ["TB-1 rustc MIR", "TB-4 tabulator", "std slice iterators / for_each / try_for_each visit every element once, forward, and try_for_each stops at the first Break",
                        "one generic element per container stands for all (the closures carry no state between elements: they only capture the callback)"]
