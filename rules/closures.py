"""Building symbolic closure environments from the capture list exported by mirfacts."""
from absint import *


_CAPS = None


def _cap_types():
    global _CAPS
    if _CAPS is None:
        import json
        import os
        import core
        _CAPS = json.load(open(os.path.join(core.VERIF, "spec", "captures.json")))
    return _CAPS


def make_env(facts, cpath, values, lenient=False):
    """values: {capture name (without leading '*'): abstract value of the captured variable}
    returns (env AdtVal, {name: Cell holding the captured variable}).
    A capture whose name the rule does not know is matched by TYPE with a value the closure no longer captures by name
    (spec/captures.json records the types on the pinned tree): renaming a captured variable is not a finding.  Several
    renamed captures of one type are matched in capture order."""
    f = facts.fn(cpath)
    caps = f["captures"]
    names = [c["name"].lstrip("*") for c in caps]
    assign = {}
    for i, n in enumerate(names):
        if n in values:
            assign[i] = n
    free_vals = [k for k in values if k not in names]
    if free_vals and len(assign) < len(caps):
        types = _cap_types().get(cpath.split("::{closure")[0], {})
        by_ty = {}
        for k in free_vals:
            if k in types:
                by_ty.setdefault(types[k], []).append(k)
        free_caps = {}
        for i, c in enumerate(caps):
            if i not in assign:
                free_caps.setdefault(c["ty"], []).append(i)
        for ty, idxs in free_caps.items():
            ks = by_ty.get(ty, [])
            if len(ks) == len(idxs):
                # keep the spec's relative order (the order of the values dict as written by the rule)
                for i, k in zip(idxs, ks):
                    assign[i] = k
    fields = {}
    cells = {}
    for i, c in enumerate(caps):
        if i not in assign:
            if not lenient:
                raise KeyError("anchor-missing: closure %s captures `%s` (%s) which the rule does not know" % (cpath, names[i], c["ty"]))
            # lenient: an unknown capture is an opaque value named after the variable (the rule that owns the closure's captures reports it)
            name = names[i]
            v = Opaque("captured:" + name, c["ty"])
        else:
            name = assign[i]
            v = values[name]
        cell = v if isinstance(v, Cell) else Cell(v, name)
        cells[name] = cell
        if c["by"].startswith("ByRef"):
            fields[i] = Cell(Ref(cell, "Mutable" in c["by"] or "Mut" in c["by"]))
        else:
            fields[i] = cell
    unknown = set(values) - set(assign.values())
    if unknown:
        raise KeyError("anchor-missing: closure %s no longer captures %s" % (cpath, sorted(unknown)))
    return AdtVal("closure:" + cpath, None, fields), cells


def run_closure(facts, cpath, values, args, lenient=False, **kw):
    env, cells = make_env(facts, cpath, values, lenient=lenient)
    body = facts.fn(cpath)["body"]
    by_ref = body["locals"][1]["ty"].startswith("&")
    a0 = Ref(Cell(env), True) if by_ref else env
    m = Machine(facts, **kw)
    return m.run(cpath, [a0] + list(args)), cells
