"""Building symbolic closure environments from the capture list exported by mirfacts."""
from absint import *


def make_env(facts, cpath, values):
    """values: {capture name (without leading '*'): abstract value of the captured variable}
    returns (env AdtVal, {name: Cell holding the captured variable})"""
    f = facts.fn(cpath)
    fields = {}
    cells = {}
    for i, c in enumerate(f["captures"]):
        name = c["name"].lstrip("*")
        if name not in values:
            raise KeyError("anchor-missing: closure %s captures `%s` which the rule does not know" % (cpath, name))
        v = values[name]
        if c["by"].startswith("ByRef"):
            cell = v if isinstance(v, Cell) else Cell(v, name)
            cells[name] = cell
            fields[i] = Cell(Ref(cell, "Mutable" in c["by"] or "Mut" in c["by"]))
        else:
            cell = v if isinstance(v, Cell) else Cell(v, name)
            cells[name] = cell
            fields[i] = cell
    unknown = set(values) - set(c["name"].lstrip("*") for c in f["captures"])
    if unknown:
        raise KeyError("anchor-missing: closure %s no longer captures %s" % (cpath, sorted(unknown)))
    return AdtVal("closure:" + cpath, None, fields), cells


def run_closure(facts, cpath, values, args, **kw):
    env, cells = make_env(facts, cpath, values)
    body = facts.fn(cpath)["body"]
    by_ref = body["locals"][1]["ty"].startswith("&")
    a0 = Ref(Cell(env), True) if by_ref else env
    m = Machine(facts, **kw)
    return m.run(cpath, [a0] + list(args)), cells
