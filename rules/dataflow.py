"""A1 call graph and a small forward def-use analysis over MIR locals."""
from mirlib import callee_info, callee_of, place_str


def operands_of_rvalue(rv):
    k = rv["k"]
    if k in ("use", "cast", "repeat", "wrap_binder"):
        return [rv["op"]]
    if k == "unop":
        return [rv["a"]]
    if k == "binop":
        return [rv["a"], rv["b"]]
    if k == "aggregate":
        return list(rv["ops"])
    return []


def places_of_rvalue(rv):
    """places read by the rvalue: (place, how) with how in copy/move/ref/refmut/discr/deref"""
    out = []
    for o in operands_of_rvalue(rv):
        if o and o["k"] in ("copy", "move"):
            out.append((o["place"], o["k"]))
    k = rv["k"]
    if k == "ref":
        out.append((rv["place"], "refmut" if rv["bk"] == "mut" else "ref"))
    elif k == "rawptr":
        out.append((rv["place"], "refmut"))
    elif k == "discriminant":
        out.append((rv["place"], "discr"))
    elif k == "copy_for_deref":
        out.append((rv["place"], "copy"))
    return out


def fn_refs(body):
    """fn items / closures referenced by a body: direct callees, fn items used as values, closures created"""
    out = set()
    for b in body["blocks"]:
        for s in b["stmts"]:
            if s["k"] != "assign":
                continue
            rv = s["rv"]
            if rv["k"] == "aggregate" and rv.get("agg") == "closure":
                out.add(rv["closure"])
            for o in operands_of_rvalue(rv):
                if o and o["k"] == "const" and "fn" in o["c"]:
                    f = o["c"]["fn"]
                    out.add(f.get("resolved") or f["def"])
        t = b["term"]
        if t["k"] == "call":
            c = callee_of(t)
            if c:
                out.add(c)
            ci = callee_info(t)
            if ci and ci.get("resolved") and ci["def"] != ci["resolved"]:
                out.add(ci["def"])
            for a in t["args"]:
                if a["k"] == "const" and "fn" in a["c"]:
                    f = a["c"]["fn"]
                    out.add(f.get("resolved") or f["def"])
    return out


def call_graph(facts):
    g = {}
    for p, f in facts.fns.items():
        refs = set()
        for body in [f["body"]] + f["promoted"]:
            refs |= fn_refs(body)
        g[p] = refs
    return g


def reachable_fns(facts, entries):
    g = call_graph(facts)
    seen = set()
    st = [e for e in entries if e in facts.fns]
    missing = [e for e in entries if e not in facts.fns]
    if missing:
        raise KeyError("anchor-missing: entry point(s) %s" % missing)
    while st:
        n = st.pop()
        if n in seen:
            continue
        seen.add(n)
        for r in g.get(n, ()):
            if r in facts.fns and r not in seen:
                st.append(r)
    return seen, g


def external_callees(facts, fns):
    """{callee path: [(caller, term)]} for calls leaving the crate, from the given functions"""
    out = {}
    for p in fns:
        f = facts.fns[p]
        for b in f["body"]["blocks"]:
            t = b["term"]
            if t["k"] == "call":
                ci = callee_info(t)
                if ci is None:
                    continue
                name = ci.get("resolved") or ci["def"]
                if name not in facts.fns:
                    out.setdefault(name, []).append((p, t))
    return out


class Flow(object):
    """forward aliases of a local within one body: locals that hold the value, a reference to it,
    or a reborrow of it (through use / ref / deref-ref / cast / copy_for_deref assignments)"""

    def __init__(self, body):
        self.body = body
        self.assigns = []  # (bb, stmt)
        for b in body["blocks"]:
            if b["cleanup"]:
                continue
            for s in b["stmts"]:
                if s["k"] == "assign":
                    self.assigns.append((b["i"], s))

    def aliases(self, local):
        al = set([local])
        changed = True
        while changed:
            changed = False
            for bb, s in self.assigns:
                lhs = s["lhs"]
                if lhs["p"]:
                    continue
                if lhs["l"] in al:
                    continue
                for pl, how in places_of_rvalue(s["rv"]):
                    if pl["l"] in al and all(e["k"] == "deref" for e in pl["p"]):
                        al.add(lhs["l"])
                        changed = True
                        break
        return al

    def consumers(self, local):
        """calls that take the value (or an alias / reference) as an argument: [(bb, term, arg index)]"""
        al = self.aliases(local)
        out = []
        for b in self.body["blocks"]:
            if b["cleanup"]:
                continue
            t = b["term"]
            if t["k"] != "call":
                continue
            for i, a in enumerate(t["args"]):
                if a["k"] in ("copy", "move") and a["place"]["l"] in al and all(e["k"] == "deref" for e in a["place"]["p"]):
                    out.append((b["i"], t, i))
        return out
