"""A10 lexical specification rules on the token DFAs of GRAMFACTS vs spec/lexspec.json."""
import json, os, re, subprocess
import core
import dfa as D


def spec():
    return json.load(open(os.path.join(core.VERIF, "spec", "lexspec.json")))


def compile_refs(items):
    p = subprocess.run([core.GRAMFACTS, "regex2dfa"], input=json.dumps(items).encode(), stdout=subprocess.PIPE, stderr=subprocess.PIPE)
    if p.returncode != 0:
        raise core.ExtractionError("gramfacts regex2dfa failed: %s" % p.stderr.decode()[-500:])
    return json.loads(p.stdout.decode())


def ref_pattern(kind, val):
    if kind == "literal":
        return {"kind": "literal", "pattern": val}
    if kind == "words":
        return {"kind": "regex", "pattern": "(" + "|".join(re.escape(w) for w in val) + ")"}
    return {"kind": "regex", "pattern": val}


class Lex(object):
    def __init__(self, ctx):
        self.gram = ctx.gram
        self.sp = spec()
        self.entries = self.gram["token_dfas"]
        items = [{"kind": t["kind"], "pattern": t["pattern"]} for t in self.sp["trivia"]]
        self.ref_names = []
        self.ref_group = {}
        for gi, g in enumerate(self.sp["groups"]):
            for name, (kind, val) in g.items():
                self.ref_names.append(name)
                self.ref_group[name] = gi
                items.append(ref_pattern(kind, val))
        dfas = compile_refs(items)
        self.ref_trivia = dfas[:len(self.sp["trivia"])]
        self.ref = dict(zip(self.ref_names, dfas[len(self.sp["trivia"]):]))
        self.cur = {}       # language as written (longest-match reading of the pattern)
        self.cur_lf = {}    # language the runtime lexer really uses: strings on which the regex crate's leftmost-first
                            # `find` matches completely (gramfacts `lf_dfa`); equal to the former for most patterns
        self.cur_entry = {}
        for e in self.entries:
            if e["skip"]:
                continue
            self.cur[e["terminal"]] = e["dfa"]
            self.cur_lf[e["terminal"]] = e.get("lf_dfa", e["dfa"])
            self.cur_entry[e["terminal"]] = e

    def where(self, e):
        return "src/aidl.lalrpop:%s (match block entry %s)" % (e.get("line"), e.get("terminal") or e.get("pattern"))


def line_of(lex, e):
    # token_dfas entries carry no line; match_block entries do
    for g in lex.gram["match_block"]:
        for m in g:
            if m["match_index"] == e["match_index"]:
                return m["line"]
    return None


def rules(ctx, rep, prop, parts):
    """parts: subset of {'trivia','classes','priority','keywords','finite'}"""
    lex = Lex(ctx)
    sp = lex.sp
    W = lambda e: "src/aidl.lalrpop:%s (token %s)" % (line_of(lex, e), e.get("terminal") or repr(e.get("pattern")))
    if "trivia" in parts:
        skips = [e for e in lex.entries if e["skip"]]
        rep.floor("A10.ii", "skipped (trivia) patterns", len(skips), 3)
        matched = set()
        for e in skips:
            hit = [i for i, r in enumerate(lex.ref_trivia) if r == e["dfa"]]
            if hit:
                matched.add(hit[0])
                rep.ok("A10.ii", "trivia %s" % e["pattern"], {"pattern": e["pattern"], "equals": sp["trivia"][hit[0]]["what"], "dfa_states": len(e["dfa"]["states"])})
            else:
                # nearest reference: report a distinguishing string against each
                wit = []
                for i, r in enumerate(lex.ref_trivia):
                    w, side = D.distinguishing(e["dfa"], r)
                    wit.append({"reference": sp["trivia"][i]["what"], "string": w, "accepted": "by the grammar only" if side == "only in the first" else "by the reference only"})
                rep.fail("A10.ii", "%s|A10.ii|trivia|%s" % (prop, e["pattern"]), W(e),
                         "skipped pattern %r is none of the reference trivia languages (Unicode whitespace run, line comment, block comment): layout that should be trivia changes the token stream" % e["pattern"], witness=wit)
        for i, t in enumerate(sp["trivia"]):
            if i not in matched:
                w = D.difference_witness(lex.ref_trivia[i], {"start": 0, "states": [{"accept": False, "edges": []}]})
                rep.fail("A10.ii", "%s|A10.ii|trivia-missing|%s" % (prop, t["what"]), "src/aidl.lalrpop (match block)",
                         "no skipped pattern accepts exactly: %s" % t["what"], witness={"example": w})
    if "classes" in parts:
        n = 0
        for name, ref in lex.ref.items():
            cur = lex.cur.get(name)
            if cur is None:
                rep.fail("A10.i", "%s|A10.i|missing|%s" % (prop, name), "src/aidl.lalrpop (match block)", "token class %s of the reference is not produced by the lexer" % name)
                continue
            n += 1
            if cur == ref:
                rep.ok("A10.i", "class %s" % name, {"class": name, "pattern": lex.cur_entry[name]["pattern"], "dfa_states": len(cur["states"])})
            else:
                w, side = D.distinguishing(cur, ref)
                rep.fail("A10.i", "%s|A10.i|language|%s" % (prop, name), W(lex.cur_entry[name]),
                         "token class %s (pattern %r) does not accept the reference language: %r is accepted %s" % (name, lex.cur_entry[name]["pattern"], w, "by the grammar only" if side == "only in the first" else "by the reference only"),
                         witness={"string": w, "side": side})
        for name in lex.cur:
            if name not in lex.ref:
                rep.fail("A10.i", "%s|A10.i|extra|%s" % (prop, name), W(lex.cur_entry[name]), "token class %s is not in the reference lexical specification" % name)
        rep.floor("A10.i", "token classes compared", n, 34)
    if "tokenizer" in parts:
        # exact comparison of the two tokenizers (class of every string), with the leftmost-first semantics of the regex crate
        cur = []
        for e in lex.entries:
            cur.append(("<skip>" if e["skip"] else e["terminal"], e.get("lf_dfa", e["dfa"]), e["precedence"]))
        ngroups = len(sp["groups"])
        ref = [("<skip>", d, 2 * ngroups) for d in lex.ref_trivia]
        for gi, g in enumerate(sp["groups"]):
            for name, (kind, val) in g.items():
                ref.append((name, lex.ref[name], 2 * (ngroups - gi) + (1 if kind == "literal" else 0)))
        have_lf = all("lf_dfa" in e for e in lex.entries)
        rep.check(have_lf, "A10.vi", "%s|A10.vi|lf-missing" % prop, "src/aidl.lalrpop (match block)", "gramfacts must export the leftmost-first language of every pattern (lf_dfa)")
        diff = D.tokenizer_difference(cur, ref)
        nonlm = [e["terminal"] or e["pattern"] for e in lex.entries if e.get("leftmost_first", {}).get("equals_longest") is False]
        rep.check(diff is None, "A10.vi", "%s|A10.vi|tokenizer|%s" % (prop, (diff[0] if diff else "")), "src/aidl.lalrpop (match block)",
                  "the lexer (every pattern matched with the regex crate's leftmost-first `find`, longest overall match wins, ties by match-block priority) must classify every string like the reference lexical specification; "
                  "%r is lexed as %s by the grammar and as %s by the reference" % ((diff[0], diff[1], diff[2]) if diff else ("-", "-", "-")),
                  witness={"string": diff[0], "grammar": diff[1], "reference": diff[2]} if diff else None,
                  sample={"classes": len(cur), "patterns whose leftmost-first match is not the longest one (harmless when the tokenizers agree)": nonlm})
    if "priority" in parts:
        names = [n for n in lex.cur if n in lex.ref]
        pairs = 0
        for i, a in enumerate(names):
            for b in names[i + 1:]:
                w = D.intersection_witness(lex.cur_lf[a], lex.cur_lf[b])
                if w is None:
                    continue
                pairs += 1
                pa, pb = lex.cur_entry[a]["precedence"], lex.cur_entry[b]["precedence"]
                ga, gb = lex.ref_group[a], lex.ref_group[b]
                # reference: earlier group wins; inside one group a literal beats a regex (lalrpop rule)
                if ga != gb:
                    want = a if ga < gb else b
                else:
                    ka, kb = lex.cur_entry[a]["pattern_kind"], lex.cur_entry[b]["pattern_kind"]
                    want = a if (ka == "literal" and kb != "literal") else (b if (kb == "literal" and ka != "literal") else None)
                got = a if pa > pb else (b if pb > pa else None)
                rep.check(want is not None and got == want, "A10.iii", "%s|A10.iii|%s~%s" % (prop, a, b), W(lex.cur_entry[a]),
                          "%s and %s both match %r: %s must win the tie (reference priority), the lexer gives it to %s" % (a, b, w, want, got),
                          witness={"string": w}, sample={"pair": [a, b], "overlap": w, "winner": got})
        rep.analysed["overlapping token class pairs"] = pairs
        rep.floor("A10.iii", "overlapping class pairs", pairs, 5)
    if "keywords" in parts:
        ident = sp["identifier_class"]
        K = set(sp["keywords"])
        idd = lex.cur_lf.get(ident)
        if idd is None:
            rep.fail("A10.iv", "%s|A10.iv|no-ident" % prop, None, "identifier class %s missing" % ident)
        else:
            ip = lex.cur_entry[ident]["precedence"]
            covered = set()
            for name, d in lex.cur_lf.items():
                if name == ident:
                    continue
                inter = D.product(d, idd)
                words = D.enumerate_finite(inter)
                if lex.cur_entry[name]["precedence"] > ip:
                    if words is None:
                        w = D.intersection_witness(d, idd)
                        rep.fail("A10.iv", "%s|A10.iv|outranks-infinitely|%s" % (prop, name), W(lex.cur_entry[name]),
                                 "class %s outranks %s on infinitely many identifier-shaped strings (e.g. %r): ordinary names would stop being names" % (name, ident, w))
                        continue
                    extra = [w for w in words if w not in K]
                    covered |= set(words)
                    rep.check(not extra, "A10.iv", "%s|A10.iv|steals|%s" % (prop, name), W(lex.cur_entry[name]),
                              "class %s takes the identifier-shaped strings %r away from %s; only keywords / reserved words may be taken" % (name, extra, ident),
                              sample={"class": name, "identifier_shaped_words": words})
                else:
                    # a lower class must never beat IDENT on a longer match with an identifier prefix: it may overlap only where IDENT wins ties
                    if words:
                        rep.ok("A10.iv", "lower class %s overlaps %s on %r and loses the tie" % (name, ident, words[:5]))
                    elif words is None:
                        rep.ok("A10.iv", "lower class %s overlaps %s on infinitely many strings and loses every tie" % (name, ident))
            missing = sorted(K - covered)
            rep.check(not missing, "A10.iv", "%s|A10.iv|keyword-becomes-name" % prop, W(lex.cur_entry[ident]),
                      "every keyword / reserved word must be matched in full by a class that outranks %s; not covered: %r - these words lex as ordinary identifiers and could be stored as names" % (ident, missing),
                      witness={"document": "package p; interface %s { }" % (missing[0] if missing else "")} if missing else None,
                      sample={"keywords": len(K), "covered": len(covered & K)})
            rep.floor("A10.iv", "keywords / reserved words", len(K), 48)
    if "finite" in parts:
        for gi, g in enumerate(sp["groups"]):
            for name, (kind, val) in g.items():
                if kind != "words":
                    continue
                cur = lex.cur.get(name)
                words = D.enumerate_finite(cur) if cur else None
                lfw = D.enumerate_finite(lex.cur_lf.get(name)) if cur else None
                if name != "RESERVED_KEYWORD":
                    # word classes the parser depends on must be matched in full at run time (leftmost-first)
                    rep.check(lfw == sorted(val), "A10.v", "%s|A10.v|%s|leftmost-first" % (prop, name), W(lex.cur_entry[name]) if cur else None,
                              "class %s: with the regex crate's leftmost-first alternation the pattern %r matches completely only %r, not %r (an earlier alternative that is a prefix of a later one shadows it)" % (
                                  name, lex.cur_entry[name]["pattern"] if cur else None, lfw, sorted(val)),
                              witness={"word_lost": sorted(set(val) - set(lfw or []))} if lfw != sorted(val) else None)
                rep.check(words == sorted(val), "A10.v", "%s|A10.v|%s" % (prop, name), W(lex.cur_entry[name]) if cur else None,
                          "class %s must be exactly the words %r; it is %r" % (name, sorted(val), words), sample={"class": name, "words": words})
    return lex
