"""C14 - a malformed member costs only itself (necessary conditions only)."""
from absint import *
import cfg
import common_g


def run(ctx, rep):
    gram = ctx.gram
    rep.rule("R1", "each member-level recovery alternative exists, converts and pushes the recovered error and yields None (C03 S1 for OptInterfaceElement / OptParcelableElement / OptEnumElement)")
    rep.rule("R2", "bodies are built from the member repetition by into_iter().flatten().collect() only: well-formed siblings before and after a dropped member are kept, in order")
    rep.rule("R3", "on the LR automaton: wherever `error` can be shifted inside a body, the recovery alternative is reduced on a lookahead set that contains FIRST(member) and the closing brace (enum: `,` and `}`) - the parser can go on with the next member")
    n, _ = common_g.emit(ctx, rep, "C14", {"recovery"}, "R1")
    rep.floor("R1", "recovery alternatives", n, 4)
    n, _ = common_g.emit(ctx, rep, "C14", {"flatten"}, "R2")
    rep.floor("R2", "bodies built by flatten", n, 3)
    rep.rule("R4", "the token vocabulary is the reference one (A10.i): every vocabulary token inside a malformed member reaches the parser (a recoverable parser error), none becomes an unrecoverable lexer error")
    import lexical
    lexical.rules(ctx, rep, "C14", {"classes"})
    auto = [a for a in gram["automata"] if a["start"] == "OptAidl"]
    if not auto:
        raise KeyError("anchor-missing: automaton of OptAidl")
    a = auto[0]
    first = gram["first"]
    need = {
        "OptInterfaceElement": set(first["OptInterfaceElement"]) - {"error"} | {'"}"'},
        "OptParcelableElement": set(first["OptParcelableElement"]) - {"error"} | {'"}"'},
        "OptEnumElement": {'","', '"}"'},
    }
    seen = {}
    for s in a["states"]:
        t = s["shifts"].get("error")
        if t is None:
            continue
        tgt = a["states"][t]
        for r in tgt["reduces"]:
            nt = r["production"]["nonterminal"]
            if r["production"]["symbols"] != ["error"] or nt not in need:
                continue
            la = set(r["lookahead"])
            seen.setdefault(nt, 0)
            seen[nt] += 1
            miss = sorted(need[nt] - la)
            rep.check(not miss, "R3", "C14|R3|%s|state%d" % (nt, s["index"]) if miss else "C14|R3|%s" % nt, "src/aidl.lalrpop (%s, LR state %d)" % (nt, s["index"]),
                      "after recovering a malformed member (%s -> error) in LR state %d the parser must be able to continue with any next member or the end of the body; lookahead lacks %r" % (nt, s["index"], miss),
                      sample={"nonterminal": nt, "state": s["index"], "lookahead": sorted(la)})
    for nt in need:
        rep.floor("R3", "states that can shift `error` for %s" % nt, seen.get(nt, 0), 1)
    rep.analysed["automaton states"] = a["state_count"]
    rep.assumptions += ["TB-2 lalrpop_util's recovery algorithm (drops tokens until the error production can be followed by the lookahead)", "TB-1/TB-4 for R1, R2"]
    rep.not_decided += ["that token-dropping recovery resynchronises at the member's terminator for every garbage string and never swallows the following member",
                        "that every syntax Error lies inside the malformed member (dynamics of the runtime recovery algorithm over all token strings: no static argument in reach bounds it)"]
