"""C14 - a malformed member costs only itself (necessary conditions only)."""
from absint import *
import cfg
import re
from mirlib import callee_info
import common_g


def run(ctx, rep):
    gram = ctx.gram
    rep.rule("R1", "each member-level recovery alternative exists, converts and pushes the recovered error and yields None (C03 S1 for OptInterfaceElement / OptParcelableElement / OptEnumElement)")
    rep.rule("R2", "bodies are built from the member repetition by into_iter().flatten().collect() only: well-formed siblings before and after a dropped member are kept, in order")
    rep.rule("R3", "on the LR automaton: wherever `error` can be shifted inside a body, the recovery alternative is reduced on a lookahead set that contains FIRST(member) and the closing brace (enum: `,` and `}`) - the parser can go on with the next member")
    n, _ = common_g.emit(ctx, rep, "C14", {"recovery"}, "R1")
    rep.floor("R1", "recovery alternatives", n, 4)
    n, _ = common_g.emit(ctx, rep, "C14", {"flatten"}, "R2")
    rep.floor("R2", "bodies built by flatten", n, 3)
    rep.rule("R4", "the token vocabulary is the reference one (A10.i): every vocabulary token inside a malformed member reaches the parser (a recoverable parser error), none becomes an unrecoverable lexer error")
    import lexical
    lexical.rules(ctx, rep, "C14", {"classes"})
    auto = [a for a in gram["automata"] if a["start"] == "OptAidl"]
    if not auto:
        raise KeyError("anchor-missing: automaton of OptAidl")
    a = auto[0]
    first = gram["first"]
    need = {
        "OptInterfaceElement": set(first["OptInterfaceElement"]) - {"error"} | {'"}"'},
        "OptParcelableElement": set(first["OptParcelableElement"]) - {"error"} | {'"}"'},
        "OptEnumElement": {'","', '"}"'},
    }
    seen = {}
    for s in a["states"]:
        t = s["shifts"].get("error")
        if t is None:
            continue
        tgt = a["states"][t]
        for r in tgt["reduces"]:
            nt = r["production"]["nonterminal"]
            if r["production"]["symbols"] != ["error"] or nt not in need:
                continue
            la = set(r["lookahead"])
            seen.setdefault(nt, 0)
            seen[nt] += 1
            miss = sorted(need[nt] - la)
            rep.check(not miss, "R3", "C14|R3|%s|state%d" % (nt, s["index"]) if miss else "C14|R3|%s" % nt, "src/aidl.lalrpop (%s, LR state %d)" % (nt, s["index"]),
                      "after recovering a malformed member (%s -> error) in LR state %d the parser must be able to continue with any next member or the end of the body; lookahead lacks %r" % (nt, s["index"], miss),
                      sample={"nonterminal": nt, "state": s["index"], "lookahead": sorted(la)})
    for nt in need:
        rep.floor("R3", "states that can shift `error` for %s" % nt, seen.get(nt, 0), 1)
    rep.analysed["automaton states"] = a["state_count"]
    recovery_model(ctx, rep, a)
    # ---- R7: the recovered error always becomes a diagnostic
    rep.rule("R7", "inherits C03 S2 / S4 and C20 F3 (re-evaluated here): from_error_recovery returns a diagnostic whenever from_parse_error does (no case - e.g. 'nothing was dropped' - is discarded), with the kind and range of the conversion")
    import c03
    c03.recovery_keeps_range(ctx, rep, "C14")
    # ---- R6: the tree of a file with a malformed member goes through the same pipeline as any other
    rep.rule("R6", "inherits C12 H7: Parser::validate hands EVERY stored result to validation::validate (no file is returned unvalidated because it has syntax diagnostics: its surviving members would keep unresolved types / unpropagated oneway)")
    import c12
    import core as _core
    r12 = _core.Report("C12")
    c12.run(ctx, r12)
    bad = [v for v in r12.violations if v.rule == "H7"]
    rep.check(not bad, "R6", "C14|R6|validate-all", bad[0].where if bad else None, bad[0].message if bad else "Parser::validate = validation::validate(collect_item_keys(), all results)")
    tree_kept_rule(ctx, rep, "C14", "R8")
    rep.rule("H3", "inherits C12 H3 (re-evaluated here): what add_content stores for an id is the parse of the text just given - a fresh diagnostics vector, the parser's tree - "
                   "so every syntax Error of the result stems from this text's malformed member (nothing is carried over from the content the id held before)")
    c12.add_content_rule(ctx, rep, "C14", "H3")
    rep.assumptions += ["TB-2 lalrpop_util's recovery algorithm (drops tokens until the error production can be followed by the lookahead)", "TB-1/TB-4 for R1, R2"]
    rep.not_decided += ["malformed members longer than the bound of rule R5, and documents outside its frames (R5 explores a model of the parser - exported automaton + transcription of lalrpop_util's recovery loop - not the generated code)"]


# std callees that may receive a `&mut` to (part of) the tree: they hand out references / iterate, they never add, drop or move nodes
TREE_ACCESSORS = ("::deref_mut", "::iter_mut", "::as_mut", "::as_mut_slice", "::as_deref_mut", "::get_mut", "::first_mut", "::last_mut", "::index_mut", "::into_iter", "::by_ref")
# the two writes validation is meant to perform on a tree (C05: resolution result, C10: oneway propagation)
TREE_WRITES = {("kind", "ast::Type"), ("oneway", "ast::Method")}


def owns_tree(ty):
    """the type holds tree nodes by value (possibly behind the outermost &mut): `&mut Vec<ast::Method>` yes, `HashMap<String, &ast::Import>` no"""
    t = ty[4:].lstrip() if ty.startswith("&mut") else ty
    t = re.sub(r"&(?:'\w+ )?(?:mut )?ast::\w+", "", t)     # nodes held by reference are not owned
    return re.search(r"\bast::(?!Range\b|Position\b|AndroidTypeKind\b|ResolvedItemKind\b|TypeKind\b|Direction\b)\w", t) is not None


def strip_havoc(l):
    """the value a label denotes before opaque callees were allowed to write through it"""
    while isinstance(l, tuple) and l and l[0] in ("havoc", "mut"):
        l = l[2] if l[0] == "havoc" else l[1]
    return l


def havoc_by(l):
    """the opaque callees that were handed this value mutably, outermost first"""
    out = []
    while isinstance(l, tuple) and l and l[0] in ("havoc", "mut"):
        if l[0] == "havoc":
            out.append(l[1])
            l = l[2]
        else:
            l = l[1]
    return out


def tree_kept_rule(ctx, rep, prop, rule):
    """R8: validation returns the tree the parser stored - same nodes, same order; it only fills in Type.kind and Method.oneway.
    (a) the per-file closure's result carries Some(<the stored tree>) on every path with a tree (tabulated);
    (b) inventory over everything reachable from validation::validate: every store into a field of a tree node, every store of a
        whole node through a reference, and every std call that receives `&mut` to an owned part of the tree."""
    import pipeline
    import dataflow
    facts = ctx.mir
    rep.rule(rule, "the tree survives validation with every member: the per-file closure returns Some(the stored tree) (only havoc'ed by resolve_types / set_up_oneway_interface); "
                   "in everything reachable from validation::validate the only stores into tree nodes are Type.kind and Method.oneway, and `&mut` access to owned parts of the tree "
                   "goes to reference-yielding accessors only (iter_mut, deref_mut, as_mut, get_mut, iterator protocol) - no retain / remove / truncate / sort / swap / take / replace / push")
    tree_result_rule(ctx, rep, prop, rule)
    inventory_rule(ctx, rep, prop, rule)


def tree_result_rule(ctx, rep, prop, rule):
    """(a) of R8, also evaluated under every property that uses the pipeline rule PL: what the per-file closure returns is the tree
    that went through the stages (resolved kinds, propagated oneway), not a copy taken before them or a rebuilt one"""
    import pipeline
    facts = ctx.mir
    clo, paths = pipeline.tabulate(facts)
    fclo = facts.fns[clo]
    n_tree = 0
    for i, p in enumerate(paths):
        r = p.ret
        ok = isinstance(r, AdtVal) and r.ty == "tuple" and isinstance(r.fields[1].val, AdtVal)
        det = None
        if ok:
            res = r.fields[1].val
            names = [fl["name"] for fl in facts.adts["parser::ParseFileResult"]["variants"][0]["fields"]]
            ai = names.index("ast")
            l = lab(res.fields[ai].val) if ai in res.fields else (join_label(res.label, "ast") if res.label is not None else None)
            det = fmt_label(l)[:200]
            has_tree = any(pipeline.norm(c) == ("variant", "fr.ast") and v == "Some" for c, v in p.conds)
            if has_tree:
                n_tree += 1
                ok = isinstance(l, tuple) and l[:3] == ("adt", "std::option::Option", "Some") and strip_havoc(dict(l[3])[0]) == pipeline.AST and \
                    pipeline.V + "resolve_types" in havoc_by(dict(l[3])[0])   # the value AFTER the stages, not a copy taken before them
            else:
                ok = l == ("adt", "std::option::Option", "None", ()) or base_label(l) == "fr.ast"
        rep.check(ok, rule, "%s|%s|result|path%d" % (prop, rule, i), cfg.where(fclo),
                  "per-file closure, path %d: the result must carry Some(the tree stored by the parser, as resolve_types left it) - the value that went through the pipeline, not a copy taken before it and not a rebuilt or filtered one; extracted ast = %s" % (i, det),
                  sample={"path": i, "ast": det})
    rep.floor(rule, "paths with a tree whose result was compared", n_tree, 3)


def inventory_rule(ctx, rep, prop, rule):
    """(b) of R8: stores into tree nodes and mutable accesses to owned parts of the tree, over everything reachable from validation::validate"""
    import dataflow
    facts = ctx.mir
    reach, _ = dataflow.reachable_fns(facts, ["validation::validate"])
    n_sites = 0
    for pth in sorted(reach):
        f = facts.fns[pth]
        body = f["body"]
        for b in body["blocks"]:
            for st in b["stmts"]:
                if st["k"] != "assign":
                    continue
                lhs = st["lhs"]
                flds = [(pr.get("name"), pr.get("of")) for pr in lhs["p"] if pr["k"] == "field"]
                node_flds = [fo for fo in flds if fo[1] and owns_tree(fo[1])]
                through_ref = any(pr["k"] == "deref" for pr in lhs["p"])
                whole = through_ref and not flds and owns_tree(lhs["ty"])
                if not node_flds and not whole:
                    continue
                n_sites += 1
                okw = bool(node_flds) and node_flds[-1] in TREE_WRITES and flds[-1] == node_flds[-1]
                what = ".".join("%s(%s)" % fo for fo in flds) if flds else "*(%s)" % lhs["ty"]
                rep.check(okw, rule, "%s|%s|store|%s|%s" % (prop, rule, pth, what), cfg.where(f, st),
                          "%s writes %s of the tree during validation: only Type.kind (resolution) and Method.oneway (propagation) may be written - any other store can drop, replace or reorder members" % (pth, what),
                          sample={"fn": pth, "store": what})
            t = b["term"]
            if t["k"] != "call":
                continue
            ci = callee_info(t)
            if ci is None:
                continue
            name = ci.get("resolved") or ci["def"]
            if name in facts.fns:
                continue    # a function of the crate: in `reach`, inspected itself
            for a in t["args"]:
                ty = a["place"]["ty"] if a["k"] in ("copy", "move") else a["c"]["ty"]
                if not (ty.startswith("&mut") and owns_tree(ty)):
                    continue
                if ty == "&mut std::option::Option<ast::Aidl>":
                    continue    # the result's slot for the whole tree (`fr.ast.take()`, `fr.ast = Some(..)`), not a part of the tree: what ends up in it is clause (a)
                n_sites += 1
                oka = name.endswith(TREE_ACCESSORS) or "std::iter::Iterator::" in name or name.endswith(" as std::iter::Iterator>::next") or "as std::iter::IntoIterator>::into_iter" in name
                rep.check(oka, rule, "%s|%s|call|%s|%s" % (prop, rule, pth, name), cfg.where(f, t),
                          "%s passes `%s` (an owned part of the tree, mutably) to %s: validation may reach into the tree only through reference-yielding accessors; a call that can add, drop, move or reorder nodes breaks \"every well-formed sibling appears in order and unchanged\"" % (pth, ty, name),
                          sample={"fn": pth, "callee": name, "arg": ty})
    rep.floor(rule, "tree stores / mutable tree accesses inventoried", n_sites, 8)


SAMPLE = {"IDENT": "x", "INTEGER": "1", "FLOAT": "1.5", "QUOTED_STRING": '"s"', "ANNOTATION": "@x", "DIRECTION": "in", "PRIMITIVE": "int", "BOOLEAN": "true", "RESERVED_KEYWORD": "for",
          "PACKAGE": "package", "IMPORT": "import", "INTERFACE": "interface", "PARCELABLE": "parcelable", "ENUM": "enum", "ONEWAY": "oneway", "CONST": "const", "VOID": "void",
          "STRING": "String", "CHAR_SEQUENCE": "CharSequence", "LIST": "List", "MAP": "Map"}


def render(tokens):
    return " ".join(SAMPLE.get(t, t.strip('"')) for t in tokens)


ALLV = {}


def recovery_model(ctx, rep, a):
    """R5: bounded exhaustive exploration of malformed members on a model of the parser"""
    import itertools, time
    import lrsim
    rep.rule("R5", "model exploration: the exported LR automaton driven by a transcription of lalrpop_util 0.19.8's parse / error_recovery loop is run on every document "
                   "<frame> <sibling?> <malformed member> <terminator> <sibling?> where the malformed member ranges over ALL token strings up to the bound (no terminator / brace inside) that do not form a member; "
                   "required: a tree is produced, every well-formed sibling is reduced with its own extent and in order, at least one error is recovered and every offending token lies inside the malformed member (terminator included)")
    auto = lrsim.Auto(a)
    vocab = [t["name"] for t in ctx.gram["terminals"] if t["name"] != "error"]
    T = lambda s: s.split()
    head = T('PACKAGE IDENT ";"')
    kinds = {
        "interface": {"open": T('INTERFACE IDENT "{"'), "elem": "OptInterfaceElement", "term": '";"', "sep": None, "exclude": {'";"', '"{"', '"}"'},
                      "siblings": [T('VOID IDENT "(" ")" ";"'), T('IDENT IDENT "(" PRIMITIVE IDENT ")" ";"'), T('ANNOTATION ONEWAY VOID IDENT "(" ")" "=" INTEGER ";"'), T('CONST PRIMITIVE IDENT "=" INTEGER ";"'),
                                   T('LIST "<" STRING ">" IDENT "(" DIRECTION IDENT "[" "]" IDENT ")" ";"')]},
        "parcelable": {"open": T('PARCELABLE IDENT "{"'), "elem": "OptParcelableElement", "term": '";"', "sep": None, "exclude": {'";"', '"{"', '"}"'},
                       "siblings": [T('PRIMITIVE IDENT ";"'), T('IDENT IDENT ";"'), T('ANNOTATION MAP "<" STRING "," IDENT ">" IDENT "=" INTEGER ";"'), T('CONST STRING IDENT "=" QUOTED_STRING ";"')]},
        "enum": {"open": T('ENUM IDENT "{"'), "elem": "OptEnumElement", "term": '","', "sep": '","', "exclude": {'";"', '"{"', '"}"', '","'},
                 "siblings": [T('IDENT ","'), T('ANNOTATION IDENT "=" INTEGER ","')]},
    }
    track = ("OptInterfaceElement", "OptParcelableElement", "OptEnumElement", "OptItem")
    L = 3 if ctx.tier == "thorough" else 2
    t0 = time.time()
    total = 0
    distinct = 0
    samples = []
    for kname, k in sorted(kinds.items()):
        # sanity: every sibling alone is a well-formed member
        for sib in k["siblings"]:
            doc = head + k["open"] + sib + ['"}"']
            r = lrsim.parse(auto, doc, track)
            good = r.ok and not r.errors and [x for x in r.reductions if x[0] == k["elem"] and x[1] != ("error",)]
            rep.check(bool(good), "R5", "C14|R5|%s|sibling-wellformed|%s" % (kname, " ".join(sib)), "src/aidl.lalrpop", "frame sanity: `%s` must be a well-formed %s member in the model" % (render(sib), kname))
        alpha = [t for t in vocab if t not in k["exclude"]]
        viol = None
        allv = []
        nk = 0
        Lk = L + 1 if (kname == "enum" and ctx.tier != "thorough") else L  # enum documents are short: one more token in the quick tier
        for n in range(0, Lk + 1):
            for M in itertools.product(alpha, repeat=n):
                Mt = list(M) + [k["term"]]
                alone = lrsim.parse(auto, head + k["open"] + Mt + ['"}"'], track)
                if alone.ok and not alone.errors:
                    continue  # not malformed
                distinct += 1
                befores = [None, k["siblings"][0]]
                afters = [None] + k["siblings"]
                for bf in befores:
                    for af in afters:
                        doc = head + k["open"]
                        exp = []
                        if bf:
                            exp.append((len(doc), len(doc) + len(bf)))
                            doc = doc + bf
                        m0 = len(doc)
                        doc = doc + Mt
                        m1 = len(doc) - 1  # index of the terminator
                        if af:
                            exp.append((len(doc), len(doc) + len(af)))
                            doc = doc + af
                        doc = doc + ['"}"']
                        if k["sep"]:
                            # element spans exclude the separating comma
                            exp = [(lo, hi - 1) for lo, hi in exp]
                        r = lrsim.parse(auto, doc, track)
                        total += 1
                        nk += 1
                        kept = [(x[2], x[3]) for x in r.reductions if x[0] == k["elem"] and x[1] != ("error",)]
                        item_err = [x for x in r.reductions if x[0] == "OptItem" and x[1] == ("error",)]
                        ok_tree = r.ok and r.error is None and not item_err
                        # siblings outside the malformed member must be exactly the well-formed ones; members salvaged
                        # from the malformed member's own tokens are not siblings
                        kept_out = [x for x in kept if not (m0 <= x[0] and x[1] <= m1 + 1)]
                        ok_sib = kept_out == exp
                        ok_err = len(r.errors) >= 1 and all(m0 <= e <= m1 for e in r.errors)
                        if not (ok_tree and ok_sib and ok_err):
                            allv.append((doc, m0, m1, ok_tree, kept_out, exp, r.errors))
                            if viol is None:
                                viol = allv[-1]
                        if len(samples) < 3 and n == 2 and bf and af and total % 97 == 0:
                            samples.append({"document": render(doc), "malformed_member_tokens": [m0, m1], "siblings_kept": kept, "errors_at": r.errors})
        rep.analysed["R5 documents (%s)" % kname] = nk
        ALLV[kname] = allv
        def klass(v):
            doc, m0, m1 = v[0], v[1], v[2]
            M = doc[m0:m1]
            if kname == "enum":
                for i, t in enumerate(M[:-1]):
                    if t == "ANNOTATION" and M[i + 1] == '"("' and '")"' not in M[i + 2:]:
                        return "comma-inside-open-annotation-parenthesis"
            return None
        groups = {}
        for v in allv:
            c = klass(v)
            key_ = c if c else render(v[0][v[1]:v[2] + 1])
            groups.setdefault(key_, v)
        for key_, v in sorted(groups.items())[:5]:
            doc, m0, m1, ok_tree, kept, exp, errs = v
            what = []
            if not ok_tree:
                what.append("no tree is produced")
            if kept != exp:
                what.append("well-formed siblings at token spans %r are expected, the parser keeps %r" % (exp, kept))
            if not (len(errs) >= 1 and all(m0 <= e <= m1 for e in errs)):
                what.append("syntax errors at tokens %r, the malformed member spans tokens %d..%d" % (errs, m0, m1))
            rep.fail("R5", "C14|R5|%s|%s" % (kname, key_), "src/aidl.lalrpop (%s body)" % kname,
                     "in the parser model the malformed member `%s` of the document `%s` does not cost only itself: %s" % (render(doc[m0:m1 + 1]), render(doc), "; ".join(what)),
                     witness={"document": render(doc), "malformed_member": render(doc[m0:m1 + 1])})
        if not allv:
            pass
        if not allv:
            rep.ok("R5", "C14|R5|%s" % kname, {"body": kname, "documents": nk, "max_malformed_tokens": L})
    rep.analysed["R5 documents explored"] = total
    rep.analysed["R5 distinct malformed members"] = distinct
    rep.analysed["R5 bound (tokens in the malformed member, terminator excluded)"] = L
    rep.analysed["R5 seconds"] = round(time.time() - t0, 1)
    rep.samples += [{"rule": "R5", "obligation": "explored document", "evidence": s_} for s_ in samples]
    rep.floor("R5", "documents explored on the parser model", total, 10000)
    rep.assumptions += ["rule R5 trusts the transcription of lalrpop_util's recovery loop in rules/lrsim.py (cross-checked by hand against the real parser on a handful of inputs during development) and that the generated tables equal the exported automaton (TB-2)"]
