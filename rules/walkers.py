"""A5 visitor completeness, decided by extracting the *visit sequence* of each walker with the
tabulator (one generic element per container, recursion recorded as an induction hypothesis) and
comparing it with spec/traversal.json."""
import json, os
from core import VERIF
from absint import *
from domain import *
import cfg

CONFIGS = [("Interface", "Method"), ("Interface", "Const"), ("Parcelable", "Field"), ("Parcelable", "Const"), ("Enum", None)]
PAYLOAD = {"Method": "ast::Method", "Const": "ast::Const", "Field": "ast::Field"}
ELEM_ENUM = {"Interface": "ast::InterfaceElement", "Parcelable": "ast::ParcelableElement"}


def spec():
    return json.load(open(os.path.join(VERIF, "spec", "traversal.json")))


def field_inventory(facts):
    """fields of AST ADTs whose type mentions ast::Type (what a type walker must cover), from the ADTs"""
    out = []
    for path, adt in sorted(facts.adts.items()):
        if not path.startswith("ast::") or "::_::" in path:
            continue
        for v in adt["variants"]:
            for f in v["fields"]:
                t = f["ty"]
                if "ast::Type" in t.replace("ast::TypeKind", ""):
                    out.append((path, f["name"], t))
    return out


def make_ast(facts, item, el):
    def on_next(src):
        if src == "item.elements":
            if item == "Enum":
                return Ref(Cell(struct_val(facts, "ast::EnumElement", "member")), True)
            return Ref(Cell(enum_val(facts, ELEM_ENUM[item], el, {0: struct_val(facts, PAYLOAD[el], "member")})), True)
        if src == "member.args":
            return Ref(Cell(struct_val(facts, "ast::Arg", "arg")), True)
        return None
    itemv = enum_val(facts, "ast::Item", item, {0: struct_val(facts, "ast::" + item, "item")})
    ast = struct_val(facts, "ast::Aidl", "ast", {"item": itemv})
    return ast, on_next


def run_walker(facts, fn, item, el, pre_args=(), callback=None):
    ast, on_next = make_ast(facts, item, el)
    m = Machine(facts, on_next=on_next, loop_once=True, max_paths=4000)
    cb = callback if callback is not None else Opaque("F")
    return m.run(fn, [Ref(Cell(ast), True)] + list(pre_args) + [cb])


def is_callback(e):
    return e[0] == "call" and e[1] in ("std::ops::FnMut::call_mut", "std::ops::FnOnce::call_once", "std::ops::Fn::call") \
        and base_label(e[2][0]) == "F"


def sym_of(label):
    """callback argument tuple label -> readable symbol description"""
    # ('adt','tuple',None,((0, X),...))
    if isinstance(label, tuple) and label[0] == "adt" and label[1] == "tuple":
        parts = [x for _, x in label[3]]
        return " ".join(sym_part(x) for x in parts)
    return fmt_label(label)


def sym_part(x):
    if isinstance(x, tuple) and x[0] == "adt" and x[1] == "symbol::Symbol":
        return "%s %s" % (x[2], " ".join(sym_part(y) for _, y in x[3]))
    if isinstance(x, tuple) and x[0] == "adt" and x[1] == "symbol::ConstOwner":
        return "%s:%s" % (x[2], " ".join(sym_part(y) for _, y in x[3]))
    if isinstance(x, tuple) and x[0] == "elem":
        return "ELEM(%s)" % fmt_label(x[1])
    return fmt_label(x)


def events(path):
    """normalised event list of one path"""
    out = []
    for e in path.effects:
        if e[0] == "iterate":
            if any(k in ("rev", "filter", "filter_map", "skip", "take") for k in e[3]):
                out.append("each(%s) %s {" % (",".join(e[3]), fmt_label(e[2])))
            else:
                out.append("each %s {" % fmt_label(e[2]))
        elif e[0] == "next":
            src = e[1]
            if isinstance(src, tuple) and len(src) == 2 and src[0] == "iter":
                src = src[1]    # `for t in xs.iter()`: plain forward iteration, the same sequence as `xs.iter().for_each(..)` / `for t in &xs`
            out.append("each %s {" % fmt_label(src))
        elif e[0] in ("iterate_end", "next_end"):
            out.append("}" if not (e[0] == "iterate_end" and len(e) > 4 and e[4] == "break") else "}!stops-here")
        elif is_callback(e):
            out.append("visit " + sym_of(e[2][1]))
        elif e[0] == "recurse":
            a0 = e[2][0]
            if isinstance(a0, tuple) and len(a0) == 2 and a0[0] == "elem" and isinstance(a0[1], tuple) and len(a0[1]) == 2 and a0[1][0] == "iter":
                a0 = ("elem", a0[1][1])    # element of `xs.iter()` in a `for` loop = element of xs
            out.append("recurse %s %s" % (e[1], fmt_label(a0)))
        elif e[0] == "call" and e[1].endswith("::branch"):
            continue
        elif e[0] == "call" and e[1].endswith("::from_residual"):
            out.append("return-break")
        elif e[0] == "call" and e[1].endswith("::from_output"):
            continue
        else:
            out.append("other %s %s" % (e[0], fmt_label(e[1:3])))
    return out


def expand(lines, type_conds, rec_fn, elem_names):
    """expand the DSL into the normalised event list expected on a path with the given
    per-type 'is array' verdicts"""
    out = []
    stack = []
    for ln in lines:
        w = ln.split()
        if w[0] == "each":
            out.append("each %s {" % w[1])
            stack.append(w[1])
        elif w[0] == "}":
            out.append("}")
            stack.pop()
        elif w[0] in ("TYPE", "TYPEMUT"):
            t = w[1]
            kids = ["each %s.generic_types {" % t, "recurse %s (elem, %s.generic_types)" % (rec_fn, t), "}"]
            if w[0] == "TYPE" and type_conds.get(t):
                out += kids + ["visit " + type_visit(t, elem_names)]
            else:
                out += ["visit " + type_visit(t, elem_names)] + kids
        elif w[0] == "visit":
            args = []
            for a in w[1:]:
                if a == "ELEM":
                    args.append("ELEM(%s)" % stack[-1])
                else:
                    args.append(a)
            out.append("visit " + " ".join(args))
        else:
            raise ValueError("bad spec line %r" % ln)
    return out


def type_visit(t, elem_names):
    return elem_names["type_fmt"] % t


def type_conds_of(path):
    """{type label: bool} from the path conditions `eq(<t>.kind, TypeKind::Array)`; also returns
    conditions that are not of this form"""
    conds = {}
    other = []
    for l, v in path.conds:
        if isinstance(l, tuple) and l[0] in ("eq", "ne") and isinstance(l[1], str) and l[1].endswith(".kind") \
                and l[2] == ("adt", "ast::TypeKind", "Array", ()):
            conds[l[1][:-5]] = (v if l[0] == "eq" else not v)
        else:
            other.append((l, v))
    return conds, other


def check_type_walker(facts, rep, prop, walker, spec_key, mut):
    """walk_types / walk_types_mut: sequences per configuration + inductive step for the recursive helper"""
    sp = spec()[spec_key]
    fn = facts.fn(walker)
    rule = "A5"
    inv = field_inventory(facts)
    rep.analysed["type-bearing fields (from ADTs)"] = ["%s.%s" % (a, b) for a, b, _ in inv]
    covered = set()
    rec_fns = set()
    n_cfg = 0
    for item, el in CONFIGS:
        key = "%s/%s" % (item, el) if el else item
        exp_lines = sp.get(key)
        if exp_lines is None:
            rep.fail(rule, "%s|A5|%s|%s|no-spec" % (prop, walker, key), cfg.where(fn), "no spec for configuration %s" % key)
            continue
        try:
            paths = run_walker(facts, walker, item, el)
        except Unsupported as e:
            rep.fail(rule, "%s|A5|%s|%s|unsupported" % (prop, walker, key), cfg.where(fn), "tabulator: %s" % e)
            continue
        n_cfg += 1
        for p in paths:
            ev = events(p)
            conds, other = type_conds_of(p)
            recs = [e for e in p.effects if e[0] == "recurse"]
            for r in recs:
                rec_fns.add(r[1])
            rec = recs[0][1] if recs else "<recursive visit>"
            exp = expand(exp_lines, conds, rec, {"type_fmt": "%s"})
            ok = ev == exp and p.exit == "return" and not other
            w = first_diff(ev, exp)
            k = "%s|A5|%s|%s|%s" % (prop, walker, key, cond_key(conds))
            if not ok and depth_witness(ev, exp):
                k = "%s|A5|%s|depth" % (prop, walker)
            rep.check(ok, rule, k, cfg.where(fn),
                      "%s on %s (%s): visit sequence must be %s; extracted %s%s" % (walker, key, cond_key(conds), exp, ev, diagnose(ev, exp)),
                      detail={"expected": exp, "extracted": ev, "first_difference": w},
                      witness=depth_witness(ev, exp),
                      sample={"config": key, "conds": cond_key(conds), "sequence": ev})
            for ln in ev:
                for a, b, _ in inv:
                    if ("." + b) in ln:
                        covered.add((a, b))
    rep.floor(rule, "%s configurations" % walker, n_cfg, 5)
    for a, b, t in inv:
        rep.check((a, b) in covered, rule, "%s|A5|%s|field|%s.%s" % (prop, walker, a, b), cfg.where(fn),
                  "field %s.%s (%s) holds types and must be reached by %s" % (a, b, t, walker))
    # inductive step
    if len(rec_fns) != 1:
        rep.fail(rule, "%s|A5|%s|depth" % (prop, walker), cfg.where(fn),
                 "generic parameters must be visited by a recursive visit function (any depth); found recursion targets %r - "
                 "children handed straight to the callback are visited one level deep only" % (sorted(rec_fns),),
                 witness="Map<String, List<Foo>>: the inner `Foo` is never visited")
        return
    rec = list(rec_fns)[0]
    rf = facts.fn(rec)
    # parameters: the one of type &ast::Type / &mut ast::Type is the node, the other the callback
    args = []
    tpos = None
    for i in range(rf["body"]["arg_count"]):
        ty = rf["body"]["locals"][i + 1]["ty"]
        if ty.replace("&mut ", "&").replace("&'a ", "&") == "&ast::Type":
            args.append(Ref(Cell(Opaque("t", "ast::Type")), True))
            tpos = i
        else:
            args.append(Ref(Cell(Opaque("F")), True))
    if tpos is None:
        rep.fail(rule, "%s|A5|%s|rec-signature" % (prop, walker), cfg.where(rf), "recursive helper %s has no &ast::Type parameter" % rec)
        return
    m = Machine(facts, loop_once=True)
    paths = m.run(rec, args)
    for p in paths:
        ev = events(p)
        conds, other = type_conds_of(p)
        exp = expand(["TYPEMUT t" if mut else "TYPE t"], conds, rec, {"type_fmt": "%s"})
        recs = [e for e in p.effects if e[0] == "recurse"]
        pos_ok = all(e[1] == rec and e[2][tpos] in (("elem", "t.generic_types"), ("elem", ("iter", "t.generic_types"))) for e in recs) and len(recs) == 1
        ok = ev == exp and p.exit == "return" and not other and pos_ok
        rep.check(ok, rule, "%s|A5|%s|induction|%s" % (prop, walker, cond_key(conds)), cfg.where(rf),
                  "inductive step: %s(t) must visit t once and recurse on every element of t.generic_types (forward); expected %s, extracted %s" % (rec, exp, ev),
                  detail={"expected": exp, "extracted": ev},
                  sample={"helper": rec, "conds": cond_key(conds), "sequence": ev})
    rep.floor(rule, "%s inductive paths" % walker, len(paths), 1 if mut else 2)


def cond_key(conds):
    return ",".join("%s=%s" % (k, "array" if v else "non-array") for k, v in sorted(conds.items())) or "-"


def first_diff(a, b):
    for i in range(max(len(a), len(b))):
        x = a[i] if i < len(a) else None
        y = b[i] if i < len(b) else None
        if x != y:
            return {"index": i, "extracted": x, "expected": y}
    return None


def diagnose(ev, exp):
    d = first_diff(ev, exp)
    if d is None:
        return ""
    if d["extracted"] and d["expected"] and d["expected"].startswith("recurse") and d["extracted"].startswith("visit") and "elem" in d["extracted"].lower():
        return " -- generic parameters are handed straight to the callback: visited one level deep only"
    return " -- first difference at event %d: extracted %r, expected %r" % (d["index"], d["extracted"], d["expected"])


def depth_witness(ev, exp):
    d = first_diff(ev, exp)
    if d and d["expected"] and d["expected"].startswith("recurse"):
        return "void f(in Map<String, List<Foo>> m); // `Foo` (depth 2) is not reached"
    return None
