// mirfacts: rustc_private driver that dumps the type-checked program (MIR at mir-opt-level=0,
// resolved callees, ADT layouts, signatures) of the crate `aidl_parser` as one JSON file.
// Used as RUSTC_WORKSPACE_WRAPPER; see /verif/DESIGN.md section 2.1.
#![feature(rustc_private)]

extern crate rustc_abi;
extern crate rustc_driver;
extern crate rustc_hir;
extern crate rustc_interface;
extern crate rustc_middle;
extern crate rustc_session;
extern crate rustc_span;

use rustc_driver::{Callbacks, Compilation};
use rustc_hir::def::DefKind;
use rustc_hir::def_id::{DefId, LocalDefId};
use rustc_interface::interface::Compiler;
use rustc_middle::mir::{self, *};
use rustc_middle::ty::print::with_no_trimmed_paths;
use rustc_middle::ty::{self, Instance, Ty, TyCtxt, TypingEnv};
use rustc_span::{ExpnKind, Span};
use std::fmt::Write as _;

// ---------------------------------------------------------------------------------------------
// tiny JSON writer
// ---------------------------------------------------------------------------------------------
fn esc(s: &str) -> String {
    let mut o = String::with_capacity(s.len() + 2);
    o.push('"');
    for c in s.chars() {
        match c {
            '"' => o.push_str("\\\""),
            '\\' => o.push_str("\\\\"),
            '\n' => o.push_str("\\n"),
            '\r' => o.push_str("\\r"),
            '\t' => o.push_str("\\t"),
            c if (c as u32) < 0x20 => {
                let _ = write!(o, "\\u{:04x}", c as u32);
            }
            c => o.push(c),
        }
    }
    o.push('"');
    o
}
fn arr(items: Vec<String>) -> String {
    format!("[{}]", items.join(","))
}
fn obj(items: Vec<(&str, String)>) -> String {
    let v: Vec<String> = items.into_iter().map(|(k, v)| format!("{}:{}", esc(k), v)).collect();
    format!("{{{}}}", v.join(","))
}
fn opt(s: Option<String>) -> String {
    s.unwrap_or_else(|| "null".to_string())
}

// ---------------------------------------------------------------------------------------------

struct Ctx<'tcx> {
    tcx: TyCtxt<'tcx>,
}

impl<'tcx> Ctx<'tcx> {
    fn path(&self, d: DefId) -> String {
        with_no_trimmed_paths!(self.tcx.def_path_str(d))
    }
    fn ty(&self, t: Ty<'tcx>) -> String {
        with_no_trimmed_paths!(format!("{}", t))
    }
    fn span(&self, sp: Span) -> String {
        // position of the outermost call site (user-written code), plus expansion info
        let sm = self.tcx.sess.source_map();
        let cs = sp.source_callsite();
        let lo = sm.lookup_char_pos(cs.lo());
        let file = match &lo.file.name {
            rustc_span::FileName::Real(r) => {
                r.local_path().map(|p| p.display().to_string()).unwrap_or_else(|| format!("{:?}", r))
            }
            other => format!("{:?}", other),
        };
        let mut exp: Vec<String> = Vec::new();
        if sp.from_expansion() {
            let mut cur = sp;
            let mut guard = 0;
            while cur.from_expansion() && guard < 16 {
                let data = cur.ctxt().outer_expn_data();
                let d = match data.kind {
                    ExpnKind::Root => "root".to_string(),
                    ExpnKind::Macro(k, name) => format!("{:?}:{}", k, name),
                    ExpnKind::AstPass(p) => format!("astpass:{:?}", p),
                    ExpnKind::Desugaring(dk) => format!("desugar:{:?}", dk),
                };
                exp.push(esc(&d));
                cur = data.call_site;
                guard += 1;
            }
        }
        obj(vec![
            ("file", esc(&file)),
            ("line", format!("{}", lo.line)),
            ("col", format!("{}", lo.col.0 + 1)),
            ("exp", arr(exp)),
        ])
    }

    fn adt_info(&self, t: Ty<'tcx>) -> Option<(DefId, String)> {
        match t.kind() {
            ty::Adt(def, _) => Some((def.did(), self.path(def.did()))),
            _ => None,
        }
    }

    // ---- places ----------------------------------------------------------------------------
    fn place(&self, body: &Body<'tcx>, owner: LocalDefId, p: &Place<'tcx>) -> String {
        let mut pty = mir::PlaceTy::from_ty(body.local_decls[p.local].ty);
        let mut projs: Vec<String> = Vec::new();
        for elem in p.projection.iter() {
            let j = match elem {
                ProjectionElem::Deref => obj(vec![("k", esc("deref"))]),
                ProjectionElem::Field(f, fty) => {
                    let mut name: Option<String> = None;
                    let mut adt: Option<String> = None;
                    match pty.ty.kind() {
                        ty::Adt(def, _) => {
                            adt = Some(self.path(def.did()));
                            let v = match pty.variant_index {
                                Some(v) => Some(def.variant(v)),
                                None => {
                                    if def.is_struct() || def.is_union() {
                                        Some(def.non_enum_variant())
                                    } else {
                                        None
                                    }
                                }
                            };
                            if let Some(v) = v {
                                if let Some(fd) = v.fields.get(f) {
                                    name = Some(fd.name.to_string());
                                }
                            }
                        }
                        ty::Closure(cdef, _) => {
                            if let Some(l) = cdef.as_local() {
                                let caps = self.tcx.closure_captures(l);
                                if let Some(c) = caps.get(f.as_usize()) {
                                    name = Some(c.to_string(self.tcx));
                                }
                            }
                            adt = Some(self.path(*cdef));
                        }
                        _ => {}
                    }
                    obj(vec![
                        ("k", esc("field")),
                        ("i", format!("{}", f.as_usize())),
                        ("name", opt(name.map(|n| esc(&n)))),
                        ("of", opt(adt.map(|n| esc(&n)))),
                        ("ty", esc(&self.ty(fty))),
                    ])
                }
                ProjectionElem::Index(l) => {
                    obj(vec![("k", esc("index")), ("local", format!("{}", l.as_usize()))])
                }
                ProjectionElem::ConstantIndex { offset, min_length, from_end } => obj(vec![
                    ("k", esc("cindex")),
                    ("offset", format!("{}", offset)),
                    ("min_length", format!("{}", min_length)),
                    ("from_end", format!("{}", from_end)),
                ]),
                ProjectionElem::Subslice { from, to, from_end } => obj(vec![
                    ("k", esc("subslice")),
                    ("from", format!("{}", from)),
                    ("to", format!("{}", to)),
                    ("from_end", format!("{}", from_end)),
                ]),
                ProjectionElem::Downcast(name, v) => {
                    let vname = match pty.ty.kind() {
                        ty::Adt(def, _) if def.is_enum() => Some(def.variant(v).name.to_string()),
                        _ => name.map(|s| s.to_string()),
                    };
                    obj(vec![
                        ("k", esc("downcast")),
                        ("variant", format!("{}", v.as_usize())),
                        ("name", opt(vname.map(|n| esc(&n)))),
                    ])
                }
                ProjectionElem::OpaqueCast(_) => obj(vec![("k", esc("opaquecast"))]),
                ProjectionElem::UnwrapUnsafeBinder(_) => obj(vec![("k", esc("unwrapbinder"))]),
            };
            projs.push(j);
            pty = pty.projection_ty(self.tcx, elem);
        }
        let _ = owner;
        obj(vec![
            ("l", format!("{}", p.local.as_usize())),
            ("p", arr(projs)),
            ("ty", esc(&self.ty(pty.ty))),
        ])
    }

    // ---- constants -------------------------------------------------------------------------
    fn constant(&self, owner: LocalDefId, c: &ConstOperand<'tcx>) -> String {
        let tcx = self.tcx;
        let cty = c.const_.ty();
        let mut items: Vec<(&str, String)> = vec![("ty", esc(&self.ty(cty)))];
        let disp = with_no_trimmed_paths!(format!("{}", c.const_));
        items.push(("display", esc(&disp)));
        // function items
        if let ty::FnDef(def_id, args) = cty.kind() {
            items.push(("fn", self.callee(owner, *def_id, args)));
            return obj(items);
        }
        match c.const_ {
            mir::Const::Unevaluated(uv, _) => {
                if let Some(p) = uv.promoted {
                    items.push(("promoted", format!("{}", p.as_usize())));
                    items.push(("promoted_of", esc(&self.path(uv.def))));
                } else {
                    items.push(("unevaluated", esc(&self.path(uv.def))));
                }
            }
            _ => {}
        }
        let typing_env = TypingEnv::post_analysis(tcx, owner);
        // scalar ints / bools / chars
        if cty.is_integral() || cty.is_bool() || cty.is_char() {
            if let Some(si) = c.const_.try_eval_scalar_int(tcx, typing_env) {
                let size = si.size();
                let bits = si.to_bits(size);
                if cty.is_bool() {
                    items.push(("bool", format!("{}", bits != 0)));
                } else if cty.is_char() {
                    let ch = char::from_u32(bits as u32).unwrap_or('\u{fffd}');
                    items.push(("char", esc(&ch.to_string())));
                    items.push(("int", format!("{}", bits)));
                } else if cty.is_signed() {
                    let v = size.sign_extend(bits) as i128;
                    items.push(("int", format!("{}", v)));
                } else {
                    items.push(("int", format!("{}", bits)));
                }
            }
        }
        // &str
        if let ty::Ref(_, inner, _) = cty.kind() {
            if inner.is_str() {
                // literal, or a named constant (`const RE: &str = ..`) evaluated here
                let cv_opt = match c.const_ {
                    mir::Const::Val(cv, _) => Some(cv),
                    mir::Const::Unevaluated(uv, _) if uv.promoted.is_none() => c.const_.eval(tcx, typing_env, c.span).ok(),
                    _ => None,
                };
                if let Some(cv) = cv_opt {
                    if let ConstValue::Slice { .. } | ConstValue::Indirect { .. } = cv {
                        if let Some(bytes) = cv.try_get_slice_bytes_for_diagnostics(tcx) {
                            if let Ok(s) = std::str::from_utf8(bytes) {
                                items.push(("str", esc(s)));
                            }
                        }
                    }
                }
            }
        }
        // [E; N] with E a field-less enum (e.g. `const ALL: [Kind; 4]`): the variant names, decoded from the evaluated allocation
        if let ty::Array(elem, _) = cty.kind() {
            if let ty::Adt(adt, _) = elem.kind() {
                if adt.is_enum() && adt.variants().iter().all(|v| v.fields.is_empty()) {
                    let cv_opt = match c.const_ {
                        mir::Const::Val(cv, _) => Some(cv),
                        mir::Const::Unevaluated(uv, _) if uv.promoted.is_none() => c.const_.eval(tcx, typing_env, c.span).ok(),
                        _ => None,
                    };
                    if let (Some(ConstValue::Indirect { alloc_id, offset }), Ok(layout)) =
                        (cv_opt, tcx.layout_of(typing_env.as_query_input(*elem)))
                    {
                        let esz = layout.size.bytes() as usize;
                        if let rustc_middle::mir::interpret::GlobalAlloc::Memory(mem) = tcx.global_alloc(alloc_id) {
                            let alloc = mem.inner();
                            let start = offset.bytes() as usize;
                            let total = alloc.len();
                            let bytes = alloc.inspect_with_uninit_and_ptr_outside_interpreter(start..total);
                            let mut names: Vec<String> = Vec::new();
                            let mut ok = esz > 0 && esz <= 16;
                            if ok {
                                for chunk in bytes.chunks(esz) {
                                    if chunk.len() < esz { break; }
                                    let mut v: u128 = 0;
                                    for (i, b) in chunk.iter().enumerate() { v |= (*b as u128) << (8 * i); }
                                    let mut found = None;
                                    for (vi, d) in adt.discriminants(tcx) {
                                        if d.val == v { found = Some(adt.variant(vi).name.to_string()); }
                                    }
                                    match found { Some(n) => names.push(esc(&n)), None => { ok = false; break; } }
                                }
                            }
                            if ok {
                                items.push(("enum_array_of", esc(&self.ty(*elem))));
                                items.push(("enum_array", arr(names)));
                            }
                        }
                    }
                }
            }
        }
        obj(items)
    }

    fn callee(&self, owner: LocalDefId, def_id: DefId, args: ty::GenericArgsRef<'tcx>) -> String {
        let tcx = self.tcx;
        let mut items: Vec<(&str, String)> = Vec::new();
        items.push(("def", esc(&self.path(def_id))));
        let argstrs: Vec<String> =
            args.iter().map(|a| esc(&with_no_trimmed_paths!(format!("{}", a)))).collect();
        items.push(("args", arr(argstrs)));
        items.push(("local", format!("{}", def_id.is_local())));
        // trait the item belongs to
        if let Some(tr) = tcx.trait_of_assoc(def_id) {
            items.push(("trait", esc(&self.path(tr))));
        }
        if let Some(imp) = tcx.impl_of_assoc(def_id) {
            let self_ty = tcx.type_of(imp).instantiate_identity().skip_norm_wip();
            items.push(("impl_self", esc(&self.ty(self_ty))));
        }
        let kind = tcx.def_kind(def_id);
        if matches!(kind, DefKind::Fn | DefKind::AssocFn) {
            let typing_env = TypingEnv::post_analysis(tcx, owner);
            match Instance::try_resolve(tcx, typing_env, def_id, args) {
                Ok(Some(inst)) => {
                    let rd = inst.def_id();
                    items.push(("resolved", esc(&self.path(rd))));
                    items.push(("resolved_local", format!("{}", rd.is_local())));
                    let ra: Vec<String> = inst
                        .args
                        .iter()
                        .map(|a| esc(&with_no_trimmed_paths!(format!("{}", a))))
                        .collect();
                    items.push(("resolved_args", arr(ra)));
                    let ik = match inst.def {
                        ty::InstanceKind::Item(_) => "item",
                        ty::InstanceKind::Intrinsic(_) => "intrinsic",
                        ty::InstanceKind::VTableShim(_) => "vtable_shim",
                        ty::InstanceKind::ReifyShim(..) => "reify_shim",
                        ty::InstanceKind::FnPtrShim(..) => "fnptr_shim",
                        ty::InstanceKind::Virtual(..) => "virtual",
                        ty::InstanceKind::ClosureOnceShim { .. } => "closure_once_shim",
                        ty::InstanceKind::DropGlue(..) => "drop_glue",
                        ty::InstanceKind::CloneShim(..) => "clone_shim",
                        _ => "other",
                    };
                    items.push(("instance_kind", esc(ik)));
                    if let Some(imp) = tcx.impl_of_assoc(rd) {
                        let self_ty = tcx.type_of(imp).instantiate_identity().skip_norm_wip();
                        items.push(("resolved_impl_self", esc(&self.ty(self_ty))));
                        items.push((
                            "resolved_derived",
                            format!("{}", tcx.is_automatically_derived(imp)),
                        ));
                    }
                }
                Ok(None) => {
                    items.push(("resolved", "null".to_string()));
                }
                Err(_) => {
                    items.push(("resolved", "null".to_string()));
                }
            }
        }
        obj(items)
    }

    fn operand(&self, body: &Body<'tcx>, owner: LocalDefId, o: &Operand<'tcx>) -> String {
        match o {
            Operand::Copy(p) => obj(vec![("k", esc("copy")), ("place", self.place(body, owner, p))]),
            Operand::Move(p) => obj(vec![("k", esc("move")), ("place", self.place(body, owner, p))]),
            Operand::Constant(c) => obj(vec![("k", esc("const")), ("c", self.constant(owner, c))]),
            Operand::RuntimeChecks(rc) => {
                obj(vec![("k", esc("runtime_checks")), ("what", esc(&format!("{:?}", rc)))])
            }
        }
    }

    fn rvalue(&self, body: &Body<'tcx>, owner: LocalDefId, rv: &Rvalue<'tcx>) -> String {
        match rv {
            Rvalue::Use(o, _) => obj(vec![("k", esc("use")), ("op", self.operand(body, owner, o))]),
            Rvalue::Repeat(o, n) => obj(vec![
                ("k", esc("repeat")),
                ("op", self.operand(body, owner, o)),
                ("n", esc(&format!("{}", n))),
            ]),
            Rvalue::Ref(_, bk, p) => {
                let m = match bk {
                    BorrowKind::Shared => "shared",
                    BorrowKind::Fake(_) => "fake",
                    BorrowKind::Mut { .. } => "mut",
                };
                obj(vec![("k", esc("ref")), ("bk", esc(m)), ("place", self.place(body, owner, p))])
            }
            Rvalue::ThreadLocalRef(d) => {
                obj(vec![("k", esc("thread_local_ref")), ("def", esc(&self.path(*d)))])
            }
            Rvalue::RawPtr(k, p) => obj(vec![
                ("k", esc("rawptr")),
                ("kind", esc(&format!("{:?}", k))),
                ("place", self.place(body, owner, p)),
            ]),
            Rvalue::Cast(k, o, t) => obj(vec![
                ("k", esc("cast")),
                ("kind", esc(&format!("{:?}", k))),
                ("op", self.operand(body, owner, o)),
                ("ty", esc(&self.ty(*t))),
            ]),
            Rvalue::BinaryOp(op, ab) => obj(vec![
                ("k", esc("binop")),
                ("op", esc(&format!("{:?}", op))),
                ("a", self.operand(body, owner, &ab.0)),
                ("b", self.operand(body, owner, &ab.1)),
            ]),
            Rvalue::UnaryOp(op, o) => obj(vec![
                ("k", esc("unop")),
                ("op", esc(&format!("{:?}", op))),
                ("a", self.operand(body, owner, o)),
            ]),
            Rvalue::Discriminant(p) => {
                obj(vec![("k", esc("discriminant")), ("place", self.place(body, owner, p))])
            }
            Rvalue::Aggregate(kind, ops) => {
                let opsj: Vec<String> = ops.iter().map(|o| self.operand(body, owner, o)).collect();
                let mut items: Vec<(&str, String)> = vec![("k", esc("aggregate"))];
                match &**kind {
                    AggregateKind::Array(t) => {
                        items.push(("agg", esc("array")));
                        items.push(("elem_ty", esc(&self.ty(*t))));
                    }
                    AggregateKind::Tuple => items.push(("agg", esc("tuple"))),
                    AggregateKind::Adt(did, vidx, _args, _, active_field) => {
                        items.push(("agg", esc("adt")));
                        items.push(("adt", esc(&self.path(*did))));
                        let def = self.tcx.adt_def(*did);
                        let v = def.variant(*vidx);
                        items.push(("variant", format!("{}", vidx.as_usize())));
                        items.push(("variant_name", esc(&v.name.to_string())));
                        let fnames: Vec<String> =
                            v.fields.iter().map(|f| esc(&f.name.to_string())).collect();
                        items.push(("fields", arr(fnames)));
                        if let Some(af) = active_field {
                            items.push(("active_field", format!("{}", af.as_usize())));
                        }
                    }
                    AggregateKind::Closure(did, _) => {
                        items.push(("agg", esc("closure")));
                        items.push(("closure", esc(&self.path(*did))));
                        if let Some(l) = did.as_local() {
                            let caps: Vec<String> = self
                                .tcx
                                .closure_captures(l)
                                .iter()
                                .map(|c| esc(&c.to_string(self.tcx)))
                                .collect();
                            items.push(("captures", arr(caps)));
                        }
                    }
                    AggregateKind::Coroutine(did, _) | AggregateKind::CoroutineClosure(did, _) => {
                        items.push(("agg", esc("coroutine")));
                        items.push(("closure", esc(&self.path(*did))));
                    }
                    AggregateKind::RawPtr(..) => items.push(("agg", esc("rawptr"))),
                }
                items.push(("ops", arr(opsj)));
                obj(items)
            }
            Rvalue::CopyForDeref(p) => {
                obj(vec![("k", esc("copy_for_deref")), ("place", self.place(body, owner, p))])
            }
            Rvalue::WrapUnsafeBinder(o, _) => {
                obj(vec![("k", esc("wrap_binder")), ("op", self.operand(body, owner, o))])
            }
        }
    }

    fn body(&self, owner: LocalDefId, body: &Body<'tcx>) -> String {
        let tcx = self.tcx;
        // locals
        let mut locals: Vec<String> = Vec::new();
        for (l, decl) in body.local_decls.iter_enumerated() {
            let mut items = vec![
                ("i", format!("{}", l.as_usize())),
                ("ty", esc(&self.ty(decl.ty))),
                ("mut", format!("{}", decl.mutability.is_mut())),
            ];
            if let Some((_, p)) = self.adt_info(decl.ty.peel_refs()) {
                items.push(("adt", esc(&p)));
            }
            locals.push(obj(items));
        }
        // debug info
        let mut dbg: Vec<String> = Vec::new();
        for v in body.var_debug_info.iter() {
            let val = match &v.value {
                VarDebugInfoContents::Place(p) => self.place(body, owner, p),
                VarDebugInfoContents::Const(c) => obj(vec![("const", self.constant(owner, c))]),
            };
            dbg.push(obj(vec![
                ("name", esc(&v.name.to_string())),
                ("place", val),
                ("arg", opt(v.argument_index.map(|i| format!("{}", i)))),
            ]));
        }
        // blocks
        let mut blocks: Vec<String> = Vec::new();
        for (bb, data) in body.basic_blocks.iter_enumerated() {
            let mut stmts: Vec<String> = Vec::new();
            for st in data.statements.iter() {
                match &st.kind {
                    StatementKind::Assign(b) => {
                        let (lhs, rv) = &**b;
                        stmts.push(obj(vec![
                            ("k", esc("assign")),
                            ("lhs", self.place(body, owner, lhs)),
                            ("rv", self.rvalue(body, owner, rv)),
                            ("span", self.span(st.source_info.span)),
                        ]));
                    }
                    StatementKind::SetDiscriminant { place, variant_index } => {
                        stmts.push(obj(vec![
                            ("k", esc("set_discriminant")),
                            ("place", self.place(body, owner, place)),
                            ("variant", format!("{}", variant_index.as_usize())),
                            ("span", self.span(st.source_info.span)),
                        ]));
                    }
                    StatementKind::Intrinsic(i) => {
                        stmts.push(obj(vec![
                            ("k", esc("intrinsic")),
                            ("what", esc(&format!("{:?}", i))),
                        ]));
                    }
                    _ => {}
                }
            }
            let term = data.terminator();
            let tspan = self.span(term.source_info.span);
            let unwind_s = |u: &UnwindAction| -> String {
                match u {
                    UnwindAction::Continue => esc("continue"),
                    UnwindAction::Unreachable => esc("unreachable"),
                    UnwindAction::Terminate(_) => esc("terminate"),
                    UnwindAction::Cleanup(b) => format!("{}", b.as_usize()),
                }
            };
            let tj = match &term.kind {
                TerminatorKind::Goto { target } => {
                    obj(vec![("k", esc("goto")), ("target", format!("{}", target.as_usize()))])
                }
                TerminatorKind::SwitchInt { discr, targets } => {
                    let mut ts: Vec<String> = Vec::new();
                    for (v, t) in targets.iter() {
                        ts.push(format!("[{},{}]", v, t.as_usize()));
                    }
                    let dty = discr.ty(&body.local_decls, tcx);
                    obj(vec![
                        ("k", esc("switch")),
                        ("discr", self.operand(body, owner, discr)),
                        ("discr_ty", esc(&self.ty(dty))),
                        ("targets", arr(ts)),
                        ("otherwise", format!("{}", targets.otherwise().as_usize())),
                        ("span", tspan),
                    ])
                }
                TerminatorKind::UnwindResume => obj(vec![("k", esc("resume"))]),
                TerminatorKind::UnwindTerminate(_) => obj(vec![("k", esc("terminate"))]),
                TerminatorKind::Return => obj(vec![("k", esc("return")), ("span", tspan)]),
                TerminatorKind::Unreachable => obj(vec![("k", esc("unreachable")), ("span", tspan)]),
                TerminatorKind::Drop { place, target, unwind, .. } => obj(vec![
                    ("k", esc("drop")),
                    ("place", self.place(body, owner, place)),
                    ("target", format!("{}", target.as_usize())),
                    ("unwind", unwind_s(unwind)),
                ]),
                TerminatorKind::Call { func, args, destination, target, unwind, call_source, fn_span } => {
                    let argsj: Vec<String> =
                        args.iter().map(|a| self.operand(body, owner, &a.node)).collect();
                    obj(vec![
                        ("k", esc("call")),
                        ("func", self.operand(body, owner, func)),
                        ("args", arr(argsj)),
                        ("dest", self.place(body, owner, destination)),
                        ("target", opt(target.map(|t| format!("{}", t.as_usize())))),
                        ("unwind", unwind_s(unwind)),
                        ("source", esc(&format!("{:?}", call_source))),
                        ("span", tspan),
                        ("fn_span", self.span(*fn_span)),
                    ])
                }
                TerminatorKind::TailCall { func, args, .. } => {
                    let argsj: Vec<String> =
                        args.iter().map(|a| self.operand(body, owner, &a.node)).collect();
                    obj(vec![
                        ("k", esc("tailcall")),
                        ("func", self.operand(body, owner, func)),
                        ("args", arr(argsj)),
                        ("span", tspan),
                    ])
                }
                TerminatorKind::Assert { cond, expected, msg, target, unwind } => {
                    let (mk, mops): (&str, Vec<String>) = match &**msg {
                        AssertKind::BoundsCheck { len, index } => (
                            "bounds",
                            vec![self.operand(body, owner, len), self.operand(body, owner, index)],
                        ),
                        AssertKind::Overflow(op, a, b) => {
                            let _ = op;
                            ("overflow", vec![self.operand(body, owner, a), self.operand(body, owner, b)])
                        }
                        AssertKind::OverflowNeg(a) => ("overflow_neg", vec![self.operand(body, owner, a)]),
                        AssertKind::DivisionByZero(a) => ("div_zero", vec![self.operand(body, owner, a)]),
                        AssertKind::RemainderByZero(a) => ("rem_zero", vec![self.operand(body, owner, a)]),
                        AssertKind::MisalignedPointerDereference { .. } => ("misaligned", vec![]),
                        AssertKind::NullPointerDereference => ("null_deref", vec![]),
                        AssertKind::InvalidEnumConstruction(_) => ("invalid_enum", vec![]),
                        _ => ("other", vec![]),
                    };
                    let opname = match &**msg {
                        AssertKind::Overflow(op, _, _) => Some(format!("{:?}", op)),
                        _ => None,
                    };
                    obj(vec![
                        ("k", esc("assert")),
                        ("cond", self.operand(body, owner, cond)),
                        ("expected", format!("{}", expected)),
                        ("msg", esc(mk)),
                        ("binop", opt(opname.map(|s| esc(&s)))),
                        ("msg_ops", arr(mops)),
                        ("target", format!("{}", target.as_usize())),
                        ("unwind", unwind_s(unwind)),
                        ("span", tspan),
                    ])
                }
                TerminatorKind::FalseEdge { real_target, .. } => {
                    obj(vec![("k", esc("goto")), ("target", format!("{}", real_target.as_usize()))])
                }
                TerminatorKind::FalseUnwind { real_target, .. } => {
                    obj(vec![("k", esc("goto")), ("target", format!("{}", real_target.as_usize()))])
                }
                TerminatorKind::Yield { .. } => obj(vec![("k", esc("yield"))]),
                TerminatorKind::CoroutineDrop => obj(vec![("k", esc("coroutine_drop"))]),
                TerminatorKind::InlineAsm { .. } => obj(vec![("k", esc("inline_asm")), ("span", tspan)]),
            };
            blocks.push(obj(vec![
                ("i", format!("{}", bb.as_usize())),
                ("cleanup", format!("{}", data.is_cleanup)),
                ("stmts", arr(stmts)),
                ("term", tj),
            ]));
        }
        obj(vec![
            ("arg_count", format!("{}", body.arg_count)),
            ("locals", arr(locals)),
            ("debug", arr(dbg)),
            ("blocks", arr(blocks)),
        ])
    }

    fn function(&self, def: LocalDefId) -> Option<String> {
        let tcx = self.tcx;
        let did = def.to_def_id();
        let kind = tcx.def_kind(did);
        let has_mir = matches!(kind, DefKind::Fn | DefKind::AssocFn | DefKind::Closure);
        if !has_mir {
            return None;
        }
        if !tcx.is_mir_available(did) {
            return None;
        }
        let body = tcx.optimized_mir(did);
        let mut items: Vec<(&str, String)> = Vec::new();
        items.push(("path", esc(&self.path(did))));
        items.push(("kind", esc(&format!("{:?}", kind))));
        items.push(("span", self.span(tcx.def_span(did))));
        if matches!(kind, DefKind::Fn | DefKind::AssocFn) {
            items.push(("vis", esc(&format!("{:?}", tcx.visibility(did)))));
            let sig = tcx.fn_sig(did).instantiate_identity().skip_norm_wip().skip_binder();
            let ins: Vec<String> = sig.inputs().iter().map(|t| esc(&self.ty(*t))).collect();
            items.push(("inputs", arr(ins)));
            items.push(("output", esc(&self.ty(sig.output()))));
            if let Some(imp) = tcx.impl_of_assoc(did) {
                let self_ty = tcx.type_of(imp).instantiate_identity().skip_norm_wip();
                items.push(("impl_self", esc(&self.ty(self_ty))));
                items.push(("derived", format!("{}", tcx.is_automatically_derived(imp))));
                if let Some(tr) = tcx.impl_opt_trait_ref(imp) {
                    let tr = tr.instantiate_identity().skip_norm_wip();
                    items.push(("impl_trait", esc(&self.path(tr.def_id))));
                }
            }
        } else {
            // closure: parent fn and captured variables
            let parent = tcx.typeck_root_def_id(did);
            items.push(("closure_of", esc(&self.path(parent))));
            items.push(("parent", esc(&self.path(tcx.parent(did)))));
            let caps: Vec<String> = tcx
                .closure_captures(def)
                .iter()
                .map(|c| {
                    obj(vec![
                        ("name", esc(&c.to_string(tcx))),
                        ("by", esc(&format!("{:?}", c.info.capture_kind))),
                        ("mutable", format!("{}", c.mutability.is_mut())),
                        ("ty", esc(&self.ty(c.place.ty()))),
                    ])
                })
                .collect();
            items.push(("captures", arr(caps)));
        }
        items.push(("body", self.body(def, body)));
        // promoted constants
        let promoted = tcx.promoted_mir(did);
        let ps: Vec<String> = promoted.iter().map(|b| self.body(def, b)).collect();
        items.push(("promoted", arr(ps)));
        Some(obj(items))
    }

    fn adts(&self) -> String {
        let tcx = self.tcx;
        let mut out: Vec<String> = Vec::new();
        for id in tcx.hir_free_items() {
            let did = id.owner_id.to_def_id();
            let kind = tcx.def_kind(did);
            if !matches!(kind, DefKind::Struct | DefKind::Enum | DefKind::Union) {
                continue;
            }
            let def = tcx.adt_def(did);
            let mut vs: Vec<String> = Vec::new();
            for (vi, v) in def.variants().iter_enumerated() {
                let discr = if def.is_enum() {
                    format!("{}", def.discriminant_for_variant(tcx, vi).val)
                } else {
                    "0".to_string()
                };
                let fs: Vec<String> = v
                    .fields
                    .iter()
                    .map(|f| {
                        let fty = tcx.type_of(f.did).instantiate_identity().skip_norm_wip();
                        obj(vec![
                            ("name", esc(&f.name.to_string())),
                            ("ty", esc(&self.ty(fty))),
                            ("vis", esc(&format!("{:?}", f.vis))),
                        ])
                    })
                    .collect();
                vs.push(obj(vec![
                    ("name", esc(&v.name.to_string())),
                    ("index", format!("{}", vi.as_usize())),
                    ("discr", discr),
                    ("fields", arr(fs)),
                ]));
            }
            out.push(obj(vec![
                ("path", esc(&self.path(did))),
                ("kind", esc(&format!("{:?}", kind))),
                ("vis", esc(&format!("{:?}", tcx.visibility(did)))),
                ("span", self.span(tcx.def_span(did))),
                ("variants", arr(vs)),
            ]));
        }
        arr(out)
    }

    fn statics(&self) -> String {
        let tcx = self.tcx;
        let mut out: Vec<String> = Vec::new();
        for id in tcx.hir_crate_items(()).definitions() {
            let did = id.to_def_id();
            let kind = tcx.def_kind(did);
            if let DefKind::Static { .. } = kind {
                out.push(obj(vec![
                    ("path", esc(&self.path(did))),
                    ("kind", esc(&format!("{:?}", kind))),
                    ("thread_local", format!("{}", tcx.is_thread_local_static(did))),
                    ("span", self.span(tcx.def_span(did))),
                ]));
            }
        }
        arr(out)
    }
}

struct Dump {
    out: String,
    nonce: String,
    skip_prefixes: Vec<String>,
}

impl Callbacks for Dump {
    fn after_analysis<'tcx>(&mut self, _c: &Compiler, tcx: TyCtxt<'tcx>) -> Compilation {
        let cx = Ctx { tcx };
        let mut fns: Vec<String> = Vec::new();
        let mut skipped: usize = 0;
        let mut total: usize = 0;
        for def in tcx.hir_body_owners() {
            let p = cx.path(def.to_def_id());
            total += 1;
            if self.skip_prefixes.iter().any(|s| p.contains(s.as_str())) {
                skipped += 1;
                continue;
            }
            if let Some(j) = cx.function(def) {
                fns.push(j);
            }
        }
        let json = obj(vec![
            ("nonce", esc(&self.nonce)),
            ("crate", esc(&tcx.crate_name(rustc_span::def_id::LOCAL_CRATE).to_string())),
            ("rustc", esc(env!("CARGO_PKG_VERSION"))),
            ("body_owners_total", format!("{}", total)),
            ("body_owners_skipped", format!("{}", skipped)),
            ("adts", cx.adts()),
            ("statics", cx.statics()),
            ("fns", arr(fns)),
        ]);
        std::fs::write(&self.out, json).expect("mirfacts: cannot write output");
        Compilation::Continue
    }
}

struct Plain;
impl Callbacks for Plain {}

fn main() {
    let mut args: Vec<String> = std::env::args().collect();
    // RUSTC_WORKSPACE_WRAPPER passes the real rustc as argv[1]
    if args.len() > 1 && (args[1].ends_with("rustc") || args[1].contains("/rustc")) {
        args.remove(1);
    }
    let target = std::env::var("MIRFACTS_CRATE").unwrap_or_else(|_| "aidl_parser".to_string());
    let mut is_target = false;
    for w in args.windows(2) {
        if w[0] == "--crate-name" && w[1] == target {
            is_target = true;
        }
    }
    // never the build script / tests
    if args.iter().any(|a| a == "--test") {
        is_target = false;
    }
    let out = std::env::var("MIRFACTS_OUT").ok();
    if is_target && out.is_some() {
        let skip = std::env::var("MIRFACTS_SKIP").unwrap_or_default();
        let mut cb = Dump {
            out: out.unwrap(),
            nonce: std::env::var("MIRFACTS_NONCE").unwrap_or_default(),
            skip_prefixes: skip.split(',').filter(|s| !s.is_empty()).map(|s| s.to_string()).collect(),
        };
        rustc_driver::run_compiler(&args, &mut cb);
    } else {
        rustc_driver::run_compiler(&args, &mut Plain);
    }
}
