//! srcfacts - syntax facts that macro expansion erases.
//!
//! Usage: `srcfacts <src-dir> > srcfacts.json`
//!
//! Parses every `*.rs` file of `<src-dir>` (not recursive) with syn 2 and prints one JSON document
//! (see README.md for the schema).  Items under `#[cfg(test)]` are skipped entirely.

use std::{env, fs, path::Path, process};

use proc_macro2::{Delimiter, LineColumn, Spacing, TokenStream, TokenTree};
use quote::ToTokens;
use serde_json::{json, Value};
use syn::parse::Parser as _;
use syn::punctuated::Punctuated;
use syn::spanned::Spanned;
use syn::visit::{self, Visit};
use syn::{
    Attribute, Block, Expr, ExprClosure, ExprForLoop, ExprIf, ExprLit, ExprLoop, ExprMatch, ExprReturn,
    ExprUnsafe, ExprWhile, FieldValue, Fields, ImplItem, Item, Lit, Macro, Member, Meta, Pat, Signature, Stmt, Token, TraitItem, Type,
};

// ---------------------------------------------------------------------------------------------
// Token text: re-print a token stream using the *source adjacency* of the tokens.
//
// Two consecutive tokens are separated by exactly one space iff they were separated by any
// whitespace / comment / newline in the source, with these normalisations:
//   * never a space before `,` `;` `?`
//   * never a space after `(` `[` nor before `)` `]`
//   * never a space before a single `.` that follows an identifier, literal, closing delimiter
//     or `?` (method chains broken over several lines are joined: `a.b().c()`)
// Comments are not tokens, so they vanish.  String literals are printed as written.
// ---------------------------------------------------------------------------------------------

#[derive(Clone, Copy, PartialEq)]
enum Kind {
    Open(char),
    Close(char),
    Comma,
    Semi,
    Question,
    DotAlone,
    Word,
    Punct,
}

struct Printer {
    out: String,
    prev: Option<(Kind, LineColumn)>,
}

impl Printer {
    fn push(&mut self, text: &str, kind: Kind, start: LineColumn, end: LineColumn) {
        if let Some((pk, pend)) = self.prev {
            let adjacent = pend == start;
            let space = match (pk, kind) {
                (_, Kind::Comma | Kind::Semi | Kind::Question) => false,
                (Kind::Open('(' | '['), _) => false,
                (_, Kind::Close(')' | ']')) => false,
                (Kind::Word | Kind::Close(_) | Kind::Question, Kind::DotAlone) => false,
                _ => !adjacent,
            };
            if space {
                self.out.push(' ');
            }
        }
        self.out.push_str(text);
        self.prev = Some((kind, end));
    }

    fn walk(&mut self, ts: TokenStream) {
        for tt in ts {
            match tt {
                TokenTree::Group(g) => {
                    let (o, c) = match g.delimiter() {
                        Delimiter::Parenthesis => ('(', ')'),
                        Delimiter::Bracket => ('[', ']'),
                        Delimiter::Brace => ('{', '}'),
                        Delimiter::None => {
                            self.walk(g.stream());
                            continue;
                        }
                    };
                    let so = g.span_open();
                    let sc = g.span_close();
                    self.push(&o.to_string(), Kind::Open(o), so.start(), so.end());
                    self.walk(g.stream());
                    self.push(&c.to_string(), Kind::Close(c), sc.start(), sc.end());
                }
                TokenTree::Ident(i) => {
                    let s = i.span();
                    self.push(&i.to_string(), Kind::Word, s.start(), s.end());
                }
                TokenTree::Literal(l) => {
                    let s = l.span();
                    self.push(&l.to_string(), Kind::Word, s.start(), s.end());
                }
                TokenTree::Punct(p) => {
                    let s = p.span();
                    let kind = match (p.as_char(), p.spacing()) {
                        (',', _) => Kind::Comma,
                        (';', _) => Kind::Semi,
                        ('?', _) => Kind::Question,
                        ('.', Spacing::Alone) => {
                            // second/third dot of `..` / `...` is not a "single dot"
                            if matches!(self.prev, Some((Kind::Punct, e)) if e == s.start() && self.out.ends_with('.'))
                            {
                                Kind::Punct
                            } else {
                                Kind::DotAlone
                            }
                        }
                        _ => Kind::Punct,
                    };
                    self.push(&p.as_char().to_string(), kind, s.start(), s.end());
                }
            }
        }
    }
}

fn text_ts(ts: TokenStream) -> String {
    let mut p = Printer {
        out: String::new(),
        prev: None,
    };
    p.walk(ts);
    p.out
}

fn text<T: ToTokens>(t: &T) -> String {
    text_ts(t.to_token_stream())
}

// ---------------------------------------------------------------------------------------------
// Attributes
// ---------------------------------------------------------------------------------------------

/// Split a token stream on its top-level commas (empty trailing piece dropped).
fn split_commas(ts: TokenStream) -> Vec<TokenStream> {
    let mut out = Vec::new();
    let mut cur = TokenStream::new();
    for tt in ts {
        match &tt {
            TokenTree::Punct(p) if p.as_char() == ',' => {
                out.push(std::mem::take(&mut cur));
            }
            _ => cur.extend(std::iter::once(tt)),
        }
    }
    if !cur.is_empty() {
        out.push(cur);
    }
    out
}

/// One element of a meta list: `key`, `key = value`, `key(...)`.
fn meta_item_json(piece: TokenStream) -> Value {
    let toks: Vec<TokenTree> = piece.clone().into_iter().collect();
    // key = longest prefix made of identifiers and `:`
    let mut n = 0;
    while n < toks.len() {
        match &toks[n] {
            TokenTree::Ident(_) => n += 1,
            TokenTree::Punct(p) if p.as_char() == ':' => n += 1,
            _ => break,
        }
    }
    if n == 0 {
        return json!({"key": text_ts(piece), "value": null, "kind": "other"});
    }
    let key = text_ts(toks[..n].iter().cloned().collect());
    let rest = &toks[n..];
    match rest.first() {
        None => json!({"key": key, "value": null, "kind": "flag"}),
        Some(TokenTree::Punct(p)) if p.as_char() == '=' => {
            let vts: TokenStream = rest[1..].iter().cloned().collect();
            let value = match syn::parse2::<Lit>(vts.clone()) {
                Ok(Lit::Str(s)) => s.value(),
                _ => text_ts(vts),
            };
            json!({"key": key, "value": value, "kind": "eq"})
        }
        Some(TokenTree::Group(g)) if rest.len() == 1 && g.delimiter() == Delimiter::Parenthesis => {
            json!({"key": key, "value": text_ts(g.stream()), "kind": "list"})
        }
        _ => json!({"key": text_ts(piece), "value": null, "kind": "other"}),
    }
}

fn attr_json(a: &Attribute) -> Value {
    let path = text(a.path());
    let line = a.pound_token.span.start().line;
    match &a.meta {
        Meta::Path(_) => json!({"path": path, "tokens": "", "items": [], "line": line}),
        Meta::List(l) => {
            let items: Vec<Value> = split_commas(l.tokens.clone())
                .into_iter()
                .map(meta_item_json)
                .collect();
            json!({"path": path, "tokens": text_ts(l.tokens.clone()), "items": items, "line": line})
        }
        Meta::NameValue(nv) => {
            json!({"path": path, "tokens": format!("= {}", text(&nv.value)), "items": [], "line": line})
        }
    }
}

/// Non-derive, non-doc attributes.
fn attrs_json(attrs: &[Attribute]) -> Vec<Value> {
    attrs
        .iter()
        .filter(|a| !a.path().is_ident("derive") && !a.path().is_ident("doc"))
        .map(attr_json)
        .collect()
}

fn derives(attrs: &[Attribute]) -> Vec<String> {
    let mut out = Vec::new();
    for a in attrs.iter().filter(|a| a.path().is_ident("derive")) {
        if let Ok(paths) = a.parse_args_with(Punctuated::<syn::Path, Token![,]>::parse_terminated) {
            out.extend(paths.iter().map(|p| text(p)));
        }
    }
    out
}

fn cfg_requires_test(m: &Meta) -> bool {
    match m {
        Meta::Path(p) => p.is_ident("test"),
        Meta::List(l) if l.path.is_ident("all") => l
            .parse_args_with(Punctuated::<Meta, Token![,]>::parse_terminated)
            .map(|ms| ms.iter().any(cfg_requires_test))
            .unwrap_or(false),
        _ => false,
    }
}

/// `#[cfg(test)]` or `#[cfg(all(test, ...))]`.
fn is_cfg_test(attrs: &[Attribute]) -> bool {
    attrs.iter().any(|a| {
        a.path().is_ident("cfg") && a.parse_args::<Meta>().map(|m| cfg_requires_test(&m)).unwrap_or(false)
    })
}

fn item_attrs(i: &Item) -> &[Attribute] {
    match i {
        Item::Const(x) => &x.attrs,
        Item::Enum(x) => &x.attrs,
        Item::ExternCrate(x) => &x.attrs,
        Item::Fn(x) => &x.attrs,
        Item::ForeignMod(x) => &x.attrs,
        Item::Impl(x) => &x.attrs,
        Item::Macro(x) => &x.attrs,
        Item::Mod(x) => &x.attrs,
        Item::Static(x) => &x.attrs,
        Item::Struct(x) => &x.attrs,
        Item::Trait(x) => &x.attrs,
        Item::TraitAlias(x) => &x.attrs,
        Item::Type(x) => &x.attrs,
        Item::Union(x) => &x.attrs,
        Item::Use(x) => &x.attrs,
        _ => &[],
    }
}

fn item_kind_name(i: &Item) -> (&'static str, String) {
    match i {
        Item::Const(x) => ("const", x.ident.to_string()),
        Item::Enum(x) => ("enum", x.ident.to_string()),
        Item::ExternCrate(x) => ("extern crate", x.ident.to_string()),
        Item::Fn(x) => ("fn", x.sig.ident.to_string()),
        Item::ForeignMod(_) => ("extern block", String::new()),
        Item::Impl(x) => ("impl", text(&*x.self_ty)),
        Item::Macro(x) => (
            "macro",
            x.ident.as_ref().map(|i| i.to_string()).unwrap_or_else(|| text(&x.mac.path)),
        ),
        Item::Mod(x) => ("mod", x.ident.to_string()),
        Item::Static(x) => ("static", x.ident.to_string()),
        Item::Struct(x) => ("struct", x.ident.to_string()),
        Item::Trait(x) => ("trait", x.ident.to_string()),
        Item::TraitAlias(x) => ("trait alias", x.ident.to_string()),
        Item::Type(x) => ("type", x.ident.to_string()),
        Item::Union(x) => ("union", x.ident.to_string()),
        Item::Use(_) => ("use", String::new()),
        _ => ("other", String::new()),
    }
}

// ---------------------------------------------------------------------------------------------
// Format templates
// ---------------------------------------------------------------------------------------------

/// Index of the format-string argument for format-like macros.
fn template_index(name: &str) -> Option<usize> {
    match name {
        "format" | "format_args" | "print" | "println" | "eprint" | "eprintln" | "panic"
        | "unreachable" | "todo" | "unimplemented" | "anyhow" | "bail" | "info" | "warn"
        | "error" | "debug" | "trace" => Some(0),
        "write" | "writeln" | "assert" | "debug_assert" | "ensure" => Some(1),
        "assert_eq" | "assert_ne" | "debug_assert_eq" | "debug_assert_ne" => Some(2),
        _ => None,
    }
}

fn is_ident_str(s: &str) -> bool {
    let mut cs = s.chars();
    match cs.next() {
        Some(c) if c == '_' || c.is_alphabetic() => cs.all(|c| c == '_' || c.is_alphanumeric()),
        _ => false,
    }
}

/// Returns (number of placeholders, names used inline in order of first appearance).
fn parse_template(t: &str) -> (usize, Vec<String>) {
    let cs: Vec<char> = t.chars().collect();
    let n = cs.len();
    let mut i = 0;
    let mut count = 0;
    let mut names: Vec<String> = Vec::new();
    let add = |s: String, names: &mut Vec<String>| {
        if !names.contains(&s) {
            names.push(s);
        }
    };
    while i < n {
        match cs[i] {
            '{' => {
                if i + 1 < n && cs[i + 1] == '{' {
                    i += 2;
                    continue;
                }
                let Some(off) = cs[i + 1..].iter().position(|&c| c == '}') else {
                    break;
                };
                let inner: String = cs[i + 1..i + 1 + off].iter().collect();
                count += 1;
                let (arg, spec) = match inner.find(':') {
                    Some(p) => (&inner[..p], &inner[p + 1..]),
                    None => (&inner[..], ""),
                };
                let arg = arg.trim();
                if is_ident_str(arg) {
                    add(arg.to_string(), &mut names);
                }
                // `{:width$}` / `{:.prec$}` named parameters
                let sc: Vec<char> = spec.chars().collect();
                for (k, &c) in sc.iter().enumerate() {
                    if c == '$' {
                        let mut b = k;
                        while b > 0 && (sc[b - 1] == '_' || sc[b - 1].is_alphanumeric()) {
                            b -= 1;
                        }
                        let w: String = sc[b..k].iter().collect();
                        if is_ident_str(&w) {
                            add(w, &mut names);
                        }
                    }
                }
                i += off + 2;
            }
            '}' => {
                i += if i + 1 < n && cs[i + 1] == '}' { 2 } else { 1 };
            }
            _ => i += 1,
        }
    }
    (count, names)
}

// ---------------------------------------------------------------------------------------------
// Collector
// ---------------------------------------------------------------------------------------------

enum Arg {
    Expr(Expr),
    Pat(Pat, Option<Expr>),
    Raw(TokenStream),
}

impl Arg {
    fn text(&self) -> String {
        match self {
            Arg::Expr(e) => text(e),
            Arg::Pat(p, None) => text(p),
            Arg::Pat(p, Some(g)) => format!("{} if {}", text(p), text(g)),
            Arg::Raw(t) => text_ts(t.clone()),
        }
    }
}

/// `matches!`-style body: `expr, pat [if guard] [,]`.
fn parse_expr_pat(input: syn::parse::ParseStream) -> syn::Result<Vec<Arg>> {
    let e: Expr = input.parse()?;
    input.parse::<Token![,]>()?;
    let p = Pat::parse_multi_with_leading_vert(input)?;
    let g = if input.peek(Token![if]) {
        input.parse::<Token![if]>()?;
        Some(input.parse::<Expr>()?)
    } else {
        None
    };
    if input.peek(Token![,]) {
        input.parse::<Token![,]>()?;
    }
    if !input.is_empty() {
        return Err(input.error("trailing tokens"));
    }
    Ok(vec![Arg::Expr(e), Arg::Pat(p, g)])
}

fn parse_macro_args(mac: &Macro, name: &str) -> (Vec<Arg>, &'static str) {
    if matches!(name, "matches" | "assert_matches" | "debug_assert_matches") {
        if let Ok(v) = parse_expr_pat.parse2(mac.tokens.clone()) {
            return (v, "expr_pat");
        }
    }
    if let Ok(p) = Punctuated::<Expr, Token![,]>::parse_terminated.parse2(mac.tokens.clone()) {
        return (p.into_iter().map(Arg::Expr).collect(), "exprs");
    }
    let v = split_commas(mac.tokens.clone())
        .into_iter()
        .map(|ts| match syn::parse2::<Expr>(ts.clone()) {
            Ok(e) => Arg::Expr(e),
            Err(_) => Arg::Raw(ts),
        })
        .collect();
    (v, "raw")
}

struct FnFrame {
    path: String,
    macros: Vec<Value>,
    arms: Vec<String>,
    closure_depth: u32,
    ctx: Vec<Option<String>>,
}

#[derive(Default)]
struct Collector {
    file: String,
    /// module segments, impl self types / trait names, enclosing fn names
    scope: Vec<String>,
    frames: Vec<FnFrame>,

    types: Vec<Value>,
    impls: Vec<Value>,
    fns: Vec<Value>,
    statics: Vec<Value>,
    unsafe_blocks: Vec<Value>,
    item_macros: Vec<Value>,
    skipped: Vec<Value>,
}

fn join_path(scope: &[String], name: &str) -> String {
    let mut v: Vec<&str> = scope.iter().map(|s| s.as_str()).filter(|s| !s.is_empty()).collect();
    if !name.is_empty() {
        v.push(name);
    }
    v.join("::")
}

/// `Symbol<'a>` -> `Symbol`; `&Foo` etc. -> full text.
fn type_short_name(t: &Type) -> String {
    match t {
        Type::Path(p) if p.qself.is_none() => p
            .path
            .segments
            .last()
            .map(|s| s.ident.to_string())
            .unwrap_or_else(|| text(t)),
        Type::Paren(p) => type_short_name(&p.elem),
        Type::Group(g) => type_short_name(&g.elem),
        _ => text(t),
    }
}

fn pat_name(p: &Pat) -> String {
    match p {
        Pat::Ident(i) => i.ident.to_string(),
        Pat::Type(t) => pat_name(&t.pat),
        _ => text(p),
    }
}

impl Collector {
    fn push_ctx(&mut self, c: Option<String>) {
        if let Some(f) = self.frames.last_mut() {
            f.ctx.push(c);
        }
    }
    fn pop_ctx(&mut self) {
        if let Some(f) = self.frames.last_mut() {
            f.ctx.pop();
        }
    }

    fn skip(&mut self, kind: &str, name: String, line: usize) {
        self.skipped.push(json!({
            "file": self.file, "line": line, "kind": kind, "name": name,
            "scope": join_path(&self.scope, ""),
        }));
    }

    fn fields_json(&self, fields: &Fields) -> Vec<Value> {
        fields
            .iter()
            .map(|f| {
                let line = match &f.ident {
                    Some(i) => i.span().start().line,
                    None => f.ty.span().start().line,
                };
                json!({
                    "name": f.ident.as_ref().map(|i| i.to_string()),
                    "ty": text(&f.ty),
                    "line": line,
                    "vis": text(&f.vis),
                    "attrs": attrs_json(&f.attrs),
                })
            })
            .collect()
    }

    fn add_static(&mut self, kind: &str, name: String, line: usize, ty: Option<String>) {
        let in_fn = self.frames.last().map(|f| f.path.clone());
        self.statics.push(json!({
            "file": self.file, "line": line, "kind": kind, "name": name, "ty": ty,
            "path": join_path(&self.scope, &name), "fn": in_fn,
        }));
    }

    /// `thread_local! { static X: T = ..; }` / `lazy_static! { static ref X: T = ..; }`
    fn check_static_macro(&mut self, mac: &Macro, name: &str) {
        let kind = match name {
            "thread_local" => "thread_local",
            "lazy_static" => "lazy_static",
            _ => return,
        };
        let toks: Vec<TokenTree> = mac.tokens.clone().into_iter().collect();
        let mut i = 0;
        while i < toks.len() {
            if let TokenTree::Ident(id) = &toks[i] {
                if id == "static" {
                    let line = id.span().start().line;
                    let mut j = i + 1;
                    while let Some(TokenTree::Ident(x)) = toks.get(j) {
                        if x == "ref" || x == "mut" {
                            j += 1;
                        } else {
                            self.add_static(kind, x.to_string(), line, None);
                            break;
                        }
                    }
                    i = j;
                }
            }
            i += 1;
        }
    }

    fn handle_fn(
        &mut self,
        sig: &Signature,
        block: &Block,
        self_ty: Option<&str>,
        trait_: Option<(&str, &str)>,
    ) {
        let nested_in = self.frames.last().map(|f| f.path.clone());
        let name = sig.ident.to_string();
        let path = join_path(&self.scope, &name);
        self.scope.push(name.clone());
        self.frames.push(FnFrame {
            path: path.clone(),
            macros: Vec::new(),
            arms: Vec::new(),
            closure_depth: 0,
            ctx: vec![Some("tail".to_string())],
        });
        self.visit_block(block);
        let mut frame = self.frames.pop().unwrap();
        self.scope.pop();
        frame.macros.sort_by_key(|m| (m["line"].as_u64(), m["col"].as_u64()));
        let self_kind = sig.receiver().map(|r| text(r));
        self.fns.push(json!({
            "file": self.file,
            "line": sig.fn_token.span.start().line,
            "end_line": block.brace_token.span.close().end().line,
            "path": path,
            "name": name,
            "self_ty": self_ty,
            "trait": trait_.map(|t| t.0),
            "trait_name": trait_.map(|t| t.1),
            "nested_in": nested_in,
            "self_kind": self_kind,
            "macros": frame.macros,
        }));
    }

    fn record_macro(&mut self, mac: &Macro, defines: Option<String>) {
        let name = mac
            .path
            .segments
            .last()
            .map(|s| s.ident.to_string())
            .unwrap_or_default();
        let start = mac.path.span().start();
        self.check_static_macro(mac, &name);

        if self.frames.is_empty() {
            self.item_macros.push(json!({
                "file": self.file, "line": start.line, "col": start.column + 1,
                "name": name, "path": text(&mac.path), "defines": defines,
                "scope": join_path(&self.scope, ""),
                "tokens": text_ts(mac.tokens.clone()),
            }));
            if defines.is_none() {
                let (args, _) = parse_macro_args(mac, &name);
                self.visit_args(&args);
            }
            return;
        }

        if let Some(d) = defines {
            // `macro_rules! d { ... }` inside a fn body: the body is not expression syntax
            let v = self.macro_json(&name, mac, start, None, Vec::new(), vec![d], None, Vec::new(), "macro_rules");
            self.frames.last_mut().unwrap().macros.push(v);
            return;
        }

        let (args, parse_kind) = parse_macro_args(mac, &name);
        let mut template: Option<String> = None;
        let mut split = 0;
        if let Some(idx) = template_index(&name) {
            if let Some(Arg::Expr(Expr::Lit(ExprLit { lit: Lit::Str(s), .. }))) = args.get(idx) {
                template = Some(s.value());
                split = idx;
            }
        }
        let (pre, rest): (Vec<String>, Vec<String>) = match template {
            Some(_) => (
                args[..split].iter().map(Arg::text).collect(),
                args[split + 1..].iter().map(Arg::text).collect(),
            ),
            None => (Vec::new(), args.iter().map(Arg::text).collect()),
        };
        let (placeholders, captures) = match &template {
            Some(t) => {
                let (n, names) = parse_template(t);
                // names given explicitly (`name = expr`) are not implicit captures
                let explicit: Vec<String> = args
                    .iter()
                    .filter_map(|a| match a {
                        Arg::Expr(Expr::Assign(a)) => match &*a.left {
                            Expr::Path(p) => p.path.get_ident().map(|i| i.to_string()),
                            _ => None,
                        },
                        _ => None,
                    })
                    .collect();
                (Some(n), names.into_iter().filter(|n| !explicit.contains(n)).collect())
            }
            None => (None, Vec::new()),
        };
        let v = self.macro_json(&name, mac, start, template, pre, rest, placeholders, captures, parse_kind);
        self.frames.last_mut().unwrap().macros.push(v);
        self.visit_args(&args);
    }

    #[allow(clippy::too_many_arguments)]
    fn macro_json(
        &self,
        name: &str,
        mac: &Macro,
        start: LineColumn,
        template: Option<String>,
        pre_args: Vec<String>,
        args: Vec<String>,
        placeholders: Option<usize>,
        captures: Vec<String>,
        parse_kind: &str,
    ) -> Value {
        let f = self.frames.last().unwrap();
        let ctx = f.ctx.last().cloned().flatten();
        json!({
            "name": name,
            "path": text(&mac.path),
            "line": start.line,
            "col": start.column + 1,
            "template": template,
            "pre_args": pre_args,
            "args": args,
            "args_parse": parse_kind,
            "implicit_captures": captures,
            "placeholders": placeholders,
            "arm": f.arms.last(),
            "arm_path": f.arms,
            "in_closure": f.closure_depth > 0,
            "stmt_context": ctx,
        })
    }

    fn visit_args(&mut self, args: &[Arg]) {
        for a in args {
            match a {
                Arg::Expr(e) => self.visit_expr(e),
                Arg::Pat(_, Some(g)) => self.visit_expr(g),
                _ => {}
            }
        }
    }
}

impl<'ast> Visit<'ast> for Collector {
    fn visit_item(&mut self, item: &'ast Item) {
        if is_cfg_test(item_attrs(item)) {
            let (kind, name) = item_kind_name(item);
            self.skip(kind, name, item.span().start().line);
            return;
        }
        match item {
            Item::Mod(m) => {
                if let Some((_, items)) = &m.content {
                    self.scope.push(m.ident.to_string());
                    for i in items {
                        self.visit_item(i);
                    }
                    self.scope.pop();
                }
            }
            Item::Struct(s) => {
                let v = json!({
                    "file": self.file,
                    "line": s.struct_token.span.start().line,
                    "name": s.ident.to_string(),
                    "path": join_path(&self.scope, &s.ident.to_string()),
                    "kind": "struct",
                    "vis": text(&s.vis),
                    "derives": derives(&s.attrs),
                    "attrs": attrs_json(&s.attrs),
                    "generics": text(&s.generics),
                    "fields": self.fields_json(&s.fields),
                });
                self.types.push(v);
            }
            Item::Enum(e) => {
                let variants: Vec<Value> = e
                    .variants
                    .iter()
                    .map(|v| {
                        json!({
                            "name": v.ident.to_string(),
                            "line": v.ident.span().start().line,
                            "attrs": attrs_json(&v.attrs),
                            "fields": self.fields_json(&v.fields),
                            "discriminant": v.discriminant.as_ref().map(|(_, d)| text(d)),
                        })
                    })
                    .collect();
                let v = json!({
                    "file": self.file,
                    "line": e.enum_token.span.start().line,
                    "name": e.ident.to_string(),
                    "path": join_path(&self.scope, &e.ident.to_string()),
                    "kind": "enum",
                    "vis": text(&e.vis),
                    "derives": derives(&e.attrs),
                    "attrs": attrs_json(&e.attrs),
                    "generics": text(&e.generics),
                    "variants": variants,
                });
                self.types.push(v);
            }
            Item::Impl(im) => {
                let self_ty = type_short_name(&im.self_ty);
                let trait_full = im.trait_.as_ref().map(|(bang, p, _)| {
                    format!("{}{}", if bang.is_some() { "!" } else { "" }, text(p))
                });
                let trait_name = im
                    .trait_
                    .as_ref()
                    .and_then(|(_, p, _)| p.segments.last().map(|s| s.ident.to_string()));
                let mut fn_names = Vec::new();
                self.scope.push(self_ty.clone());
                for it in &im.items {
                    let (attrs, kind, name): (&[Attribute], &str, String) = match it {
                        ImplItem::Fn(f) => (&f.attrs, "fn", f.sig.ident.to_string()),
                        ImplItem::Const(c) => (&c.attrs, "const", c.ident.to_string()),
                        ImplItem::Type(t) => (&t.attrs, "type", t.ident.to_string()),
                        ImplItem::Macro(m) => (&m.attrs, "macro", text(&m.mac.path)),
                        _ => (&[], "other", String::new()),
                    };
                    if is_cfg_test(attrs) {
                        self.skip(kind, name, it.span().start().line);
                        continue;
                    }
                    match it {
                        ImplItem::Fn(f) => {
                            fn_names.push(name);
                            let tr = match (&trait_full, &trait_name) {
                                (Some(a), Some(b)) => Some((a.as_str(), b.as_str())),
                                _ => None,
                            };
                            self.handle_fn(&f.sig, &f.block, Some(&self_ty), tr);
                        }
                        ImplItem::Const(c) => {
                            self.add_static("const", name, c.const_token.span.start().line, Some(text(&c.ty)));
                            self.visit_expr(&c.expr);
                        }
                        ImplItem::Macro(m) => self.record_macro(&m.mac, None),
                        _ => {}
                    }
                }
                self.scope.pop();
                let v = json!({
                    "file": self.file,
                    "line": im.impl_token.span.start().line,
                    "self_ty": self_ty,
                    "self_ty_full": text(&*im.self_ty),
                    "trait": trait_full,
                    "trait_name": trait_name,
                    "generics": text(&im.generics),
                    "unsafe": im.unsafety.is_some(),
                    "scope": join_path(&self.scope, ""),
                    "fns": fn_names,
                });
                self.impls.push(v);
            }
            Item::Trait(t) => {
                // default method bodies of a trait declaration
                let tname = t.ident.to_string();
                self.scope.push(tname.clone());
                for it in &t.items {
                    match it {
                        TraitItem::Fn(f) => {
                            if is_cfg_test(&f.attrs) {
                                self.skip("fn", f.sig.ident.to_string(), it.span().start().line);
                            } else if let Some(b) = &f.default {
                                self.handle_fn(&f.sig, b, Some(&tname), None);
                            }
                        }
                        TraitItem::Const(c) => {
                            if let Some((_, e)) = &c.default {
                                self.add_static(
                                    "const",
                                    c.ident.to_string(),
                                    c.const_token.span.start().line,
                                    Some(text(&c.ty)),
                                );
                                self.visit_expr(e);
                            }
                        }
                        TraitItem::Macro(m) => self.record_macro(&m.mac, None),
                        _ => {}
                    }
                }
                self.scope.pop();
            }
            Item::Fn(f) => self.handle_fn(&f.sig, &f.block, None, None),
            Item::Static(s) => {
                let kind = match s.mutability {
                    syn::StaticMutability::Mut(_) => "static mut",
                    _ => "static",
                };
                self.add_static(kind, s.ident.to_string(), s.static_token.span.start().line, Some(text(&*s.ty)));
                self.visit_expr(&s.expr);
            }
            Item::Const(c) => {
                self.add_static("const", c.ident.to_string(), c.const_token.span.start().line, Some(text(&*c.ty)));
                self.visit_expr(&c.expr);
            }
            Item::Macro(m) => {
                self.record_macro(&m.mac, m.ident.as_ref().map(|i| i.to_string()));
            }
            _ => {}
        }
    }

    fn visit_block(&mut self, b: &'ast Block) {
        let n = b.stmts.len();
        for (i, s) in b.stmts.iter().enumerate() {
            let last = i + 1 == n;
            match s {
                Stmt::Local(l) => {
                    if let Some(init) = &l.init {
                        self.push_ctx(Some(format!("let {}", pat_name(&l.pat))));
                        self.visit_expr(&init.expr);
                        self.pop_ctx();
                        if let Some((_, div)) = &init.diverge {
                            self.push_ctx(None);
                            self.visit_expr(div);
                            self.pop_ctx();
                        }
                    }
                }
                Stmt::Item(it) => {
                    self.push_ctx(None);
                    self.visit_item(it);
                    self.pop_ctx();
                }
                Stmt::Expr(e, semi) => {
                    if last && semi.is_none() {
                        self.visit_expr(e); // tail expression: inherits the context of the block
                    } else {
                        self.push_ctx(None);
                        self.visit_expr(e);
                        self.pop_ctx();
                    }
                }
                Stmt::Macro(m) => {
                    if last && m.semi_token.is_none() {
                        self.visit_macro(&m.mac);
                    } else {
                        self.push_ctx(None);
                        self.visit_macro(&m.mac);
                        self.pop_ctx();
                    }
                }
            }
        }
    }

    // Conditions, scrutinees, guards, loop headers and loop bodies are not values that flow to the
    // enclosing `let` / field / `return` / tail: their context is reset to null.
    fn visit_expr_if(&mut self, e: &'ast ExprIf) {
        self.push_ctx(None);
        self.visit_expr(&e.cond);
        self.pop_ctx();
        self.visit_block(&e.then_branch);
        if let Some((_, els)) = &e.else_branch {
            self.visit_expr(els);
        }
    }

    fn visit_expr_while(&mut self, e: &'ast ExprWhile) {
        self.push_ctx(None);
        visit::visit_expr_while(self, e);
        self.pop_ctx();
    }

    fn visit_expr_for_loop(&mut self, e: &'ast ExprForLoop) {
        self.push_ctx(None);
        visit::visit_expr_for_loop(self, e);
        self.pop_ctx();
    }

    fn visit_expr_loop(&mut self, e: &'ast ExprLoop) {
        self.push_ctx(None);
        visit::visit_expr_loop(self, e);
        self.pop_ctx();
    }

    fn visit_expr_match(&mut self, m: &'ast ExprMatch) {
        self.push_ctx(None);
        self.visit_expr(&m.expr);
        self.pop_ctx();
        for arm in &m.arms {
            let mut t = text(&arm.pat);
            if let Some((_, g)) = &arm.guard {
                t.push_str(" if ");
                t.push_str(&text(&**g));
            }
            if let Some(f) = self.frames.last_mut() {
                f.arms.push(t);
            }
            if let Some((_, g)) = &arm.guard {
                self.push_ctx(None);
                self.visit_expr(g);
                self.pop_ctx();
            }
            self.visit_expr(&arm.body);
            if let Some(f) = self.frames.last_mut() {
                f.arms.pop();
            }
        }
    }

    fn visit_expr_closure(&mut self, c: &'ast ExprClosure) {
        if let Some(f) = self.frames.last_mut() {
            f.closure_depth += 1;
        }
        visit::visit_expr_closure(self, c);
        if let Some(f) = self.frames.last_mut() {
            f.closure_depth -= 1;
        }
    }

    fn visit_expr_return(&mut self, r: &'ast ExprReturn) {
        self.push_ctx(Some("return".to_string()));
        visit::visit_expr_return(self, r);
        self.pop_ctx();
    }

    fn visit_field_value(&mut self, fv: &'ast FieldValue) {
        let name = match &fv.member {
            Member::Named(i) => i.to_string(),
            Member::Unnamed(i) => i.index.to_string(),
        };
        self.push_ctx(Some(format!("field {name}")));
        visit::visit_field_value(self, fv);
        self.pop_ctx();
    }

    fn visit_expr_unsafe(&mut self, u: &'ast ExprUnsafe) {
        let path = self.frames.last().map(|f| f.path.clone());
        self.unsafe_blocks.push(json!({
            "file": self.file,
            "line": u.unsafe_token.span.start().line,
            "fn": path,
        }));
        visit::visit_expr_unsafe(self, u);
    }

    fn visit_macro(&mut self, mac: &'ast Macro) {
        self.record_macro(mac, None);
    }
}

// ---------------------------------------------------------------------------------------------

fn sort_by_pos(v: &mut [Value]) {
    v.sort_by(|a, b| {
        let ka = (a["file"].as_str().unwrap_or(""), a["line"].as_u64().unwrap_or(0), a["col"].as_u64().unwrap_or(0));
        let kb = (b["file"].as_str().unwrap_or(""), b["line"].as_u64().unwrap_or(0), b["col"].as_u64().unwrap_or(0));
        ka.cmp(&kb)
    });
}

fn main() {
    let args: Vec<String> = env::args().skip(1).collect();
    if args.len() != 1 || args[0] == "-h" || args[0] == "--help" {
        eprintln!("usage: srcfacts <src-dir> > srcfacts.json");
        process::exit(2);
    }
    let dir = Path::new(&args[0]);
    let mut files: Vec<String> = match fs::read_dir(dir) {
        Ok(rd) => rd
            .filter_map(|e| e.ok())
            .filter(|e| e.path().is_file())
            .filter_map(|e| e.file_name().into_string().ok())
            .filter(|n| n.ends_with(".rs"))
            .collect(),
        Err(e) => {
            eprintln!("srcfacts: cannot read directory {}: {e}", dir.display());
            process::exit(2);
        }
    };
    files.sort();

    let mut c = Collector::default();
    for name in &files {
        let p = dir.join(name);
        let src = match fs::read_to_string(&p) {
            Ok(s) => s,
            Err(e) => {
                eprintln!("srcfacts: cannot read {}: {e}", p.display());
                process::exit(1);
            }
        };
        let ast = match syn::parse_file(&src) {
            Ok(a) => a,
            Err(e) => {
                let s = e.span().start();
                eprintln!("srcfacts: {}:{}:{}: parse error: {e}", p.display(), s.line, s.column + 1);
                process::exit(1);
            }
        };
        let stem = name.trim_end_matches(".rs");
        c.file = name.clone();
        c.scope = match stem {
            "lib" | "main" => vec![],
            s => vec![s.to_string()],
        };
        if is_cfg_test(&ast.attrs) {
            c.skip("file", name.clone(), 1);
            continue;
        }
        for item in &ast.items {
            c.visit_item(item);
        }
        assert!(c.frames.is_empty());
    }

    sort_by_pos(&mut c.types);
    sort_by_pos(&mut c.impls);
    sort_by_pos(&mut c.fns);
    sort_by_pos(&mut c.statics);
    sort_by_pos(&mut c.unsafe_blocks);
    sort_by_pos(&mut c.item_macros);
    sort_by_pos(&mut c.skipped);

    let out = json!({
        "files": files,
        "types": c.types,
        "impls": c.impls,
        "fns": c.fns,
        "statics": c.statics,
        "unsafe_blocks": c.unsafe_blocks,
        "item_macros": c.item_macros,
        "skipped_cfg_test": c.skipped,
    });
    println!("{}", serde_json::to_string_pretty(&out).unwrap());
}
