#!/usr/bin/env python3
"""Generates /verif/MANIFEST.json from the table below (kept in one place so it is always valid)."""
import json, os
V = os.path.dirname(os.path.dirname(os.path.abspath(__file__)))
props = [json.loads(l) for l in open(os.path.join(V, "properties.jsonl"))]
TB = "Trusted: rustc's MIR construction and type checking (nightly 1.97, mir-opt-level=0), the checker's own abstract interpreter / rule code (validated against seeded mutants and benign edits), std collection semantics."
CLAIMS = {
 "C01": dict(
   technique="panic-site inventory over type-checked MIR with per-site discharge rules (offset provenance, length guards by abstract interpretation, constructor invariant, finite token language, constant regexes, an all-inputs graph argument on the extracted scanner transducer); loop-driver and recursion-shape rules; id pass-through by path enumeration",
   text="Static: every Assert terminator, unwrap / expect, explicit panic, indexing and documented-to-panic callee in user-written bodies reachable from add_content / validate (the user grammar actions included) is enumerated from MIR (26 sites) and must be discharged: offsets given to the line/column lookup are untouched @L/@R captures or lalrpop's own token boundaries; slice indices are guarded by a length switch (interpreted for lengths 0..24); arity assumptions follow from a constructor invariant proved over all type productions; the Direction fall-through arm is unreachable because the DIRECTION token language equals the handled words; regexes are constant and parse; marker unwraps are unreachable in the explored abstract machine; four sites in the doc-comment scanner are reviewed entries conditioned on byte-typed counters. Loops are driven by std iterators, recursion is structural, and the result map has exactly the stored ids, each result tagged with its id.",
   note=TB + " lalrpop 0.19.8 runtime / generated driver terminate and do not panic (TB-2). Panics inside dependencies for valid arguments, stack depth and allocation failure are not decided; The four javadoc sites rest on the extracted scanner table (rule K0: distances between end and begin markers, single-byte classes) and byte typing (J1); std callees documented to panic are a denylist.",
   design="DESIGN.md section 4, C01"),
 "C02": dict(
   technique="abstract interpretation of every user-written grammar action joined with lalrpop's lowered productions (field-by-field wiring vs a role-based spec); DFA equality of token / trivia languages with independently written references; layout non-interference rule",
   text="Static: each of the 65 user-written actions is interpreted with one symbolic value per production symbol, so every AST field is a term over production symbols; 150+ field obligations are compared with spec/wiring.json (names, flags, children and their order, qualified-name joining, flatten-only filtering, CommaSeparated order, type constructors). Layout independence is decided lexically (skipped patterns = Unicode whitespace runs, line and block comments, by DFA equality; token classes, priorities and the keyword rule) plus a non-interference rule: no field other than ranges / doc depends on a position capture, the input or the lookup.",
   note=TB + " lalrpop 0.19.8 (vendored front-end, same version as Cargo.lock): generated tables implement the grammar, @L/@R are token boundaries.",
   design="DESIGN.md section 4, C02"),
 "C03": dict(
   technique="DFA decisions on the token classes (equality, priorities, keyword rule); bounded exploration of the product of two LR automata (current grammar vs reference) built by lalrpop's front-end; path rules on recovery / error conversion; append-only effect rule",
   text="Static: (a) lexical agreement and 'a keyword or reserved word can never be a name' are decided on DFAs; (b) the grammar's language equals the reviewed reference grammar's up to 22 (quick) / 26 (thorough) tokens, with and without recovery alternatives, by exhaustive exploration of pairs of LR configurations (a difference comes with a witness document); (c) every failure becomes an Error: recovery actions, from_parse_error table, add_content paths; validation only appends to / sorts diagnostics (every call on a Vec<Diagnostic> reachable from validation is classified) and results keep the stored vector; (d) stored identifiers originate from IDENT.",
   note=TB + " lalrpop 0.19.8 (vendored front-end, same version as Cargo.lock): generated tables implement the grammar, @L/@R are token boundaries." + " A11 is bounded in the number of tokens.",
   design="DESIGN.md section 4, C03"),
 "C04": dict(
   technique="provenance rules on range construction: abstract interpretation of grammar actions joined with production symbol positions (capture directly before / after the named symbol), tabulated constructors and error conversion, operand provenance of every Diagnostic / RelatedInfo aggregate",
   text="Static: Position/Range constructors are tabulated; every Range::new in a grammar action takes untouched @L/@R captures with start before end (39 sites); ~100 range obligations state per production that the name range spans exactly the name symbol and the full range runs from the capture in front of the first symbol to the capture behind the last (children therefore nest); syntax diagnostics forward the offending token's own boundaries; the transact-code Error lies on the INTEGER; every validation diagnostic clones a range field of an AST node (or is the empty range at the type start).",
   note=TB + " lalrpop 0.19.8 (vendored front-end, same version as Cargo.lock): generated tables implement the grammar, @L/@R are token boundaries." + " Numeric line/column computation is the line-col crate's.",
   design="DESIGN.md section 4, C04"),
 "C14": dict(
   technique="path rules on the recovery actions, flatten-only body construction, lookahead-set rule on the LR automaton, and bounded exhaustive exploration of a parser model (exported LR automaton + transcription of lalrpop_util's parse / error-recovery loop) over all malformed members up to a token bound",
   text="Static / model exploration: (R1-R4) the member-level recovery alternatives exist, push an Error and yield None; bodies keep all well-formed siblings in order (flatten only); wherever `error` can be shifted inside a body the recovery production is reduced on FIRST(member) and the closing brace; the token vocabulary is the reference one. (R5) the core claim is explored on a model of the parser, not on the parser: for interface, parcelable and enum bodies, every token string of up to 2 (quick; 3 for enums and in the thorough tier) vocabulary tokens without terminator / brace that is not itself a member is placed between optional well-formed siblings (27 000 - 900 000 documents); a tree must result, every sibling must be reduced with its own extent and in order, and every offending token must lie inside the malformed member. One genuine deviation found this way is a recorded known finding (enum element with an unclosed annotation parenthesis).",
   note=TB + " R5 trusts rules/lrsim.py (a transcription of lalrpop_util 0.19.8 state_machine.rs, cross-checked by hand against the real parser on a few inputs) and TB-2 (generated tables = exported automaton); longer malformed members are not covered.",
   design="DESIGN.md section 4, C14"),
 "C18": dict(
   technique="positive byte/char dimension typing on MIR; all-inputs slice-safety argument on the extracted scanner transducer (shortest marker distances); grammar-action wiring of `doc`; extraction of the backward scanner as a finite transducer and of the normaliser as a regex pipeline by abstract interpretation, each simulated on a bounded structured family against a reference written from the statement",
   text="Static, bounded where stated: (J1) values used as str indices in find_content_string are byte-typed; (J2) for all documentable constructs doc = get_javadoc(input, capture that is the first symbol of the production); (J3) get_javadoc scans input[..pos] and maps through parse_javadoc; (K) the scanner loop is extracted as a 7-state transducer over the characters it distinguishes (one abstractly interpreted loop iteration per state x character class) and the extracted table is simulated on ~4 400 (quick) structured prefixes - preceding text, optional doc comment incl. non-ASCII / CRLF bodies, up to 2-3 items of whitespace, block and line comments - against a forward reference: closest doc comment if only whitespace and ordinary comments follow; (N) parse_javadoc is extracted as a pipeline model (regex constants, replacements, trim set, joiner) evaluated on 64+ doc bodies (paragraphs x lines x tags x LF/CRLF x star/bare layout x Unicode words) against a reference normaliser. Outside the two families nothing is decided.",
   note=TB + " lalrpop @L of the first symbol is the construct's first token (TB-2); rule N evaluates the extracted regex constants with Python's re (same semantics for the constructs used).",
   design="DESIGN.md section 4, C18"),
 "C19": dict(
   technique="serde attribute consistency analysis over the syntax tree of every type reachable from ast::Aidl (syn), with crate-local skip predicates and Default impls decided by abstract interpretation of their MIR",
   text="Static: for the 22 types reachable from ast::Aidl the derive lists, every #[serde(...)] attribute and every field type are checked: a field omitted under skip_serializing_if must have `default`, and the predicate's truth set (std predicates by catalogue, crate-local ones tabulated over all values of the field's type) must be exactly the value Default::default() produces; no one-sided attribute; field types within the round-trippable set.",
   note="Trusted: serde derive / RON themselves; syn-based extraction; " + TB,
   design="DESIGN.md section 4, C19"),
 "C17": dict(
   technique="per-variant table extraction of Symbol::get_qualified_name / get_name by abstract interpretation, format templates decoded from MIR, sibling-agreement rule against Aidl::get_key; tabulation of the per-file pipeline for the resolution stage; wiring of names",
   text="Static, exhaustive over symbol kinds: for each of the 11 Symbol variants the returned qualified name is extracted as (format template, provenance of each argument) and compared with the statement (items: the very template and roles of the registration key `package.Name`; members `Owner::member`; package / import dotted names; resolved type -> stored key); get_name likewise; that the stored key equals the registration key is carried by the resolver rules (kind and key come from the project map under the matched import path).",
   note=TB + " Reads rustc's compact format_args encoding (fails closed on unknown opcodes).",
   design="DESIGN.md section 4, C17"),
 "C20": dict(
   technique="provenance analysis of the formatter by abstract interpretation for every vector length 0..24 (which elements flow into the sentence), plus path rules on the error-conversion functions; every dynamic part of a syntax message is the offending token or the formatter's result, no terminal name in literal text",
   text="Static: expected_token_str is interpreted abstractly for each length 0..24 with symbolic elements; the set of elements flowing into the returned sentence must be exactly v[0..n), each once, and nothing else dynamic; from_parse_error is tabulated over the ParseError variants to show the expectation vector reaches the formatter untouched; from_error_recovery keeps the message whole; both error paths use it.",
   note=TB + " Bounded in the vector length (0..24; the >=3 arm is one expression in len).",
   design="DESIGN.md section 4, C20"),
 "C12": dict(
   technique="state-ownership analysis over type-checked MIR (who may write Parser's fields, receiver mutability, interior-mutability scan) plus path enumeration of add_content / add_file / remove_content / validate by abstract interpretation",
   text="Static non-interference argument: every access to a field of Parser in the whole crate is enumerated; the only mutable ones are insert(id, ..) in add_content and remove(&id) in remove_content; on every path add_content stores exactly one result tagged and keyed with the caller's id and built only from parsing `content` with a fresh lookup and vector; validate takes &self, recomputes the key map and hands a clone to validation; add_file reaches add_content only after open and read both succeeded and returns the error without touching the parser otherwise; no statics, interior mutability or impure std sources.",
   note=TB + " Equality with a fresh parser also needs seed independence (C11, incl. its known finding).",
   design="DESIGN.md section 4, C12"),
 "C13": dict(
   technique="closure-capture and type-resolved access-pattern analysis of the shared key -> kind map; provenance of its entries by abstract interpretation; tabulation of the per-file pipeline (captures, arguments); hash-order taint of C11 re-evaluated for validation",
   text="Static non-interference argument: the per-file closure captures only the shared map by shared reference; every type-resolved use of a HashMap<String, ResolvedItemKind> reachable from it is get / contains_key; the map's entries are (get_key(), get_kind()) and get_key reads only package and item name; no global state.",
   note=TB,
   design="DESIGN.md section 4, C13"),
 "C11": dict(
   technique="type-resolved hash-order taint classification of every consumer of a HashMap/HashSet iterator reachable from validation; dominator rule + key extraction for the final sort; global-state / purity scan; capture analysis of the per-file closure; recovery-diagnostic position rules for tree-less files",
   text="Static: every call whose receiver type is an adaptor chain over a std hash iterator, in all functions reachable from the entry points, is enumerated from type-checked MIR and must fall in a discharged class (order-insensitive, unique choice by minimum over distinct keys, find whose predicate implies equality with a loop-invariant, for-loop whose only effects are diagnostics re-ordered by the final sort, collect into a map with keys proven distinct); the final sort must be stable, last, and keyed on the whole start position (key closure tabulated); no statics, interior mutability, clock, environment or random source.",
   note=TB + " Order of syntax diagnostics for tree-less files is lalrpop's (not decided).",
   design="DESIGN.md section 4, C11"),
 "C06": dict(
   technique="decision-table extraction (abstract interpretation of MIR with map lookups as oracle predicates) for the fold closures and classification loops; walker visit sequences; per-category table of the 'used' set; tabulation of the per-file validation pipeline (each checker once, expected arguments), loop-carried-state rule on the MIR CFG, early-exit detection, and grammar-action wiring of the fields the rule reads",
   text="Static, partial by design: the 'used' set is fed from a depth-complete traversal (inductive walker rule) and the resolver callback inserts the resolved key / the built-in's qualified name for every category; the duplicate-detection folds and the per-entry classification loops of check_imports and check_declared_parcelables are tabulated over their oracle predicates (occupied / vacant, defined, built-in, used, conflicting import) and compared with the statement: which diagnostic (kind, range on the statement's name or whole extent, back-reference), exactly once, and nothing else. The string contents of the sets are not decided.",
   note=TB + " Map lookups are oracle bits (std semantics).",
   design="DESIGN.md section 4, C06"),
 "C05": dict(
   technique="visit-sequence extraction of the mutable type walker (inductive depth), path enumeration of resolve_type by abstract interpretation with the lookups as oracles, table extraction of the built-in tables; tabulation of the per-file validation pipeline (each checker once, expected arguments), loop-carried-state rule on the MIR CFG, early-exit detection, and grammar-action wiring of the fields the rule reads",
   text="Static, partial by design: (a) every type node at any depth reaches the resolver (walker sequence per configuration + induction on the recursive helper); (b) on every path through resolve_type an unresolved reference ends with exactly one classification or exactly one Error on its name, classified nodes are untouched; (c) built-in name tables, get_all completeness, lookup predicates, Item::get_kind and the shape of the project key map are tabulated against spec/builtins.json; (d) per path, the order import -> forward declaration -> built-in, the kind coming from the project map under the very key that matched, and built-in precedence over an import of the built-in. String-matching semantics of the searches (exact / suffix match, near misses) are NOT decided.",
   note=TB + " The searches over imports and forward declarations are treated as oracles (their predicates quantify over arbitrary strings).",
   design="DESIGN.md section 4, C05"),
 "C09": dict(
   technique="step-function extraction by abstract interpretation of the per-method closure, then exhaustive exploration of the finite abstract machine in product with a monitor; tabulation of the per-file validation pipeline (each checker once, expected arguments), loop-carried-state rule on the MIR CFG, early-exit detection, and grammar-action wiring of the fields the rule reads",
   text="Static model checking of an extracted model: the fold step of check_methods is extracted from MIR as a function of six boolean abstractions (name seen, code present, code seen, first-with / first-without markers set, id map empty); every transition from every reachable abstract state is compared with a monitor transcribed from the statement (which Error with which range / back-reference, which bookkeeping updates, and nothing else). The invariant relating the id map to the marker is found by the exploration. walk_methods is shown to yield methods only.",
   note=TB + " The abstraction of HashMap lookups as oracle bits relies on std map semantics. u32 parsing of codes is std.",
   design="DESIGN.md section 4, C09"),
 "C15": dict(
   technique="visit-sequence extraction by abstract interpretation of the walkers' MIR (one generic element per container, recursion as induction hypothesis) compared with a traversal spec; path-existence rule for ControlFlow propagation; predicate-consultation order of find / filter compared with the walker's sequence; loop-carried-state rule",
   text="Static: for each of the 3 filter levels x 5 item/member configurations the sequence of callback invocations of walk_symbols_with_control_flow is extracted from MIR and compared with the pre-order the statement prescribes (array element first); nested types are covered by proving the inductive step of the recursive type visit; for every callback invocation a path must exist on which its Break ends the walk (dropped results are reported); walk_symbols / filter_symbols / find_symbol are interpreted end to end with an opaque predicate (all predicate valuations enumerated); walk_types / walk_methods / walk_args sequences likewise.",
   note=TB + " Assumes std iterator semantics (forward, once per element, try_for_each short-circuits).",
   design="DESIGN.md section 4, C15"),
 "C16": dict(
   technique="path enumeration of range_contains over all 81 order types of its comparisons; per-variant table of Symbol::get_range; lookup-shape rule; C15 traversal rules re-evaluated; C15's find / filter rules, C04's position and name-range wiring rules re-evaluated",
   text="Static, exhaustive: range_contains touches its six integers only through comparisons (checked on the extracted branch literals), so its boolean function is compared with inclusive lexicographic containment over all 81 order types; find_symbol_at_line_col is shown to be find_symbol with that predicate on Symbol::get_range, which is tabulated over all 11 Symbol variants to be the name range; 'first such symbol in traversal order, package included, any depth' is C15's walker and propagation rules, re-run under this property.",
   note=TB + " Not decided: line/column arithmetic inside the line-col crate; exactness of the name range is C04.",
   design="DESIGN.md section 4, C16"),
 "C08": dict(
   technique="abstract interpretation of MIR: element decision tables (4 x 17 cells) and container dispatch vs spec tables; visit-sequence extraction of the type walker with an inductive depth argument; tabulation of the per-file validation pipeline (each checker once, expected arguments), loop-carried-state rule on the MIR CFG, early-exit detection, and grammar-action wiring of the fields the rule reads",
   text="Static, exhaustive over categories: the four element checkers are tabulated from MIR for all 17 type categories (68 cells: exactly one Error on the element for a rejected one, nothing for an accepted one) and check_container's dispatch over kind x arity; the claim 'every container anywhere, at any depth' is decided by extracting the visit sequence of traverse::walk_types for every item/member configuration (every type-bearing field of the AST ADTs must appear) and proving the inductive step of its recursive helper (visit t, recurse on each generic parameter).",
   note=TB + " Assumes std iterators visit every element once in order; category of a source type is C05's business.",
   design="DESIGN.md section 4, C08"),
 "C10": dict(
   technique="abstract interpretation of MIR (decision-table extraction through the iterator chain) vs the table the statement gives; dominator-based order and guard rule; tabulation of the per-file validation pipeline (each checker once, expected arguments), loop-carried-state rule on the MIR CFG, early-exit detection, and grammar-action wiring of the fields the rule reads",
   text="Static, exhaustive: set_up_oneway_interface is tabulated over interface.oneway x member variant x method.oneway (effects: Warning on the redundant keyword / the single assignment method.oneway = true / nothing), check_method over method.oneway x 17 return-type categories (one Error on the return type iff oneway and not void), and the per-file pipeline is checked to run the propagation strictly before the method checks, guarded only by the item being an interface.",
   note=TB + " Keyword presence and oneway_range wiring are decided by the grammar rules (C02/C04).",
   design="DESIGN.md section 4, C10"),
 "C07": dict(
   technique="abstract interpretation of MIR over the finite type-category domain (decision-table extraction) compared with a spec table; dominator-based call-order rule; tabulation of the per-file validation pipeline (each checker once, expected arguments), loop-carried-state rule on the MIR CFG, early-exit detection, and grammar-action wiring of the fields the rule reads",
   text="Static, exhaustive over the property's own quantifier: the per-argument decision table of check_method_args (with get_requirement_for_arg_direction inlined) is extracted from the type-checked MIR for all 17 type categories x 4 directions x method-oneway (136 cells) and compared cell by cell (number of Errors, their kind and the provenance of their range) with a table transcribed from the statement; pipeline order (resolve_types < set_up_oneway_interface < check_methods) is decided on the CFG. No code of the repository is executed.",
   note=TB + " Not decided here: that source types land in the right category (C05) and that the Direction token reaches the AST (wiring rule, C02/C04).",
   design="DESIGN.md section 4, C07"),
}
# rules shared since session 4 (DESIGN.md 10.6, round 7)
PB = {
 "*": "; plumbing rule PB: path enumeration of Parser::add_content / remove_content / validate by abstract interpretation of their MIR (C12's rules H1, H2, H3, H5, H7 re-evaluated under this property and re-keyed to it)",
 "C12": "",
 "C14": "; tree-mutation inventory over MIR (R8: stores into tree nodes and `&mut` accesses to owned parts of the tree in everything reachable from validation::validate, result of the per-file closure carries the stored tree); plumbing rule PB (C12's H1, H2, H3, H5, H7 re-evaluated)",
 "C02": "; tree-mutation inventory over MIR (C14 R8 re-evaluated: validation returns the tree the actions built, only Type.kind / Method.oneway written); plumbing rule PB (C12's H1, H2, H3, H5, H7 re-evaluated)",
}
EQ_PROPS = ("C02", "C04", "C05", "C06", "C07", "C08", "C09", "C10", "C11", "C13", "C14", "C15", "C16", "C17")
EQ = "; rule EQ: expansion-origin check on the MIR bodies of PartialEq / PartialOrd / Ord / Hash impls of crate types (must be derive expansions: the rules read comparisons structurally)"
checks = []
na = []
for p in props:
    pid = p["id"]
    c = CLAIMS.get(pid)
    if c is None:
        na.append({"property_id": pid, "reason": "check not implemented yet (design in DESIGN.md section 4); will be claimed once its rules run"})
        continue
    checks.append({
        "property_id": pid,
        "quick_cmd": "./check %s --tier quick" % pid,
        "thorough_cmd": "./check %s --tier thorough" % pid,
        "evidence_file": "/verif/evidence/%s.json" % pid,
        "replay_cmd_template": "./check %s --explain {path}" % pid,
        "engine": "static-rules",
        "level_claimed": {"category": "other", "text": c["text"], "design_ref": c["design"]},
        "level_note": c["note"],
        "technique": c["technique"] + PB.get(pid, PB["*"]) + (EQ if pid in EQ_PROPS else ""),
    })
m = {
 "version": 1,
 "setup_cmd": "./setup.sh",
 "hooks": {"guard": "verif-hooks", "enable": "none needed: static analysis reads /repo's sources (MIR via a rustc wrapper, grammar via lalrpop's front-end, syntax via syn) without instrumentation; no hook commit exists",
           "baseline_off_cmd": "cd /repo && cargo test --workspace --no-fail-fast --offline", "source_commits": [], "add_only": True},
 "engines": [
  {"name": "mirfacts", "path": "tools/mirfacts", "serves_properties": sorted(CLAIMS), "kind_free_text": "rustc_private driver exporting type-checked MIR, resolved callees, ADTs as JSON"},
  {"name": "gramfacts", "path": "tools/gramfacts", "serves_properties": [], "kind_free_text": "vendored lalrpop 0.19.8 front-end: productions, action indices, LALR(1) automaton, token DFAs, bounded language comparison"},
  {"name": "srcfacts", "path": "tools/srcfacts", "serves_properties": [], "kind_free_text": "syn-based extractor of format templates and serde attributes"},
  {"name": "static-rules", "path": "rules", "serves_properties": sorted(CLAIMS), "kind_free_text": "Python rule layer: abstract interpreter (tabulator), CFG/dominator rules, per-property rules, spec tables in /verif/spec"},
 ],
 "checks": checks,
 "notes": "Static analysis only; every check re-extracts facts from /repo's current working tree (cached per content hash of Cargo.toml, Cargo.lock, src/**). See DESIGN.md.",
 "not_applicable": na,
}
json.dump(m, open(os.path.join(V, "MANIFEST.json"), "w"), indent=1)
print("claimed:", [c["property_id"] for c in checks])
