#!/usr/bin/env python3
"""Cross-check a `gramfacts facts` JSON against the parser lalrpop generated for the same grammar.

usage: crosscheck.py <facts.json> [<target-dir or generated .rs file>]   (default: /repo/target)

The generated file is located by its `// sha3:` header (sha3-256 of the grammar text), so a stale
build output is never compared by accident.  Three comparisons, all must hold (exit 0):

  actions  every `fn __action{i}`: leading parameters, number of `(L, T, L)` tuple parameters,
           extra lookbehind/lookahead parameters, binding names, return type and (user actions)
           the code text agree with `normalized.action_fn_defns[i]`;
  tables   for every public start symbol: `__ACTION`, `__EOF_ACTION` and `__goto` of module
           `__parse__<Start>` equal the exported automaton (state numbers, production numbers =
           `normalized.productions[].index`, terminal order = `terminals[]`);
  lexer    the `(regex, skip)` list of `__intern_token::new_builder` equals `runtime_regex`/`skip`
           of the match entries in `match_index` order.

Reads files only; nothing of /repo is executed.
"""
import glob
import hashlib
import json
import os
import re
import sys


def find_generated(facts, where):
    h = hashlib.sha3_256(open(facts["grammar_file"], "rb").read()).hexdigest()
    if os.path.isfile(where):
        cands = [where]
    else:
        cands = sorted(glob.glob(os.path.join(where, "**", "out", "*.rs"), recursive=True))
    for f in cands:
        with open(f, errors="replace") as fh:
            if h in fh.read(300):
                return f
    return None


def norm(s):
    return re.sub(r"\s+", "", s)


def check_actions(d, src):
    ms = list(re.finditer(r"^fn __action(\d+)<", src, re.M))
    fns = {}
    for k, m in enumerate(ms):
        end = ms[k + 1].start() if k + 1 < len(ms) else src.index("\npub trait __ToTriple", m.start())
        fns[int(m.group(1))] = src[m.start():end]
    defs = {a["index"]: a for a in d["normalized"]["action_fn_defns"]}
    problems = []
    if set(fns) != set(defs):
        problems.append("action fn index sets differ: %d generated, %d exported" % (len(fns), len(defs)))
        return problems, len(fns)
    lead_expected = [p["name"] for p in d["generated_fn_params"]]
    for i, txt in sorted(fns.items()):
        head, _, rest = txt.partition(") -> ")
        params = head[head.index(">(") + 2:]
        lines = [l.strip() for l in params.strip().split("\n") if l.strip()]
        lead = [l.split(":")[0] for l in lines[: len(lead_expected)]]
        rest_params = lines[len(lead_expected):]
        tuples = [l for l in rest_params if re.search(r": \(usize, .*, usize\),$", l)]
        extra = [l for l in rest_params if l not in tuples]
        a = defs[i]
        ok = lead == lead_expected
        ok = ok and len(tuples) == a["tuple_param_count"] and len(extra) == len(a["extra_params"])
        ret = rest[: rest.index("\n{")]
        if a["fallible"]:
            ok = ok and norm(ret).startswith(norm("Result<" + a["ret_type"] + ","))
        else:
            ok = ok and norm(ret) == norm(a["ret_type"])
        if a["kind"] == "user":
            names = [re.match(r"\(_, (.*), _\):", l).group(1) for l in tuples]
            body = rest[rest.index("\n{") + 2: rest.rindex("}")]
            ok = ok and names == a["arg_patterns"] and norm(body) == norm(a["code"])
        if not ok:
            problems.append("__action%d differs" % i)
    for key in ("lowered", "normalized"):
        for p in d[key]["productions"]:
            if defs[p["action"]]["tuple_param_count"] != len(p["symbols"]):
                problems.append("%s production %d: symbol count != tuple params" % (key, p["index"]))
    return problems, len(fns)


def int_table(src, start, name):
    j = src.index("const %s: &[i16] = &[" % name, start)
    k = src.index("];", j)
    body = re.sub(r"//[^\n]*", "", src[j:k].split("&[", 2)[2])
    return [int(x) for x in body.replace("\n", " ").split(",") if x.strip()]


def check_tables(d, src):
    problems = []
    terms = [t["name"] for t in d["terminals"]]
    nt = len(terms)
    pidx = {
        (p["nonterminal"], tuple(s["name"] for s in p["symbols"]), p["action"]): p["index"]
        for p in d["normalized"]["productions"]
    }
    nts = []
    for p in d["normalized"]["productions"]:
        if p["nonterminal"] not in nts:
            nts.append(p["nonterminal"])
    summary = []
    for auto in d["automata"]:
        start = auto["start"]
        i = src.index("mod __parse__%s {" % start)
        A = int_table(src, i, "__ACTION")
        E = int_table(src, i, "__EOF_ACTION")
        ns = len(E)
        if auto["state_count"] != ns or len(A) != ns * nt:
            problems.append("%s: state/terminal count differs" % start)
            continue
        mine = [0] * (ns * nt)
        mine_e = [0] * ns
        for st in auto["states"]:
            s = st["index"]
            for t, to in st["shifts"].items():
                mine[s * nt + terms.index(t)] = to + 1
            for r in st["reduces"]:
                p = r["production"]
                k = pidx[(p["nonterminal"], tuple(p["symbols"]), p["action"])]
                for la in r["lookahead"]:
                    if la == "EOF":
                        mine_e[s] = -(k + 1)
                    else:
                        mine[s * nt + terms.index(la)] = -(k + 1)
        if mine != A:
            problems.append("%s: __ACTION differs" % start)
        if mine_e != E:
            problems.append("%s: __EOF_ACTION differs" % start)
        j = src.index("fn __goto(state: i16, nt: usize) -> i16 {", i)
        k = src.index("\n    }\n", j)
        gen = {}
        for m in re.finditer(r"^ {12}(\d+) => (match state \{(.*?)\n\s+\},|(\d+),)", src[j:k], re.M | re.S):
            n = int(m.group(1))
            if m.group(4):
                gen[n] = {"_": int(m.group(4))}
                continue
            mm = {}
            for a in re.finditer(r"([\d|. =]+|_) => (\d+),", m.group(3)):
                for part in a.group(1).split("|"):
                    part = part.strip()
                    if "..=" in part:
                        lo, hi = part.split("..=")
                        for q in range(int(lo), int(hi) + 1):
                            mm[str(q)] = int(a.group(2))
                    else:
                        mm[part] = int(a.group(2))
            gen[n] = mm
        gotos = 0
        for st in auto["states"]:
            for n, to in st["gotos"].items():
                g = gen.get(nts.index(n), {})
                gotos += 1
                if g.get(str(st["index"]), g.get("_")) != to:
                    problems.append("%s: goto(%d, %s) differs" % (start, st["index"], n))
        summary.append("%s:%d states/%d gotos" % (start, ns, gotos))
    return problems, summary


def rust_unescape(s):
    out = []
    k = 0
    simple = {"n": "\n", "r": "\r", "t": "\t", "0": "\0", "\\": "\\", '"': '"', "'": "'"}
    while k < len(s):
        if s[k] != "\\":
            out.append(s[k])
            k += 1
        elif s[k + 1] == "u":
            e = s.index("}", k)
            out.append(chr(int(s[k + 3:e], 16)))
            k = e + 1
        else:
            out.append(simple[s[k + 1]])
            k += 2
    return "".join(out)


def check_lexer(d, src):
    if "mod __intern_token {" not in src:
        return (["no __intern_token module"] if d["token_dfas"] else []), 0
    i = src.index("mod __intern_token {")
    j = src.index("];", i)
    gen = [(rust_unescape(g), sk == "true")
           for g, sk in re.findall(r'\("((?:[^"\\]|\\.)*)", (true|false)\),', src[i:j])]
    rows = sorted([e for g in d["match_block"] for e in g], key=lambda e: e["match_index"])
    mine = [(e["runtime_regex"], e["skip"]) for e in rows]
    if d["match_block_info"]["default_whitespace_skip"]:
        mine.append(("^(\\s*)", True))
    return ([] if gen == mine else ["__intern_token regex list differs"]), len(gen)


def main():
    if len(sys.argv) < 2:
        sys.exit(__doc__)
    d = json.load(open(sys.argv[1]))
    where = sys.argv[2] if len(sys.argv) > 2 else "/repo/target"
    f = find_generated(d, where)
    if f is None:
        print("no generated parser with the sha3 of %s under %s" % (d["grammar_file"], where))
        sys.exit(2)
    src = open(f).read()
    p1, n_actions = check_actions(d, src)
    p2, summary = check_tables(d, src)
    p3, n_lex = check_lexer(d, src)
    print("generated parser: %s" % f)
    print("actions: %d compared, %d problems" % (n_actions, len(p1)))
    print("tables:  %s, %d problems" % (", ".join(summary), len(p2)))
    print("lexer:   %d entries compared, %d problems" % (n_lex, len(p3)))
    for p in p1 + p2 + p3:
        print("  " + p)
    sys.exit(1 if p1 or p2 or p3 else 0)


if __name__ == "__main__":
    main()
