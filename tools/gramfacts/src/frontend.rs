//! Loading a `.lalrpop` file through lalrpop 0.19.8's own front-end.
//!
//! Everything here calls the vendored crate (`/verif/tools/vendor/lalrpop-0.19.8`); no grammar
//! logic is re-implemented.  The only tool-side manipulation is the optional removal of the
//! alternatives that mention `!` (`--drop-error-alts` of `langdiff`), done on the parse tree
//! before any normalisation pass sees it.

use lalrpop::file_text::FileText;
use lalrpop::grammar::parse_tree as pt;
use lalrpop::grammar::repr as r;
use lalrpop::log::{Level, Log};
use lalrpop::normalize;
use lalrpop::parser;
use lalrpop::session::Session;
use lalrpop::tls::Tls;
use std::collections::BTreeSet;
use std::path::PathBuf;
use std::rc::Rc;

pub struct LoadOptions {
    pub drop_error_alts: bool,
    pub features: Option<BTreeSet<String>>,
}

impl Default for LoadOptions {
    fn default() -> Self {
        LoadOptions {
            drop_error_alts: false,
            features: None,
        }
    }
}

pub struct Loaded {
    pub path: String,
    pub text: String,
    /// parse tree exactly as produced by `parser::parse_grammar`
    pub raw: pt::Grammar,
    /// parse tree after `normalize::resolve` (identifiers classified; macros NOT expanded)
    pub resolved: pt::Grammar,
    /// `normalize::lower_helper` result: before inlining
    pub lowered: r::Grammar,
    /// after `normalize::inline::inline` (what `normalize::normalize` returns)
    pub normalized: r::Grammar,
    /// number of alternatives removed by `--drop-error-alts`
    pub dropped_alternatives: usize,
    // keep last: dropping it un-installs the thread-local session
    _tls: Tls,
}

/// The session `lalrpop::process_root()` would use (`Configuration::new()` = `Session::new()`),
/// except that logging is silenced (affects no algorithm; keeps stdout clean for JSON) and
/// colours are off.
pub fn make_session(features: Option<BTreeSet<String>>) -> Session {
    let mut s = Session::new();
    s.log = Log::new(Level::Taciturn);
    s.color_config = lalrpop::session::ColorConfig::No;
    // process_dir() fills `features` from CARGO_FEATURE_* of the build script environment;
    // the tool takes them from `--features` instead (default: none).
    s.features = Some(features.unwrap_or_default());
    s
}

pub fn line_of(text: &str, offset: usize) -> usize {
    let off = offset.min(text.len());
    1 + text.as_bytes()[..off].iter().filter(|&&b| b == b'\n').count()
}

fn symbol_mentions_error(sym: &pt::Symbol) -> bool {
    match sym.kind {
        pt::SymbolKind::Error => true,
        pt::SymbolKind::Expr(ref e) => e.symbols.iter().any(symbol_mentions_error),
        pt::SymbolKind::Macro(ref m) => m.args.iter().any(symbol_mentions_error),
        pt::SymbolKind::Repeat(ref rep) => symbol_mentions_error(&rep.symbol),
        pt::SymbolKind::Choose(ref s) | pt::SymbolKind::Name(_, ref s) => symbol_mentions_error(s),
        pt::SymbolKind::AmbiguousId(_)
        | pt::SymbolKind::Terminal(_)
        | pt::SymbolKind::Nonterminal(_)
        | pt::SymbolKind::Lookahead
        | pt::SymbolKind::Lookbehind => false,
    }
}

fn drop_error_alternatives(g: &mut pt::Grammar) -> usize {
    let mut dropped = 0;
    for item in &mut g.items {
        if let pt::GrammarItem::Nonterminal(ref mut nt) = *item {
            let before = nt.alternatives.len();
            nt.alternatives
                .retain(|alt| !alt.expr.symbols.iter().any(symbol_mentions_error));
            dropped += before - nt.alternatives.len();
        }
    }
    dropped
}

pub fn load(path: &str, opts: &LoadOptions) -> Result<Loaded, String> {
    let text = std::fs::read_to_string(path).map_err(|e| format!("cannot read {}: {}", path, e))?;
    let session = Rc::new(make_session(opts.features.clone()));
    let file_text = Rc::new(FileText::new(PathBuf::from(path), text.clone()));
    let tls = Tls::install(session.clone(), file_text.clone());

    let mut raw = match parser::parse_grammar(&text) {
        Ok(g) => g,
        Err(e) => {
            return Err(format!(
                "{}: grammar parse error: {}",
                path,
                describe_parse_error(&e)
            ))
        }
    };
    let mut dropped_alternatives = 0;
    if opts.drop_error_alts {
        dropped_alternatives = drop_error_alternatives(&mut raw);
    }

    let norm_err = |e: normalize::NormError| {
        format!(
            "{}:{}: {}",
            path,
            line_of(&text, e.span.0),
            e.message
        )
    };

    let resolved = normalize::resolve::resolve(raw.clone()).map_err(norm_err)?;
    let lowered = normalize::lower_helper(&session, raw.clone(), true).map_err(norm_err)?;
    let normalized = normalize::inline::inline(lowered.clone()).map_err(norm_err)?;

    Ok(Loaded {
        path: path.to_string(),
        text,
        raw,
        resolved,
        lowered,
        normalized,
        dropped_alternatives,
        _tls: tls,
    })
}

/// Name of the construction `lr1::build_states` will use for this grammar (mirrors
/// `lr1::build_states` + `lr1::build::build_lr1_states`).
pub fn algorithm_name(g: &r::Grammar) -> &'static str {
    if g.algorithm.lalr {
        "lalr1"
    } else if lalrpop::lr1::build::use_lane_table() {
        "lane-table"
    } else {
        "lr1"
    }
}

fn describe_parse_error(e: &parser::ParseError<'_>) -> String {
    let dbg = format!("{:?}", e);
    dbg.chars().take(300).collect()
}
