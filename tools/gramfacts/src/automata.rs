//! LR automaton construction (by lalrpop's `lr1::build_states`) and two views of the result:
//! a JSON export for `facts`, and compact integer tables for `langdiff`.

use lalrpop::grammar::repr as r;
use lalrpop::lr1;
use lalrpop::lr1::core::LR1State;
use lalrpop::lr1::lookahead::Token;
use serde_json::{json, Map, Value};
use std::collections::{BTreeMap, BTreeSet, HashMap};

use crate::frontend::algorithm_name;

/// Flattened production list of the (normalised) grammar, in `grammar.nonterminals` order.
pub struct ProdInfo {
    pub nonterminal: String,
    pub symbols: Vec<String>,
    pub action: usize,
}

pub fn production_json(p: &r::Production) -> Value {
    json!({
        "nonterminal": p.nonterminal.to_string(),
        "symbols": p.symbols.iter().map(|s| s.to_string()).collect::<Vec<_>>(),
        "action": p.action.index(),
    })
}

fn conflict_message(err: &lr1::LR1TableConstructionError<'_>) -> String {
    let mut msgs = Vec::new();
    for c in err.conflicts.iter().take(5) {
        msgs.push(format!(
            "state {}: reduce `{:?}` conflicts with {:?} on {:?}",
            c.state.0, c.production, c.action, c.lookahead
        ));
    }
    format!(
        "grammar is not LR(1) for lalrpop ({} conflicts): {}",
        err.conflicts.len(),
        msgs.join("; ")
    )
}

/// Runs `f` on the states lalrpop builds for the start nonterminal `user_nt` (a `pub` symbol).
pub fn with_states<T>(
    g: &r::Grammar,
    user_nt: &str,
    f: impl FnOnce(&r::NonterminalString, &[LR1State<'_>]) -> T,
) -> Result<T, String> {
    let (_, start_nt) = g
        .start_nonterminals
        .iter()
        .find(|(u, _)| u.to_string() == user_nt)
        .ok_or_else(|| {
            format!(
                "`{}` is not a public nonterminal (public: {})",
                user_nt,
                g.start_nonterminals
                    .keys()
                    .map(|k| k.to_string())
                    .collect::<Vec<_>>()
                    .join(", ")
            )
        })?;
    let _lr1_tls = lr1::Lr1Tls::install(g.terminals.clone());
    let states = match lr1::build_states(g, start_nt.clone()) {
        Ok(s) => s,
        Err(e) => return Err(conflict_message(&e)),
    };
    Ok(f(start_nt, &states))
}

fn token_name(t: &Token) -> String {
    match t {
        Token::EOF => "EOF".to_string(),
        Token::Error => "error".to_string(),
        Token::Terminal(ts) => ts.to_string(),
    }
}

pub fn automaton_json(g: &r::Grammar, user_nt: &str) -> Result<Value, String> {
    with_states(g, user_nt, |start_nt, states| {
        let mut out_states = Vec::with_capacity(states.len());
        for st in states {
            let shifts: Map<String, Value> = st
                .shifts
                .iter()
                .map(|(t, s)| (t.to_string(), json!(s.0)))
                .collect();
            let gotos: Map<String, Value> = st
                .gotos
                .iter()
                .map(|(n, s)| (n.to_string(), json!(s.0)))
                .collect();
            let mut reduces: Vec<Value> = Vec::new();
            for (la, prod) in &st.reductions {
                let mut names: Vec<String> = la.iter().map(|t| token_name(&t)).collect();
                names.sort();
                names.dedup();
                let mut pj = production_json(prod);
                let accept = prod.nonterminal == *start_nt;
                pj.as_object_mut()
                    .unwrap()
                    .insert("is_start_production".to_string(), json!(accept));
                reduces.push(json!({ "production": pj, "lookahead": names }));
            }
            let items: Vec<String> = st.items.vec.iter().map(|it| format!("{:?}", it)).collect();
            out_states.push(json!({
                "index": st.index.0,
                "shifts": shifts,
                "reduces": reduces,
                "gotos": gotos,
                "items": items,
            }));
        }
        json!({
            "start": user_nt,
            "start_internal": start_nt.to_string(),
            "algorithm": algorithm_name(g),
            "state_count": states.len(),
            "states": out_states,
        })
    })
}

// ---------------------------------------------------------------------------------------------
// compact tables

pub const NO_GOTO: u32 = u32::MAX;

pub struct Tables {
    pub n_states: usize,
    /// number of columns = global vocabulary size + 1 (last column = EOF)
    pub n_cols: usize,
    /// 0 = error, v > 0 = shift to state v-1, v < 0 = reduce production -v-1
    pub action: Vec<i32>,
    pub n_nts: usize,
    pub goto: Vec<u32>,
    pub prod_len: Vec<u32>,
    pub prod_nt: Vec<u32>,
    pub prod_is_start: Vec<bool>,
    /// production belongs to a nonterminal reachable from the start symbol
    pub prod_reachable: Vec<bool>,
    pub prods: Vec<ProdInfo>,
    /// display names of this grammar's terminals
    pub terminal_names: Vec<String>,
}

pub fn terminal_names(g: &r::Grammar) -> Vec<String> {
    g.terminals.all.iter().map(|t| t.to_string()).collect()
}

impl Tables {
    /// Re-index the terminal columns: `vocab` maps a terminal display name to its new column;
    /// the new table has `vocab.len() + 1` columns (EOF last).  Terminals of `vocab` this
    /// grammar does not have get an all-error column.
    pub fn remap(&mut self, vocab: &BTreeMap<String, usize>) {
        let old_cols = self.n_cols;
        let new_cols = vocab.len() + 1;
        let mut action = vec![0i32; self.n_states * new_cols];
        for (old, name) in self.terminal_names.iter().enumerate() {
            let new = vocab[name];
            for s in 0..self.n_states {
                action[s * new_cols + new] = self.action[s * old_cols + old];
            }
        }
        for s in 0..self.n_states {
            action[s * new_cols + new_cols - 1] = self.action[s * old_cols + old_cols - 1];
        }
        self.action = action;
        self.n_cols = new_cols;
    }
}

/// Tables with the grammar's own terminal numbering (`grammar.terminals.all` order, EOF last).
pub fn tables(g: &r::Grammar, user_nt: &str) -> Result<Tables, String> {
    let vocab: BTreeMap<String, usize> = terminal_names(g)
        .into_iter()
        .enumerate()
        .map(|(i, n)| (n, i))
        .collect();
    let vocab = &vocab;
    with_states(g, user_nt, |start_nt, states| {
        let n_cols = vocab.len() + 1;
        let eof_col = vocab.len();
        let n_states = states.len();
        // productions
        let mut prods: Vec<ProdInfo> = Vec::new();
        let mut prod_index: HashMap<*const r::Production, usize> = HashMap::new();
        let nt_names: Vec<&r::NonterminalString> = g.nonterminals.keys().collect();
        let nt_index: BTreeMap<&r::NonterminalString, usize> =
            nt_names.iter().enumerate().map(|(i, n)| (*n, i)).collect();
        let mut prod_len = Vec::new();
        let mut prod_nt = Vec::new();
        let mut prod_is_start = Vec::new();
        for data in g.nonterminals.values() {
            for p in &data.productions {
                prod_index.insert(p as *const r::Production, prods.len());
                prods.push(ProdInfo {
                    nonterminal: p.nonterminal.to_string(),
                    symbols: p.symbols.iter().map(|s| s.to_string()).collect(),
                    action: p.action.index(),
                });
                prod_len.push(p.symbols.len() as u32);
                prod_nt.push(nt_index[&p.nonterminal] as u32);
                prod_is_start.push(p.nonterminal == *start_nt);
            }
        }
        // nonterminals reachable from the start symbol (inlined helpers and the other public
        // symbols stay in `grammar.nonterminals` but are not part of this automaton)
        let mut reach: BTreeSet<r::NonterminalString> = BTreeSet::new();
        let mut work = vec![start_nt.clone()];
        while let Some(nt) = work.pop() {
            if !reach.insert(nt.clone()) {
                continue;
            }
            for p in g.productions_for(&nt) {
                for s in &p.symbols {
                    if let r::Symbol::Nonterminal(n) = s {
                        work.push(n.clone());
                    }
                }
            }
        }
        let prod_reachable: Vec<bool> = g
            .nonterminals
            .values()
            .flat_map(|d| d.productions.iter())
            .map(|p| reach.contains(&p.nonterminal))
            .collect();
        let n_nts = nt_names.len();
        let mut action = vec![0i32; n_states * n_cols];
        let mut goto = vec![NO_GOTO; n_states * n_nts];
        let mut seen_states: BTreeSet<usize> = BTreeSet::new();
        for st in states {
            let s = st.index.0;
            assert!(seen_states.insert(s));
            for (t, to) in &st.shifts {
                let col = vocab[&t.to_string()];
                let cell = &mut action[s * n_cols + col];
                assert_eq!(*cell, 0, "shift/shift clash in state {}", s);
                *cell = to.0 as i32 + 1;
            }
            for (la, prod) in &st.reductions {
                let p = *prod_index
                    .get(&(*prod as *const r::Production))
                    .expect("reduction of a production that is not in the grammar");
                for tok in la.iter() {
                    let col = match tok {
                        Token::EOF => eof_col,
                        Token::Error => match vocab.get("error") {
                            Some(c) => *c,
                            None => continue,
                        },
                        Token::Terminal(ref t) => vocab[&t.to_string()],
                    };
                    let cell = &mut action[s * n_cols + col];
                    assert_eq!(*cell, 0, "unexpected conflict in state {} on column {}", s, col);
                    *cell = -(p as i32) - 1;
                }
            }
            for (nt, to) in &st.gotos {
                goto[s * n_nts + nt_index[nt]] = to.0 as u32;
            }
        }
        Tables {
            n_states,
            n_cols,
            action,
            n_nts,
            goto,
            prod_len,
            prod_nt,
            prod_is_start,
            prod_reachable,
            prods,
            terminal_names: terminal_names(g),
        }
    })
}
