//! `lfcheck`: does leftmost-first matching of one pattern give the longest match?
//!
//! The generated lexer (`lalrpop_util::lexer::Matcher`) calls `regex::Regex::find` once per
//! pattern on `^(<pattern>)` and keeps the longest of the per-pattern results.  The `regex` crate
//! implements *leftmost-first* (Perl-like, priority ordered) semantics, so the per-pattern result
//! is the longest match of that pattern only if no higher-priority alternative "steals" a shorter
//! match (`(in|out|inout)` on `inout` gives `in`).  This module decides that question exactly for
//! one pattern:
//!
//! 1. the pattern is parsed like lalrpop does, printed back (`runtime_regex`) and re-parsed with
//!    regex-syntax 0.6 default flags - this is the `Hir` the `regex` crate compiles at run time;
//! 2. the `Hir` is lowered to a Thompson NFA over Unicode scalar ranges whose splits are ordered
//!    exactly like `regex` 1.7's `compile.rs` orders them;
//! 3. the *cut* automaton (Pike VM: ordered thread list, threads after a `Match` thread dropped) and
//!    the *plain* subset automaton are explored in lock step, breadth-first, over a partition of
//!    the alphabet on which every character class of the pattern is uniform;
//! 4. leftmost-first == longest for every input  <=>  no reachable product state in which the plain
//!    automaton accepts and the cut configuration does not.  The shortest path to such a state is
//!    the witness.
//!
//! `selftest` validates model and verdict against the real `regex` crate.

use crate::dfa::{self, PatternKind};
use regex_syntax::hir::{self, Hir, HirKind};
use serde_json::{json, Value};
use std::collections::{BTreeMap, BTreeSet, HashMap, VecDeque};

const MAX_NFA_STATES: usize = 200_000;
const MAX_PRODUCT_STATES: usize = 2_000_000;

// ---------------------------------------------------------------------------------------------
// NFA
// ---------------------------------------------------------------------------------------------

#[derive(Clone, Debug)]
enum St {
    /// consume one scalar value of character class `class`, go to `next`
    Char { class: usize, next: usize },
    /// epsilon transitions in priority order (first = preferred)
    Split(Vec<usize>),
    Match,
}

pub struct Nfa {
    states: Vec<St>,
    start: usize,
    /// alphabet partition: symbols on which all classes are uniform
    syms: Vec<Sym>,
}

struct Sym {
    /// representative character (used for witnesses)
    rep: char,
    ranges: Vec<(u32, u32)>,
    /// member[class id] = the symbol lies inside that class
    member: Vec<bool>,
}

struct Builder {
    states: Vec<St>,
    classes: Vec<Vec<(u32, u32)>>,
    class_ids: HashMap<Vec<(u32, u32)>, usize>,
}

impl Builder {
    fn push(&mut self, st: St) -> Result<usize, String> {
        if self.states.len() >= MAX_NFA_STATES {
            return Err(format!(
                "pattern too large: more than {} NFA states after unrolling",
                MAX_NFA_STATES
            ));
        }
        self.states.push(st);
        Ok(self.states.len() - 1)
    }

    fn class(&mut self, ranges: Vec<(u32, u32)>) -> usize {
        // a range such as \0-\u{10FFFF} spans the surrogate block numerically: cut it out so
        // that every range (and later every alphabet symbol) only holds scalar values
        let mut clean: Vec<(u32, u32)> = Vec::with_capacity(ranges.len());
        for (lo, hi) in ranges {
            if hi < 0xD800 || lo > 0xDFFF {
                clean.push((lo, hi));
                continue;
            }
            if lo < 0xD800 {
                clean.push((lo, 0xD7FF));
            }
            if hi > 0xDFFF {
                clean.push((0xE000, hi));
            }
        }
        let ranges = clean;
        if let Some(&id) = self.class_ids.get(&ranges) {
            return id;
        }
        let id = self.classes.len();
        self.classes.push(ranges.clone());
        self.class_ids.insert(ranges, id);
        id
    }

    fn ch(&mut self, ranges: Vec<(u32, u32)>, next: usize) -> Result<usize, String> {
        let class = self.class(ranges);
        self.push(St::Char { class, next })
    }

    /// `[then, otherwise]` ordered by greediness
    fn order(greedy: bool, body: usize, exit: usize) -> Vec<usize> {
        if greedy {
            vec![body, exit]
        } else {
            vec![exit, body]
        }
    }

    /// Compile `h` so that it continues to `next`; returns the entry state.
    fn c(&mut self, h: &Hir, next: usize) -> Result<usize, String> {
        match h.kind() {
            HirKind::Empty => Ok(next),
            HirKind::Literal(hir::Literal::Unicode(c)) => {
                let c = *c as u32;
                self.ch(vec![(c, c)], next)
            }
            HirKind::Literal(hir::Literal::Byte(b)) => {
                if *b < 0x80 {
                    self.ch(vec![(*b as u32, *b as u32)], next)
                } else {
                    Err(format!("unsupported: non-ASCII byte literal \\x{:02X}", b))
                }
            }
            HirKind::Class(hir::Class::Unicode(cls)) => {
                let ranges: Vec<(u32, u32)> = cls
                    .ranges()
                    .iter()
                    .map(|r| (r.start() as u32, r.end() as u32))
                    .collect();
                self.ch(ranges, next)
            }
            HirKind::Class(hir::Class::Bytes(cls)) => {
                if !cls.is_all_ascii() {
                    return Err("unsupported: byte class with non-ASCII bytes".to_string());
                }
                let ranges: Vec<(u32, u32)> = cls
                    .ranges()
                    .iter()
                    .map(|r| (r.start() as u32, r.end() as u32))
                    .collect();
                self.ch(ranges, next)
            }
            HirKind::Anchor(a) => Err(format!(
                "unsupported: anchor {:?} inside the pattern (only the implicit leading ^ is modelled)",
                a
            )),
            HirKind::WordBoundary(w) => Err(format!("unsupported: word boundary {:?}", w)),
            HirKind::Group(g) => self.c(&g.hir, next),
            HirKind::Concat(items) => {
                let mut cur = next;
                for item in items.iter().rev() {
                    cur = self.c(item, cur)?;
                }
                Ok(cur)
            }
            HirKind::Alternation(items) => {
                let mut entries = Vec::with_capacity(items.len());
                for item in items {
                    entries.push(self.c(item, next)?);
                }
                self.push(St::Split(entries))
            }
            HirKind::Repetition(rep) => {
                use hir::RepetitionKind as K;
                use hir::RepetitionRange as R;
                match &rep.kind {
                    K::ZeroOrOne => {
                        let body = self.c(&rep.hir, next)?;
                        self.push(St::Split(Self::order(rep.greedy, body, next)))
                    }
                    K::ZeroOrMore => self.star(&rep.hir, rep.greedy, next),
                    K::OneOrMore => {
                        let split = self.push(St::Split(Vec::new()))?;
                        let body = self.c(&rep.hir, split)?;
                        self.states[split] = St::Split(Self::order(rep.greedy, body, next));
                        Ok(body)
                    }
                    K::Range(R::Exactly(n)) => self.copies(&rep.hir, *n, next),
                    K::Range(R::AtLeast(n)) => {
                        let star = self.star(&rep.hir, rep.greedy, next)?;
                        self.copies(&rep.hir, *n, star)
                    }
                    K::Range(R::Bounded(m, n)) => {
                        if m > n {
                            return Err("invalid repetition range".to_string());
                        }
                        // regex 1.7 compiles x{m,n} as  x..x (x (x (x)?)?)?  : every `?` exits
                        // to the same continuation
                        let mut cur = next;
                        for _ in *m..*n {
                            let body = self.c(&rep.hir, cur)?;
                            cur = self.push(St::Split(Self::order(rep.greedy, body, next)))?;
                        }
                        self.copies(&rep.hir, *m, cur)
                    }
                }
            }
        }
    }

    fn star(&mut self, body: &Hir, greedy: bool, next: usize) -> Result<usize, String> {
        let split = self.push(St::Split(Vec::new()))?;
        let entry = self.c(body, split)?;
        self.states[split] = St::Split(Self::order(greedy, entry, next));
        Ok(split)
    }

    fn copies(&mut self, body: &Hir, n: u32, next: usize) -> Result<usize, String> {
        let mut cur = next;
        for _ in 0..n {
            cur = self.c(body, cur)?;
        }
        Ok(cur)
    }
}

fn pick_rep(ranges: &[(u32, u32)]) -> char {
    let inside = |c: u32| ranges.iter().any(|&(lo, hi)| lo <= c && c <= hi);
    let prefs: [(u32, u32); 5] = [
        ('a' as u32, 'z' as u32),
        ('A' as u32, 'Z' as u32),
        ('0' as u32, '9' as u32),
        (0x21, 0x7E),
        (0x20, 0x20),
    ];
    for &(lo, hi) in &prefs {
        for c in lo..=hi {
            if inside(c) {
                return char::from_u32(c).unwrap();
            }
        }
    }
    char::from_u32(ranges[0].0).expect("class ranges never start inside the surrogate block")
}

/// Partition of the alphabet: maximal sets of scalar values that belong to exactly the same
/// character classes (values in no class at all are left out: they kill every thread).
fn alphabet(classes: &[Vec<(u32, u32)>]) -> Vec<Sym> {
    // boundary -> (classes starting here, classes ending before here)
    let mut events: BTreeMap<u32, (Vec<usize>, Vec<usize>)> = BTreeMap::new();
    for (id, ranges) in classes.iter().enumerate() {
        for &(lo, hi) in ranges {
            events.entry(lo).or_default().0.push(id);
            events.entry(hi + 1).or_default().1.push(id);
        }
    }
    let mut active: BTreeSet<usize> = BTreeSet::new();
    let mut groups: BTreeMap<Vec<usize>, Vec<(u32, u32)>> = BTreeMap::new();
    let bounds: Vec<u32> = events.keys().cloned().collect();
    for (i, b) in bounds.iter().enumerate() {
        let (adds, removes) = &events[b];
        for r in removes {
            active.remove(r);
        }
        for a in adds {
            active.insert(*a);
        }
        if active.is_empty() || i + 1 >= bounds.len() {
            continue;
        }
        let lo = *b;
        let hi = bounds[i + 1] - 1;
        let key: Vec<usize> = active.iter().cloned().collect();
        let list = groups.entry(key).or_default();
        match list.last_mut() {
            Some(last) if last.1 + 1 == lo => last.1 = hi,
            _ => list.push((lo, hi)),
        }
    }
    let mut syms: Vec<Sym> = groups
        .into_iter()
        .map(|(key, ranges)| {
            let mut member = vec![false; classes.len()];
            for k in key {
                member[k] = true;
            }
            Sym {
                rep: pick_rep(&ranges),
                ranges,
                member,
            }
        })
        .collect();
    syms.sort_by_key(|s| s.ranges[0].0);
    syms
}

/// What the `regex` crate sees at run time: the pattern parsed by lalrpop, printed back and
/// parsed again with default flags.  Returns (printed inner pattern, Hir of it).
pub fn runtime_hir(kind: PatternKind, pattern: &str) -> Result<(String, Hir), String> {
    let first = dfa::parse_pattern(kind, pattern)?;
    let printed = format!("{}", first);
    let second = regex_syntax::Parser::new()
        .parse(&printed)
        .map_err(|e| format!("printed pattern does not re-parse: {}", e))?;
    Ok((printed, second))
}

impl Nfa {
    pub fn from_hir(h: &Hir) -> Result<Nfa, String> {
        let mut b = Builder {
            states: Vec::new(),
            classes: Vec::new(),
            class_ids: HashMap::new(),
        };
        let m = b.push(St::Match)?;
        let start = b.c(h, m)?;
        let syms = alphabet(&b.classes);
        Ok(Nfa {
            states: b.states,
            start,
            syms,
        })
    }

    fn sym_of(&self, c: char) -> Option<usize> {
        let c = c as u32;
        self.syms
            .iter()
            .position(|s| s.ranges.iter().any(|&(lo, hi)| lo <= c && c <= hi))
    }

    /// Priority-ordered epsilon closure of `from`, appended to `out` (Char and Match states only).
    /// `seen` is shared by all closures of one step, so only the first occurrence of a state
    /// survives - exactly the sparse-set test of the Pike VM's `add`.
    fn closure(&self, from: usize, seen: &mut Stamp, out: &mut Vec<usize>) {
        let mut stack = vec![from];
        while let Some(s) = stack.pop() {
            if !seen.insert(s) {
                continue;
            }
            match &self.states[s] {
                St::Split(targets) => stack.extend(targets.iter().rev().cloned()),
                _ => out.push(s),
            }
        }
    }

    fn is_match(&self, s: usize) -> bool {
        matches!(self.states[s], St::Match)
    }

    /// Drop every thread after the first Match thread.
    fn cut(&self, cfg: &mut Vec<usize>) {
        if let Some(p) = cfg.iter().position(|&s| self.is_match(s)) {
            cfg.truncate(p + 1);
        }
    }

    fn accepts(&self, cfg: &[usize]) -> bool {
        cfg.iter().any(|&s| self.is_match(s))
    }

    fn start_cut(&self, seen: &mut Stamp) -> Vec<usize> {
        seen.clear();
        let mut cfg = Vec::new();
        self.closure(self.start, seen, &mut cfg);
        self.cut(&mut cfg);
        cfg
    }

    fn start_plain(&self, seen: &mut Stamp) -> Vec<usize> {
        seen.clear();
        let mut cfg = Vec::new();
        self.closure(self.start, seen, &mut cfg);
        cfg.sort_unstable();
        cfg
    }

    /// One step of either automaton; `ordered` = cut semantics, else plain subset semantics.
    fn step(&self, cfg: &[usize], sym: usize, ordered: bool, seen: &mut Stamp) -> Vec<usize> {
        seen.clear();
        let member = &self.syms[sym].member;
        let mut out = Vec::new();
        for &s in cfg {
            if let St::Char { class, next } = self.states[s] {
                if member[class] {
                    self.closure(next, seen, &mut out);
                }
            }
        }
        if ordered {
            self.cut(&mut out);
        } else {
            out.sort_unstable();
        }
        out
    }

    /// (leftmost-first match length, longest match length) of the model on `text`, in chars.
    pub fn simulate(&self, text: &str) -> (Option<usize>, Option<usize>) {
        let mut seen = Stamp::new(self.states.len());
        let mut cutc = self.start_cut(&mut seen);
        let mut plain = self.start_plain(&mut seen);
        let mut lf = if self.accepts(&cutc) { Some(0) } else { None };
        let mut longest = if self.accepts(&plain) { Some(0) } else { None };
        for (i, ch) in text.chars().enumerate() {
            let sym = match self.sym_of(ch) {
                Some(s) => s,
                None => break,
            };
            if plain.is_empty() {
                break;
            }
            cutc = self.step(&cutc, sym, true, &mut seen);
            plain = self.step(&plain, sym, false, &mut seen);
            if self.accepts(&cutc) {
                lf = Some(i + 1);
            }
            if self.accepts(&plain) {
                longest = Some(i + 1);
            }
        }
        (lf, longest)
    }
}

/// Generation-stamped "visited" set.
struct Stamp {
    marks: Vec<u32>,
    gen: u32,
}

impl Stamp {
    fn new(n: usize) -> Stamp {
        Stamp {
            marks: vec![0; n],
            gen: 0,
        }
    }
    fn clear(&mut self) {
        self.gen = self.gen.wrapping_add(1);
        if self.gen == 0 {
            for m in self.marks.iter_mut() {
                *m = 0;
            }
            self.gen = 1;
        }
    }
    /// true if newly inserted
    fn insert(&mut self, i: usize) -> bool {
        if self.marks[i] == self.gen {
            false
        } else {
            self.marks[i] = self.gen;
            true
        }
    }
}

// ---------------------------------------------------------------------------------------------
// product exploration
// ---------------------------------------------------------------------------------------------

/// Lazily determinised automaton: interned configurations + memoised transitions.
struct Lazy {
    ids: HashMap<Vec<usize>, usize>,
    cfgs: Vec<Vec<usize>>,
    accept: Vec<bool>,
    trans: Vec<Vec<Option<usize>>>,
    ordered: bool,
}

impl Lazy {
    fn new(ordered: bool) -> Lazy {
        Lazy {
            ids: HashMap::new(),
            cfgs: Vec::new(),
            accept: Vec::new(),
            trans: Vec::new(),
            ordered,
        }
    }
    fn intern(&mut self, nfa: &Nfa, cfg: Vec<usize>) -> usize {
        if let Some(&id) = self.ids.get(&cfg) {
            return id;
        }
        let id = self.cfgs.len();
        self.accept.push(nfa.accepts(&cfg));
        self.trans.push(vec![None; nfa.syms.len()]);
        self.ids.insert(cfg.clone(), id);
        self.cfgs.push(cfg);
        id
    }
    fn next(&mut self, nfa: &Nfa, id: usize, sym: usize, seen: &mut Stamp) -> usize {
        if let Some(t) = self.trans[id][sym] {
            return t;
        }
        let cfg = nfa.step(&self.cfgs[id], sym, self.ordered, seen);
        let t = self.intern(nfa, cfg);
        self.trans[id][sym] = Some(t);
        t
    }
}

#[derive(Clone, Debug, PartialEq, Eq)]
pub struct Verdict {
    pub equals_longest: bool,
    pub witness: Option<String>,
    pub leftmost_first_len: Option<usize>,
    pub longest_len: Option<usize>,
    pub nfa_states: usize,
    pub product_states: usize,
}

pub fn explore(nfa: &Nfa) -> Result<Verdict, String> {
    let mut seen = Stamp::new(nfa.states.len());
    let mut cutd = Lazy::new(true);
    let mut plaind = Lazy::new(false);
    let c0 = {
        let cfg = nfa.start_cut(&mut seen);
        cutd.intern(nfa, cfg)
    };
    let p0 = {
        let cfg = nfa.start_plain(&mut seen);
        plaind.intern(nfa, cfg)
    };
    // product states in discovery (= breadth-first) order, with back pointers
    let mut nodes: Vec<(usize, usize)> = vec![(c0, p0)];
    let mut parent: Vec<(usize, usize)> = vec![(usize::MAX, 0)];
    let mut index: HashMap<(usize, usize), usize> = HashMap::new();
    index.insert((c0, p0), 0);
    let mut queue: VecDeque<usize> = VecDeque::new();
    queue.push_back(0);
    let mut bad: Option<usize> = None;
    if plaind.accept[p0] && !cutd.accept[c0] {
        bad = Some(0);
    }
    'bfs: while let Some(n) = queue.pop_front() {
        if bad.is_some() {
            break;
        }
        let (c, p) = nodes[n];
        for sym in 0..nfa.syms.len() {
            let p2 = plaind.next(nfa, p, sym, &mut seen);
            if plaind.cfgs[p2].is_empty() {
                continue; // dead for both (cut threads are a subset of the plain ones)
            }
            let c2 = cutd.next(nfa, c, sym, &mut seen);
            if index.contains_key(&(c2, p2)) {
                continue;
            }
            if nodes.len() >= MAX_PRODUCT_STATES {
                return Err(format!(
                    "product automaton has more than {} states",
                    MAX_PRODUCT_STATES
                ));
            }
            let id = nodes.len();
            nodes.push((c2, p2));
            parent.push((n, sym));
            index.insert((c2, p2), id);
            if plaind.accept[p2] && !cutd.accept[c2] {
                bad = Some(id);
                break 'bfs;
            }
            queue.push_back(id);
        }
    }
    match bad {
        None => Ok(Verdict {
            equals_longest: true,
            witness: None,
            leftmost_first_len: None,
            longest_len: None,
            nfa_states: nfa.states.len(),
            product_states: nodes.len(),
        }),
        Some(mut n) => {
            let mut chars = Vec::new();
            while parent[n].0 != usize::MAX {
                chars.push(nfa.syms[parent[n].1].rep);
                n = parent[n].0;
            }
            chars.reverse();
            let witness: String = chars.into_iter().collect();
            let (lf, longest) = nfa.simulate(&witness);
            debug_assert_eq!(longest, Some(witness.chars().count()));
            Ok(Verdict {
                equals_longest: false,
                leftmost_first_len: lf,
                longest_len: Some(witness.chars().count()),
                witness: Some(witness),
                nfa_states: nfa.states.len(),
                product_states: nodes.len(),
            })
        }
    }
}

/// Full determinisation of the plain (`ordered == false`) or cut (`ordered == true`) automaton
/// as a canonical `dfa::Dfa` (minimised and renumbered like every exported `dfa`).
fn det_dfa(nfa: &Nfa, ordered: bool) -> Result<dfa::Dfa, String> {
    let mut seen = Stamp::new(nfa.states.len());
    let mut lazy = Lazy::new(ordered);
    let start = {
        let cfg = if ordered {
            nfa.start_cut(&mut seen)
        } else {
            nfa.start_plain(&mut seen)
        };
        lazy.intern(nfa, cfg)
    };
    let mut states: Vec<dfa::DfaState> = Vec::new();
    let mut done = 0;
    while done < lazy.cfgs.len() {
        if lazy.cfgs.len() > MAX_PRODUCT_STATES {
            return Err(format!(
                "determinised automaton has more than {} states",
                MAX_PRODUCT_STATES
            ));
        }
        let mut edges: Vec<(u32, u32, usize)> = Vec::new();
        for sym in 0..nfa.syms.len() {
            let t = lazy.next(nfa, done, sym, &mut seen);
            if lazy.cfgs[t].is_empty() {
                continue;
            }
            for &(lo, hi) in &nfa.syms[sym].ranges {
                edges.push((lo, hi, t));
            }
        }
        edges.sort();
        states.push(dfa::DfaState {
            accept: lazy.accept[done],
            edges,
        });
        done += 1;
    }
    // the empty configuration (if interned) has no edges to it: unreachable, removed by minimize
    Ok(dfa::minimize(&dfa::Dfa { start, states }))
}

/// The plain subset automaton (language L of the pattern), so the language of this module's NFA
/// can be compared with lalrpop's own construction.
pub fn plain_dfa(nfa: &Nfa) -> Result<dfa::Dfa, String> {
    det_dfa(nfa, false)
}

/// DFA of B = { w : the cut automaton accepts after consuming w } = the strings on which the
/// anchored leftmost-first `find` returns the whole input.  The configuration of the cut automaton
/// depends only on the consumed prefix and the leftmost-first match end is the last position at
/// which it accepts, so on any text the run-time match of the pattern is the longest prefix in B.
pub fn lf_dfa(nfa: &Nfa) -> Result<dfa::Dfa, String> {
    det_dfa(nfa, true)
}

/// `lf_dfa` for a pattern (used by `regex2dfa --leftmost-first` and `facts`).
pub fn build_lf_dfa(kind: PatternKind, pattern: &str) -> Result<dfa::Dfa, String> {
    let (_, h) = runtime_hir(kind, pattern)?;
    let nfa = Nfa::from_hir(&h)?;
    lf_dfa(&nfa)
}

pub fn check(kind: PatternKind, pattern: &str) -> Result<Verdict, String> {
    let (_, h) = runtime_hir(kind, pattern)?;
    let nfa = Nfa::from_hir(&h)?;
    explore(&nfa)
}

/// The `leftmost_first` object of the `facts` output.
pub fn facts_json(kind: PatternKind, pattern: &str) -> Value {
    match check(kind, pattern) {
        Ok(v) => json!({
            "equals_longest": v.equals_longest,
            "witness": v.witness,
            "leftmost_first_len": v.leftmost_first_len,
            "longest_len": v.longest_len,
        }),
        Err(e) => json!({
            "equals_longest": Value::Null,
            "witness": Value::Null,
            "leftmost_first_len": Value::Null,
            "longest_len": Value::Null,
            "error": e,
        }),
    }
}

/// One element of the `lfcheck` output.
pub fn check_json(kind: PatternKind, pattern: &str) -> Result<Value, String> {
    let (printed, h) = runtime_hir(kind, pattern)?;
    let nfa = Nfa::from_hir(&h)?;
    let v = explore(&nfa)?;
    let lf = lf_dfa(&nfa)?;
    Ok(json!({
        "pattern": pattern,
        "kind": kind.as_str(),
        "runtime_regex": format!("^({})", printed),
        "equals_longest": v.equals_longest,
        "witness": v.witness,
        "leftmost_first_len": v.leftmost_first_len,
        "longest_len": v.longest_len,
        "nfa_states": v.nfa_states,
        "product_states": v.product_states,
        "lf_dfa": lf.to_json(),
    }))
}

// ---------------------------------------------------------------------------------------------
// validation against the real `regex` crate
// ---------------------------------------------------------------------------------------------

struct Rng(u64);

impl Rng {
    fn new(seed: &str) -> Rng {
        // FNV-1a of the pattern: deterministic per pattern
        let mut h: u64 = 0xcbf29ce484222325;
        for b in seed.bytes() {
            h ^= b as u64;
            h = h.wrapping_mul(0x100000001b3);
        }
        Rng(h | 1)
    }
    fn next(&mut self) -> u64 {
        // xorshift64*
        let mut x = self.0;
        x ^= x >> 12;
        x ^= x << 25;
        x ^= x >> 27;
        self.0 = x;
        x.wrapping_mul(0x2545F4914F6CDD1D)
    }
    fn below(&mut self, n: usize) -> usize {
        (self.next() % (n as u64)) as usize
    }
}

/// Longest prefix (in bytes) of `text` accepted by the exported DFA.
fn dfa_longest_prefix(d: &dfa::Dfa, text: &str) -> Option<usize> {
    let mut cur = d.start;
    let mut best = if d.states[cur].accept { Some(0) } else { None };
    for (off, ch) in text.char_indices() {
        let c = ch as u32;
        match d.states[cur].edges.iter().find(|e| e.0 <= c && c <= e.1) {
            Some(e) => cur = e.2,
            None => break,
        }
        if d.states[cur].accept {
            best = Some(off + ch.len_utf8());
        }
    }
    best
}

fn char_len_to_bytes(text: &str, chars: Option<usize>) -> Option<usize> {
    chars.map(|n| text.chars().take(n).map(|c| c.len_utf8()).sum())
}

/// Test strings for one pattern: every string over a small alphabet (class representatives, the
/// last scalar value of each class, one foreign character) up to the length that keeps the count
/// near `budget`, then `budget` pseudo-random strings, most of them walks along the DFA.
fn test_strings(nfa: &Nfa, d: &dfa::Dfa, seed: &str, budget: usize) -> Vec<String> {
    let mut alpha: Vec<char> = Vec::new();
    for s in &nfa.syms {
        alpha.push(s.rep);
    }
    let mut extra: Vec<char> = Vec::new();
    for s in &nfa.syms {
        if let Some(c) = char::from_u32(s.ranges.last().unwrap().1) {
            extra.push(c);
        }
        if let Some(c) = char::from_u32(s.ranges[0].0) {
            extra.push(c);
        }
    }
    for c in ['\u{0}', '!', '~', ' ', '\n', 'q', 'Q', '7', 'é', '\u{10FFFF}'] {
        if nfa.sym_of(c).is_none() {
            extra.push(c);
            break;
        }
    }
    let mut full = alpha.clone();
    for c in extra {
        if !full.contains(&c) {
            full.push(c);
        }
    }
    let mut out: Vec<String> = vec![String::new()];
    // exhaustive part over the representatives (+ extras while the alphabet stays small)
    let enum_alpha: &[char] = if full.len() <= 12 { &full } else { &alpha };
    if !enum_alpha.is_empty() {
        let mut level: Vec<String> = vec![String::new()];
        let mut total = 1usize;
        loop {
            let next_count = level.len().saturating_mul(enum_alpha.len());
            if total + next_count > budget.max(enum_alpha.len() + 1) {
                break;
            }
            let mut next = Vec::with_capacity(next_count);
            for s in &level {
                for &c in enum_alpha {
                    let mut t = s.clone();
                    t.push(c);
                    next.push(t);
                }
            }
            total += next.len();
            out.extend(next.iter().cloned());
            level = next;
            if level.is_empty() || level[0].chars().count() >= 12 {
                break;
            }
        }
    }
    // random part
    let mut rng = Rng::new(seed);
    if !full.is_empty() {
        for i in 0..budget {
            let max_len = 1 + rng.below(24);
            let mut s = String::new();
            let mut cur = Some(d.start);
            let walk = i % 4 != 0; // 3/4 DFA walks, 1/4 uniform over the alphabet
            for _ in 0..max_len {
                let noise = !walk || rng.below(8) == 0;
                let ch = match (cur, noise) {
                    (Some(st), false) if !d.states[st].edges.is_empty() => {
                        let e = d.states[st].edges[rng.below(d.states[st].edges.len())];
                        let cand = [
                            e.0,
                            e.1,
                            e.0 + ((rng.next() % ((e.1 - e.0) as u64 + 1)) as u32),
                            pick_rep(&[(e.0, e.1)]) as u32,
                        ];
                        char::from_u32(cand[rng.below(4)]).unwrap_or(full[0])
                    }
                    _ => full[rng.below(full.len())],
                };
                s.push(ch);
                cur = cur.and_then(|st| {
                    let c = ch as u32;
                    d.states[st]
                        .edges
                        .iter()
                        .find(|e| e.0 <= c && c <= e.1)
                        .map(|e| e.2)
                });
                if cur.is_none() && walk && rng.below(3) == 0 {
                    break;
                }
            }
            out.push(s);
        }
    }
    out
}

/// Validate model and verdict of one pattern against `regex::Regex`.  Returns a report; the
/// `ok` field is false (and `failures` non-empty) on any disagreement.
pub fn selftest(kind: PatternKind, pattern: &str, budget: usize) -> Result<Value, String> {
    let (printed, h) = runtime_hir(kind, pattern)?;
    let nfa = Nfa::from_hir(&h)?;
    let v = explore(&nfa)?;
    // reference for "longest": the exported (lalrpop-built) DFA; lalrpop's NFA rejects lazy
    // operators, then this module's own subset automaton is the only reference
    let own = plain_dfa(&nfa)?;
    let (d, dfa_source, language_equal) = match dfa::build(kind, pattern) {
        Ok(d) => {
            let eq = d == own;
            (d, "lalrpop".to_string(), json!(eq))
        }
        Err(e) => (own, format!("own subset construction (lalrpop: {})", e), Value::Null),
    };
    let lf_d = lf_dfa(&nfa)?;
    let runtime = format!("^({})", printed);
    let re = regex::Regex::new(&runtime).map_err(|e| format!("regex crate rejects {}: {}", runtime, e))?;
    let full = regex::Regex::new(&format!("^(?:{})$", printed))
        .map_err(|e| format!("regex crate rejects anchored form: {}", e))?;
    let mut failures: Vec<String> = Vec::new();
    let fail = |failures: &mut Vec<String>, msg: String| {
        if failures.len() < 10 {
            failures.push(msg);
        }
    };

    if language_equal == json!(false) {
        fail(
            &mut failures,
            "language of the ordered NFA differs from the exported DFA".to_string(),
        );
    }

    // lf_dfa == dfa (as exported JSON text) exactly when the verdict is "equal"
    let lf_same = serde_json::to_string(&lf_d.to_json()).unwrap()
        == serde_json::to_string(&d.to_json()).unwrap();
    if lf_same != v.equals_longest {
        fail(
            &mut failures,
            format!(
                "lf_dfa {} dfa although equals_longest is {}",
                if lf_same { "==" } else { "!=" },
                v.equals_longest
            ),
        );
    }

    // 1. the witness, if any
    let mut witness_confirmed = Value::Null;
    let mut crate_end_on_witness = Value::Null;
    if let Some(w) = &v.witness {
        let end = re.find(w).map(|m| m.end());
        crate_end_on_witness = json!(end);
        let shorter = end.map_or(true, |e| e < w.len());
        let whole = full.is_match(w);
        let lf_bytes = char_len_to_bytes(w, v.leftmost_first_len);
        let ok = shorter && whole && end == lf_bytes && d.accepts(w);
        witness_confirmed = json!(ok);
        if !ok {
            fail(
                &mut failures,
                format!(
                    "witness {:?}: crate find end {:?} (model {:?}), ^(?:p)$ is_match {}, dfa accepts {}",
                    w,
                    end,
                    lf_bytes,
                    whole,
                    d.accepts(w)
                ),
            );
        }
    }

    // 2. many strings: crate == model leftmost-first; model longest == DFA; and if the verdict
    //    is "equal": crate == DFA longest prefix
    let strings = test_strings(&nfa, &d, pattern, budget);
    let mut shorter_than_longest = 0usize;
    let mut matched = 0usize;
    let mut in_b = 0usize;
    for s in &strings {
        let m = re.find(s);
        if let Some(m) = &m {
            if m.start() != 0 {
                fail(&mut failures, format!("{:?}: crate match starts at {}", s, m.start()));
            }
        }
        let crate_end = m.map(|m| m.end());
        let (lf, longest) = nfa.simulate(s);
        let lf_b = char_len_to_bytes(s, lf);
        let longest_b = char_len_to_bytes(s, longest);
        let dfa_b = dfa_longest_prefix(&d, s);
        if crate_end.is_some() {
            matched += 1;
        }
        if crate_end != lf_b {
            fail(
                &mut failures,
                format!("{:?}: crate find end {:?} but model leftmost-first {:?}", s, crate_end, lf_b),
            );
        }
        let whole = crate_end == Some(s.len());
        if lf_d.accepts(s) != whole {
            fail(
                &mut failures,
                format!(
                    "{:?}: lf_dfa accepts = {} but crate find end {:?} (len {})",
                    s,
                    lf_d.accepts(s),
                    crate_end,
                    s.len()
                ),
            );
        }
        if whole {
            in_b += 1;
        }
        if dfa_longest_prefix(&lf_d, s) != crate_end {
            fail(
                &mut failures,
                format!(
                    "{:?}: longest prefix in lf_dfa {:?} but crate find end {:?}",
                    s,
                    dfa_longest_prefix(&lf_d, s),
                    crate_end
                ),
            );
        }
        if longest_b != dfa_b {
            fail(
                &mut failures,
                format!("{:?}: model longest {:?} but exported DFA longest prefix {:?}", s, longest_b, dfa_b),
            );
        }
        if crate_end != dfa_b {
            shorter_than_longest += 1;
            if v.equals_longest {
                fail(
                    &mut failures,
                    format!(
                        "{:?}: verdict is equal but crate find end {:?} != DFA longest prefix {:?}",
                        s, crate_end, dfa_b
                    ),
                );
            }
        }
    }
    Ok(json!({
        "pattern": pattern,
        "kind": kind.as_str(),
        "runtime_regex": runtime,
        "equals_longest": v.equals_longest,
        "witness": v.witness,
        "leftmost_first_len": v.leftmost_first_len,
        "longest_len": v.longest_len,
        "witness_confirmed_by_regex_crate": witness_confirmed,
        "regex_crate_find_end_on_witness": crate_end_on_witness,
        "longest_reference": dfa_source,
        "nfa_language_equals_exported_dfa": language_equal,
        "strings_checked": strings.len(),
        "strings_matched": matched,
        "strings_matched_whole": in_b,
        "lf_dfa_equals_dfa": lf_same,
        "lf_dfa_states": lf_d.states.len(),
        "strings_where_crate_is_shorter_than_longest": shorter_than_longest,
        "failures": failures,
        "ok": failures.is_empty(),
    }))
}

#[cfg(test)]
mod tests {
    use super::*;

    fn v(p: &str) -> Verdict {
        check(PatternKind::Regex, p).unwrap()
    }

    #[test]
    fn known_verdicts() {
        let d = v("(in|out|inout)");
        assert!(!d.equals_longest);
        assert_eq!(d.witness.as_deref(), Some("inout"));
        assert_eq!(d.leftmost_first_len, Some(2));
        assert_eq!(d.longest_len, Some(5));
        assert!(v("(inout|in|out)").equals_longest);
        assert!(v("[0-9]+").equals_longest);
        assert!(v("(true|false)").equals_longest);
        assert!(!v("(a|ab)(c|bcd)?").equals_longest);
        assert!(!v("a??").equals_longest);
        assert!(v(r"/\*[^*]*\*+(?:[^/*][^*]*\*+)*/").equals_longest);
        assert!(check(PatternKind::Regex, r"a\b").is_err());
        assert!(check(PatternKind::Literal, "(in|out)").unwrap().equals_longest);
        // B of (in|out|inout) = {in, out}; of (inout|in|out) = the whole language
        let b = build_lf_dfa(PatternKind::Regex, "(in|out|inout)").unwrap();
        assert!(b.accepts("in") && b.accepts("out") && !b.accepts("inout") && !b.accepts("ino"));
        assert_eq!(
            build_lf_dfa(PatternKind::Regex, "(inout|in|out)").unwrap(),
            dfa::build(PatternKind::Regex, "(inout|in|out)").unwrap()
        );
    }

    #[test]
    fn regex_crate_facts() {
        // what the real matcher does on the examples of the task description
        let end = |p: &str, t: &str| {
            regex::Regex::new(&format!("^({})", p))
                .unwrap()
                .find(t)
                .map(|m| m.end())
        };
        assert_eq!(end("(in|out|inout)", "inout"), Some(2));
        assert_eq!(end("(inout|in|out)", "inout"), Some(5));
        // `a` first, then the greedy optional group takes `bcd`: the whole text
        assert_eq!(end("(a|ab)(c|bcd)?", "abcd"), Some(4));
        assert_eq!(end("(a|ab)(c|bcd)?", "ab"), Some(1));
        assert_eq!(end("(a|ab)(c|bcd)?", "abc"), Some(1));
        assert_eq!(end("a*?b", "aaab"), Some(4));
        assert_eq!(end("a*?", "aaa"), Some(0));
        for (p, t) in [
            ("(a|ab)(c|bcd)?", "abcd"),
            ("(a|ab)(c|bcd)?", "ab"),
            ("(a|ab)(c|bcd)?", "abc"),
            ("a*?b", "aaab"),
            ("a*?", "aaa"),
        ] {
            let (_, h) = runtime_hir(PatternKind::Regex, p).unwrap();
            let nfa = Nfa::from_hir(&h).unwrap();
            assert_eq!(nfa.simulate(t).0, end(p, t), "{} on {}", p, t);
        }
    }

    fn random_pattern(rng: &mut Rng, depth: usize) -> String {
        let atoms = ["a", "b", "c", "[ab]", "[^a]", "ab", "abc", ""];
        if depth == 0 {
            return atoms[rng.below(atoms.len())].to_string();
        }
        match rng.below(8) {
            0 | 1 => {
                let n = 2 + rng.below(2);
                let parts: Vec<String> = (0..n).map(|_| random_pattern(rng, depth - 1)).collect();
                format!("(?:{})", parts.join("|"))
            }
            2 | 3 => {
                let n = 2 + rng.below(2);
                (0..n).map(|_| random_pattern(rng, depth - 1)).collect()
            }
            4 | 5 => {
                let ops = ["*", "+", "?", "*?", "+?", "??", "{2}", "{1,2}", "{0,2}?", "{1,}", "{2,}?"];
                format!("(?:{}){}", random_pattern(rng, depth - 1), ops[rng.below(ops.len())])
            }
            6 => format!("({})", random_pattern(rng, depth - 1)),
            _ => atoms[rng.below(atoms.len())].to_string(),
        }
    }

    /// Random small patterns (nested alternations, greedy and lazy repetitions, empty branches):
    /// model == regex crate on every test string, verdicts consistent, witnesses confirmed.
    #[test]
    fn fuzz_against_regex_crate() {
        let mut rng = Rng::new("lfcheck fuzz");
        let (mut n, mut unequal) = (0, 0);
        while n < 1500 {
            let p = random_pattern(&mut rng, 3);
            if regex::Regex::new(&format!("^({})", p)).is_err() {
                continue;
            }
            let r = selftest(PatternKind::Regex, &p, 400).unwrap();
            assert!(r["ok"].as_bool().unwrap(), "{}: {}", p, r);
            if r["equals_longest"] == json!(false) {
                unequal += 1;
            }
            n += 1;
        }
        eprintln!("fuzz: {} patterns, {} with leftmost-first != longest", n, unequal);
        // the generator must exercise both verdicts
        assert!(unequal > 100 && unequal < 1400, "unequal = {}", unequal);
    }

    #[test]
    fn agrees_with_regex_crate() {
        let pats = [
            "(in|out|inout)",
            "(inout|in|out)",
            "(a|ab)(c|bcd)?",
            "[0-9]+",
            "a*?b",
            "a*?",
            "(true|false)",
            r"/\*[^*]*\*+(?:[^/*][^*]*\*+)*/",
            r"[+-]?(\d*\.)?\d+[f]?",
            "(a|ab|abc){2,4}?c?",
            "(|a)*b?",
            "(a*)*",
            "(a*)+b|a",
            "(?i)ab|abc",
            "x{0,3}y|x{2}",
            r"\s*",
            r"//[^\n\r]*[\n\r]*",
        ];
        for p in pats {
            let r = selftest(PatternKind::Regex, p, 3000).unwrap();
            assert!(r["ok"].as_bool().unwrap(), "{}: {}", p, r);
        }
    }
}
