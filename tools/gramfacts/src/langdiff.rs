//! Bounded comparison of the token languages of two grammars.
//!
//! Both grammars are taken through lalrpop's front-end to the LR automaton the generator would
//! emit (`lr1::build_states`).  The exploration then simulates the two table-driven parsers in
//! lock step on every token string up to the bound, de-duplicating pairs of parser stacks.
//! Stacks are hash-consed cons lists (`node = (parent, state)`), so a stack is one `u32` and a
//! configuration pair is one `u64`.

use serde_json::{json, Map, Value};
use std::collections::{BTreeMap, BTreeSet, HashMap, HashSet};
use std::hash::{BuildHasherDefault, Hasher};
use std::time::Instant;

use crate::automata::{self, Tables, NO_GOTO};
use crate::dfa;
use crate::facts;
use crate::frontend::{self, algorithm_name, LoadOptions, Loaded};
use crate::sha256;

// ---------------------------------------------------------------------------------------------
// a fast hasher for integer keys (FxHash-style multiply-rotate)

#[derive(Default, Clone, Copy)]
pub struct FxHasher {
    h: u64,
}

const SEED: u64 = 0x51_7c_c1_b7_27_22_0a_95;

impl Hasher for FxHasher {
    #[inline]
    fn finish(&self) -> u64 {
        // final avalanche so that the low bits used by hashbrown depend on all input bits
        let mut x = self.h;
        x ^= x >> 32;
        x = x.wrapping_mul(0x9E37_79B9_7F4A_7C15);
        x ^= x >> 29;
        x
    }
    #[inline]
    fn write(&mut self, bytes: &[u8]) {
        for &b in bytes {
            self.h = (self.h.rotate_left(5) ^ b as u64).wrapping_mul(SEED);
        }
    }
    #[inline]
    fn write_u64(&mut self, i: u64) {
        self.h = (self.h.rotate_left(5) ^ i).wrapping_mul(SEED);
    }
    #[inline]
    fn write_u32(&mut self, i: u32) {
        self.write_u64(i as u64)
    }
    #[inline]
    fn write_usize(&mut self, i: usize) {
        self.write_u64(i as u64)
    }
}

type FxBuild = BuildHasherDefault<FxHasher>;
type FxMap<K, V> = HashMap<K, V, FxBuild>;
type FxSet<K> = HashSet<K, FxBuild>;

// ---------------------------------------------------------------------------------------------

pub struct Side {
    pub label: &'static str,
    pub file: String,
    pub sha256: String,
    pub algorithm: &'static str,
    pub dropped_alternatives: usize,
    pub t: Tables,
    /// sample lexeme per terminal display name
    pub samples: BTreeMap<String, String>,
    /// per production: the user/lookaround actions it (transitively) runs
    pub prod_base_actions: Vec<Vec<usize>>,
    /// all user actions reachable from a production of the normalised grammar
    pub all_user_actions: BTreeSet<usize>,
    // hash-consed stacks
    parent: Vec<u32>,
    state: Vec<u32>,
    intern: FxMap<u64, u32>,
    pub reduced: Vec<bool>,
}

#[derive(Clone, Copy, PartialEq, Eq, Debug)]
pub enum Step {
    Dead,
    Node(u32),
    Accept,
}

const ROOT: u32 = 0;

impl Side {
    fn new_stacks(&mut self) {
        self.parent = vec![u32::MAX];
        self.state = vec![0];
        self.intern = FxMap::default();
        self.reduced = vec![false; self.t.prods.len()];
    }

    #[inline]
    fn push(&mut self, parent: u32, state: u32) -> u32 {
        let key = ((parent as u64) << 32) | state as u64;
        if let Some(&n) = self.intern.get(&key) {
            return n;
        }
        let n = self.parent.len() as u32;
        assert!(n != u32::MAX, "stack node space exhausted");
        self.parent.push(parent);
        self.state.push(state);
        self.intern.insert(key, n);
        n
    }

    /// Feed one token (column `col`) to the parser whose stack is `node`.
    /// `extra` and `red` are scratch buffers; on success the productions reduced on the way are
    /// marked in `self.reduced`.
    #[inline]
    fn step(&mut self, node: u32, col: usize, extra: &mut Vec<u32>, red: &mut Vec<u32>) -> Step {
        extra.clear();
        red.clear();
        let mut base = node;
        let n_cols = self.t.n_cols;
        let n_nts = self.t.n_nts;
        loop {
            let top = match extra.last() {
                Some(&s) => s,
                None => self.state[base as usize],
            } as usize;
            let a = self.t.action[top * n_cols + col];
            if a == 0 {
                return Step::Dead;
            }
            if a > 0 {
                let mut n = base;
                for i in 0..extra.len() {
                    n = self.push(n, extra[i]);
                }
                n = self.push(n, (a - 1) as u32);
                for &p in red.iter() {
                    self.reduced[p as usize] = true;
                }
                return Step::Node(n);
            }
            let p = (-a - 1) as usize;
            red.push(p as u32);
            if self.t.prod_is_start[p] {
                for &p in red.iter() {
                    self.reduced[p as usize] = true;
                }
                return Step::Accept;
            }
            let mut len = self.t.prod_len[p] as usize;
            while len > 0 && !extra.is_empty() {
                extra.pop();
                len -= 1;
            }
            while len > 0 {
                base = self.parent[base as usize];
                debug_assert!(base != u32::MAX);
                len -= 1;
            }
            let top2 = match extra.last() {
                Some(&s) => s,
                None => self.state[base as usize],
            } as usize;
            let g = self.t.goto[top2 * n_nts + self.t.prod_nt[p] as usize];
            assert!(g != NO_GOTO, "missing goto in LR table");
            extra.push(g);
        }
    }

    fn stack_states(&self, mut node: u32) -> Vec<u32> {
        let mut v = Vec::new();
        while node != u32::MAX {
            v.push(self.state[node as usize]);
            node = self.parent[node as usize];
        }
        v.reverse();
        v
    }

    /// Shortest token sequence (column indices) that takes the parser from `node` to acceptance.
    fn shortest_completion(&mut self, node: u32, n_terms: usize, limit: usize) -> Option<Vec<usize>> {
        let eof = n_terms;
        let mut extra = Vec::new();
        let mut red = Vec::new();
        let saved = self.reduced.clone();
        let mut seen: FxSet<u32> = FxSet::default();
        // entries: (node, predecessor entry, token)
        let mut all: Vec<(u32, usize, usize)> = vec![(node, usize::MAX, usize::MAX)];
        seen.insert(node);
        let mut i = 0;
        let mut result = None;
        while i < all.len() && all.len() < limit {
            let (n, _, _) = all[i];
            if self.step(n, eof, &mut extra, &mut red) == Step::Accept {
                let mut toks = Vec::new();
                let mut k = i;
                while all[k].1 != usize::MAX {
                    toks.push(all[k].2);
                    k = all[k].1;
                }
                toks.reverse();
                result = Some(toks);
                break;
            }
            for col in 0..n_terms {
                if let Step::Node(m) = self.step(n, col, &mut extra, &mut red) {
                    if seen.insert(m) {
                        all.push((m, i, col));
                    }
                }
            }
            i += 1;
        }
        self.reduced = saved;
        result
    }
}

// ---------------------------------------------------------------------------------------------
// sample lexemes

fn builtin_sample(name: &str) -> Option<&'static str> {
    Some(match name {
        "IDENT" => "x",
        "INTEGER" => "1",
        "FLOAT" => "1.5",
        "QUOTED_STRING" => "\"s\"",
        "ANNOTATION" => "@x",
        "DIRECTION" => "in",
        "PRIMITIVE" => "int",
        "BOOLEAN" => "true",
        "RESERVED_KEYWORD" => "for",
        _ => return None,
    })
}

/// One sample lexeme per terminal.  A candidate is kept only if lalrpop's own combined tokenizer
/// DFA (all match entries with their precedences) assigns exactly that string to an entry of the
/// terminal, so the rendered document really lexes to the intended token sequence.
fn samples(l: &Loaded) -> BTreeMap<String, String> {
    let mut out = BTreeMap::new();
    let (rows, _, _) = facts::match_rows(l);
    let combined = l.lowered.intern_token.as_ref().map(|it| &it.dfa);
    for t in &l.normalized.terminals.all {
        let name = t.to_string();
        if name == "error" {
            out.insert(name, "<error>".to_string());
            continue;
        }
        let my_rows: Vec<&facts::MatchRow> = rows
            .iter()
            .filter(|r| r.terminal.as_deref() == Some(name.as_str()))
            .collect();
        let my_indices: BTreeSet<usize> = my_rows.iter().map(|r| r.match_index).collect();
        let ok = |s: &str| -> bool {
            match combined {
                Some(d) => dfa::combined_dfa_match(d, s)
                    .map(|i| my_indices.contains(&i))
                    .unwrap_or(false),
                None => true,
            }
        };
        let mut candidates: Vec<String> = Vec::new();
        if let Some(b) = builtin_sample(&name) {
            candidates.push(b.to_string());
        }
        for r in &my_rows {
            if r.kind == dfa::PatternKind::Literal {
                candidates.push(r.pattern.clone());
            }
        }
        let mut chosen = candidates.iter().find(|c| ok(c)).cloned();
        if chosen.is_none() {
            for r in &my_rows {
                if let Ok(d) = dfa::build(r.kind, &r.pattern) {
                    if let Some(s) = d.sample_strings(200, 12).into_iter().find(|s| !s.is_empty() && ok(s)) {
                        chosen = Some(s);
                        break;
                    }
                }
            }
        }
        out.insert(name.clone(), chosen.unwrap_or_else(|| format!("<{}>", name)));
    }
    out
}

// ---------------------------------------------------------------------------------------------

pub struct Options {
    pub ref_path: String,
    pub cur_path: String,
    pub start: String,
    pub bound: usize,
    pub drop_error_alts: bool,
    pub max_pairs: usize,
}

fn build_side(label: &'static str, path: &str, opts: &Options) -> Result<Side, String> {
    let l = frontend::load(
        path,
        &LoadOptions {
            drop_error_alts: opts.drop_error_alts,
            features: None,
        },
    )?;
    let t = automata::tables(&l.normalized, &opts.start)?;
    let mut prod_base_actions = Vec::new();
    let mut all_user = BTreeSet::new();
    for (i, p) in t.prods.iter().enumerate() {
        let mut b = BTreeSet::new();
        facts::base_actions(&l.normalized, p.action, &mut b);
        if t.prod_reachable[i] {
            all_user.extend(b.iter().cloned());
        }
        prod_base_actions.push(b.into_iter().collect());
    }
    let mut side = Side {
        label,
        file: l.path.clone(),
        sha256: sha256::hex(l.text.as_bytes()),
        algorithm: algorithm_name(&l.normalized),
        dropped_alternatives: l.dropped_alternatives,
        t,
        samples: samples(&l),
        prod_base_actions,
        all_user_actions: all_user,
        parent: Vec::new(),
        state: Vec::new(),
        intern: FxMap::default(),
        reduced: Vec::new(),
    };
    side.new_stacks();
    Ok(side)
}

fn prod_text(p: &automata::ProdInfo) -> String {
    if p.symbols.is_empty() {
        format!("{} = (empty) [action {}]", p.nonterminal, p.action)
    } else {
        format!("{} = {} [action {}]", p.nonterminal, p.symbols.join(" "), p.action)
    }
}

fn coverage_json(out: &mut Map<String, Value>, s: &Side) {
    let mut reduced = Vec::new();
    let mut never = Vec::new();
    let mut acts: BTreeSet<usize> = BTreeSet::new();
    // only productions of nonterminals reachable from the start symbol count
    for (i, p) in s.t.prods.iter().enumerate() {
        if !s.t.prod_reachable[i] {
            continue;
        }
        if s.reduced[i] {
            reduced.push(json!(prod_text(p)));
            acts.extend(s.prod_base_actions[i].iter().cloned());
        } else {
            never.push(json!(prod_text(p)));
        }
    }
    let never_acts: Vec<usize> = s.all_user_actions.difference(&acts).cloned().collect();
    out.insert(format!("productions_reduced_{}", s.label), json!(reduced));
    out.insert(format!("productions_never_reduced_{}", s.label), json!(never));
    out.insert(
        format!("base_actions_reduced_{}", s.label),
        json!(acts.into_iter().collect::<Vec<_>>()),
    );
    out.insert(format!("base_actions_never_reduced_{}", s.label), json!(never_acts));
}

fn side_json(s: &Side) -> Value {
    json!({
        "file": s.file,
        "sha256": s.sha256,
        "algorithm": s.algorithm,
        "states": s.t.n_states,
        "terminals": s.t.terminal_names,
        "productions": s.t.prod_reachable.iter().filter(|r| **r).count(),
        "dropped_error_alternatives": s.dropped_alternatives,
        "stack_nodes": s.parent.len(),
    })
}

fn render(tokens: &[String], primary: &Side, secondary: &Side) -> String {
    tokens
        .iter()
        .map(|t| {
            primary
                .samples
                .get(t)
                .or_else(|| secondary.samples.get(t))
                .cloned()
                .unwrap_or_else(|| format!("<{}>", t))
        })
        .collect::<Vec<_>>()
        .join(" ")
}

/// Returns (json, exit code).
pub fn run(opts: &Options) -> Result<(Value, i32), String> {
    let t0 = Instant::now();
    let mut a = build_side("ref", &opts.ref_path, opts)?;
    let mut b = build_side("cur", &opts.cur_path, opts)?;
    let mut names: BTreeSet<String> = BTreeSet::new();
    names.extend(a.t.terminal_names.iter().cloned());
    names.extend(b.t.terminal_names.iter().cloned());
    let vocab_list: Vec<String> = names.into_iter().collect();
    let vocab: BTreeMap<String, usize> = vocab_list
        .iter()
        .enumerate()
        .map(|(i, n)| (n.clone(), i))
        .collect();
    let only_ref: Vec<String> = a
        .t
        .terminal_names
        .iter()
        .filter(|t| !b.t.terminal_names.contains(t))
        .cloned()
        .collect();
    let only_cur: Vec<String> = b
        .t
        .terminal_names
        .iter()
        .filter(|t| !a.t.terminal_names.contains(t))
        .cloned()
        .collect();
    a.t.remap(&vocab);
    b.t.remap(&vocab);
    let build_s = t0.elapsed().as_secs_f64();

    let n_terms = vocab_list.len();
    let eof = n_terms;

    // every visited configuration pair: (stack a, stack b, predecessor entry, token)
    let mut all: Vec<(u32, u32, u32, u32)> = vec![(ROOT, ROOT, u32::MAX, u32::MAX)];
    let mut visited: FxSet<u64> = FxSet::default();
    visited.insert(0);
    let mut level_start = 0usize;
    let mut pairs_per_depth: Vec<usize> = Vec::new();
    let mut max_depth = 0usize;
    let mut frontier_exhausted = false;
    let mut truncated = false;
    // (entry index, token column, viable in ref?)
    let mut difference: Option<(usize, usize, bool)> = None;
    let (mut ea, mut ra, mut eb, mut rb) = (Vec::new(), Vec::new(), Vec::new(), Vec::new());

    'outer: for depth in 0..=opts.bound {
        let level_end = all.len();
        pairs_per_depth.push(level_end - level_start);
        max_depth = depth;
        for i in level_start..level_end {
            let (na, nb, _, _) = all[i];
            // end of input
            let acc_a = a.step(na, eof, &mut ea, &mut ra) == Step::Accept;
            let acc_b = b.step(nb, eof, &mut eb, &mut rb) == Step::Accept;
            if acc_a != acc_b {
                difference = Some((i, eof, acc_a));
                break 'outer;
            }
            if depth == opts.bound {
                continue;
            }
            for col in 0..n_terms {
                let sa = a.step(na, col, &mut ea, &mut ra);
                let sb = b.step(nb, col, &mut eb, &mut rb);
                match (sa, sb) {
                    (Step::Dead, Step::Dead) => {}
                    (Step::Node(x), Step::Node(y)) => {
                        let key = ((x as u64) << 32) | y as u64;
                        if visited.insert(key) {
                            all.push((x, y, i as u32, col as u32));
                        }
                    }
                    (Step::Node(_), Step::Dead) => {
                        difference = Some((i, col, true));
                        break 'outer;
                    }
                    (Step::Dead, Step::Node(_)) => {
                        difference = Some((i, col, false));
                        break 'outer;
                    }
                    // a terminal column never reduces the start production
                    _ => return Err("internal: accept on a terminal column".to_string()),
                }
            }
            if all.len() > opts.max_pairs {
                truncated = true;
                break 'outer;
            }
        }
        if depth == opts.bound {
            break;
        }
        if all.len() == level_end {
            frontier_exhausted = true;
            break;
        }
        level_start = level_end;
    }
    let explore_s = t0.elapsed().as_secs_f64() - build_s;

    let mut out = Map::new();
    out.insert("bound".into(), json!(opts.bound));
    out.insert("start".into(), json!(opts.start));
    out.insert("drop_error_alts".into(), json!(opts.drop_error_alts));
    out.insert("ref".into(), side_json(&a));
    out.insert("cur".into(), side_json(&b));
    out.insert("vocabulary".into(), json!(vocab_list));
    out.insert("terminals_only_in_ref".into(), json!(only_ref));
    out.insert("terminals_only_in_cur".into(), json!(only_cur));
    out.insert("pairs_explored".into(), json!(all.len()));
    out.insert("pairs_per_depth".into(), json!(pairs_per_depth));
    out.insert("max_depth_reached".into(), json!(max_depth));
    out.insert("frontier_exhausted".into(), json!(frontier_exhausted));
    out.insert("truncated_by_max_pairs".into(), json!(truncated));
    coverage_json(&mut out, &a);
    coverage_json(&mut out, &b);

    let mut code = 0;
    match difference {
        None => {
            out.insert("equal_up_to_bound".into(), json!(!truncated));
            if truncated {
                code = 3;
            }
        }
        Some((entry, col, viable_in_ref)) => {
            code = 1;
            let mut toks: Vec<usize> = Vec::new();
            let mut k = entry;
            while all[k].2 != u32::MAX {
                toks.push(all[k].3 as usize);
                k = all[k].2 as usize;
            }
            toks.reverse();
            let prefix: Vec<String> = toks.iter().map(|&c| vocab_list[c].clone()).collect();
            let differing = if col == eof {
                "EOF".to_string()
            } else {
                vocab_list[col].clone()
            };
            let mut witness = prefix.clone();
            if col != eof {
                witness.push(differing.clone());
            }
            let (na, nb, _, _) = all[entry];
            // complete the witness to a sentence of the grammar that accepts the prefix
            let completion: Option<Vec<usize>> = if col == eof {
                Some(Vec::new())
            } else if viable_in_ref {
                match a.step(na, col, &mut ea, &mut ra) {
                    Step::Node(n) => a.shortest_completion(n, n_terms, 2_000_000),
                    _ => None,
                }
            } else {
                match b.step(nb, col, &mut eb, &mut rb) {
                    Step::Node(n) => b.shortest_completion(n, n_terms, 2_000_000),
                    _ => None,
                }
            };
            let (viable, other) = if viable_in_ref { (&a, &b) } else { (&b, &a) };
            out.insert("equal_up_to_bound".into(), json!(false));
            out.insert("viable_in".into(), json!(if viable_in_ref { "ref" } else { "cur" }));
            out.insert("differing_token".into(), json!(differing));
            out.insert("difference_depth".into(), json!(witness.len()));
            out.insert("witness_tokens".into(), json!(witness));
            out.insert("witness_text".into(), json!(render(&witness, viable, other)));
            out.insert("witness_prefix_tokens".into(), json!(prefix));
            out.insert(
                "stack_ref_before_token".into(),
                json!(a.stack_states(na)),
            );
            out.insert(
                "stack_cur_before_token".into(),
                json!(b.stack_states(nb)),
            );
            match completion {
                Some(c) => {
                    let mut doc = witness.clone();
                    doc.extend(c.iter().map(|&x| vocab_list[x].clone()));
                    out.insert(
                        "completion_tokens".into(),
                        json!(c.iter().map(|&x| vocab_list[x].clone()).collect::<Vec<_>>()),
                    );
                    out.insert("document_text".into(), json!(render(&doc, viable, other)));
                    out.insert("document_tokens".into(), json!(doc));
                    out.insert(
                        "document_note".into(),
                        json!("document_tokens is a sentence of the `viable_in` grammar and not of the other one"),
                    );
                }
                None => {
                    out.insert("completion_tokens".into(), Value::Null);
                    out.insert("document_tokens".into(), Value::Null);
                    out.insert("document_text".into(), Value::Null);
                }
            }
        }
    }
    out.insert("build_s".into(), json!((build_s * 1000.0).round() / 1000.0));
    out.insert("explore_s".into(), json!((explore_s * 1000.0).round() / 1000.0));
    out.insert(
        "wall_s".into(),
        json!((t0.elapsed().as_secs_f64() * 1000.0).round() / 1000.0),
    );
    Ok((Value::Object(out), code))
}
