//! The `facts` sub-command: everything the rule layer wants to know about one grammar, as JSON.

use lalrpop::grammar::parse_tree as pt;
use lalrpop::grammar::repr as r;
use serde_json::{json, Map, Value};
use std::collections::{BTreeMap, BTreeSet};

use crate::automata;
use crate::dfa::{self, PatternKind};
use crate::frontend::{algorithm_name, line_of, Loaded};
use crate::sets;
use crate::sha256;

pub const VENDORED_LALRPOP_VERSION: &str = "0.19.8";

// ---------------------------------------------------------------------------------------------
// parse tree

fn terminal_json(t: &pt::TerminalString) -> Value {
    let mut m = Map::new();
    m.insert("kind".into(), json!("terminal"));
    m.insert("display".into(), json!(t.to_string()));
    match t {
        pt::TerminalString::Bare(a) => {
            m.insert("name".into(), json!(a.to_string()));
        }
        pt::TerminalString::Literal(pt::TerminalLiteral::Quoted(a)) => {
            m.insert("literal".into(), json!(a.to_string()));
        }
        pt::TerminalString::Literal(pt::TerminalLiteral::Regex(a)) => {
            m.insert("regex".into(), json!(a.to_string()));
        }
        pt::TerminalString::Error => {
            m.insert("name".into(), json!("error"));
        }
    }
    Value::Object(m)
}

fn sym_json(text: &str, s: &pt::Symbol) -> Value {
    let mut v = match &s.kind {
        pt::SymbolKind::Expr(e) => json!({
            "kind": "expr",
            "symbols": e.symbols.iter().map(|x| sym_json(text, x)).collect::<Vec<_>>(),
        }),
        pt::SymbolKind::AmbiguousId(a) => json!({ "kind": "ambiguous", "name": a.to_string() }),
        pt::SymbolKind::Terminal(t) => terminal_json(t),
        pt::SymbolKind::Nonterminal(n) => json!({ "kind": "nonterminal", "name": n.to_string() }),
        pt::SymbolKind::Macro(m) => json!({
            "kind": "macro",
            "name": m.name.to_string(),
            "args": m.args.iter().map(|x| sym_json(text, x)).collect::<Vec<_>>(),
        }),
        pt::SymbolKind::Repeat(rep) => json!({
            "kind": "repeat",
            "op": rep.op.to_string(),
            "inner": sym_json(text, &rep.symbol),
        }),
        pt::SymbolKind::Choose(inner) => json!({ "kind": "choose", "inner": sym_json(text, inner) }),
        pt::SymbolKind::Name(name, inner) => json!({
            "kind": "name",
            "binding": name.name.to_string(),
            "mutable": name.mutable,
            "inner": sym_json(text, inner),
        }),
        pt::SymbolKind::Lookahead => json!({ "kind": "lookahead" }),
        pt::SymbolKind::Lookbehind => json!({ "kind": "lookbehind" }),
        pt::SymbolKind::Error => json!({ "kind": "error" }),
    };
    let m = v.as_object_mut().unwrap();
    // the name lalrpop gives the helper nonterminal generated for this symbol, if any
    m.insert("canonical".into(), json!(s.to_string()));
    m.insert("line".into(), json!(line_of(text, s.span.0)));
    m.insert("span".into(), json!([s.span.0, s.span.1]));
    v
}

fn annotations_json(anns: &[pt::Annotation]) -> Value {
    Value::Array(
        anns.iter()
            .map(|a| {
                json!({
                    "id": a.id.to_string(),
                    "arg": a.arg.as_ref().map(|(k, v)| json!([k.to_string(), v])),
                })
            })
            .collect(),
    )
}

fn visibility_str(v: &pt::Visibility) -> String {
    let s = v.to_string();
    let s = s.trim();
    if s.is_empty() {
        "priv".to_string()
    } else {
        s.to_string()
    }
}

fn parse_tree_json(l: &Loaded) -> Value {
    let text = &l.text;
    let mut nts = Vec::new();
    let mut uses = Vec::new();
    for item in &l.resolved.items {
        match item {
            pt::GrammarItem::Use(u) => uses.push(json!(u)),
            pt::GrammarItem::Nonterminal(nt) => {
                let alts: Vec<Value> = nt
                    .alternatives
                    .iter()
                    .map(|alt| {
                        let (action, fallible, action_kind) = match &alt.action {
                            None => (Value::Null, false, "default"),
                            Some(pt::ActionKind::User(c)) => (json!(c), false, "user"),
                            Some(pt::ActionKind::Fallible(c)) => (json!(c), true, "user"),
                            Some(pt::ActionKind::Lookahead) => (Value::Null, false, "lookahead"),
                            Some(pt::ActionKind::Lookbehind) => (Value::Null, false, "lookbehind"),
                        };
                        let condition = alt.condition.as_ref().map(|c| {
                            let op = match c.op {
                                pt::ConditionOp::Equals => "==",
                                pt::ConditionOp::NotEquals => "!=",
                                pt::ConditionOp::Match => "~~",
                                pt::ConditionOp::NotMatch => "!~",
                            };
                            json!({ "lhs": c.lhs.to_string(), "op": op, "rhs": c.rhs.to_string() })
                        });
                        json!({
                            "line": line_of(text, alt.span.0),
                            "end_line": line_of(text, alt.span.1),
                            "span": [alt.span.0, alt.span.1],
                            "symbols": alt.expr.symbols.iter().map(|s| sym_json(text, s)).collect::<Vec<_>>(),
                            "action": action,
                            "action_kind": action_kind,
                            "fallible": fallible,
                            "condition": condition,
                            "annotations": annotations_json(&alt.annotations),
                        })
                    })
                    .collect();
                nts.push(json!({
                    "name": nt.name.to_string(),
                    "visibility": visibility_str(&nt.visibility),
                    "public": nt.visibility.is_pub(),
                    "macro_params": nt.args.iter().map(|a| a.to_string()).collect::<Vec<_>>(),
                    "type": nt.type_decl.as_ref().map(|t| t.to_string()),
                    "annotations": annotations_json(&nt.annotations),
                    "line": line_of(text, nt.span.0),
                    "span": [nt.span.0, nt.span.1],
                    "alternatives": alts,
                }));
            }
            pt::GrammarItem::MatchToken(_)
            | pt::GrammarItem::ExternToken(_)
            | pt::GrammarItem::InternToken(_) => {}
        }
    }
    json!({
        "nonterminals": nts,
        "uses": uses,
        "has_match_block": l.resolved.match_token().is_some(),
        "has_extern_token": l.resolved.extern_token().is_some(),
        "grammar_annotations": annotations_json(&l.resolved.annotations),
        "type_parameters": l.resolved.type_parameters.iter().map(|t| t.to_string()).collect::<Vec<_>>(),
    })
}

// ---------------------------------------------------------------------------------------------
// match block

pub struct MatchRow {
    pub group: usize,
    pub implicit: bool,
    pub kind: PatternKind,
    pub pattern: String,
    /// display name of the terminal produced (None for skip entries)
    pub terminal: Option<String>,
    /// the bare user name (`PACKAGE`) when the entry is `pattern => NAME`
    pub user_name: Option<String>,
    pub skip: bool,
    pub line: Option<usize>,
    pub precedence: usize,
    /// index in `InternToken::match_entries` = the `Token(index, _)` number of the generated lexer
    pub match_index: usize,
}

fn literal_parts(l: &pt::TerminalLiteral) -> (PatternKind, String) {
    match l {
        pt::TerminalLiteral::Quoted(a) => (PatternKind::Literal, a.to_string()),
        pt::TerminalLiteral::Regex(a) => (PatternKind::Regex, a.to_string()),
    }
}

/// The match rows in source order (explicit groups first, then the literals lalrpop collected
/// from the grammar body), plus the number of explicit groups and whether a `_` is present.
pub fn match_rows(l: &Loaded) -> (Vec<MatchRow>, usize, bool) {
    let intern = match l.lowered.intern_token {
        Some(ref it) => it,
        None => return (Vec::new(), 0, false),
    };
    // index of every entry in lalrpop's sorted list
    let mut by_literal: BTreeMap<pt::TerminalLiteral, (usize, &pt::MatchEntry)> = BTreeMap::new();
    for (i, e) in intern.match_entries.iter().enumerate() {
        by_literal.insert(e.match_literal.clone(), (i, e));
    }
    let mut rows = Vec::new();
    let mut used: BTreeSet<pt::TerminalLiteral> = BTreeSet::new();
    let mut n_groups = 0;
    let mut catch_all = false;
    if let Some(mt) = l.raw.match_token() {
        n_groups = mt.contents.len();
        for (gi, group) in mt.contents.iter().enumerate() {
            for item in &group.items {
                let (lit, span) = match item {
                    pt::MatchItem::CatchAll(_) => {
                        catch_all = true;
                        continue;
                    }
                    pt::MatchItem::Unmapped(s, sp) => (s, *sp),
                    pt::MatchItem::Mapped(s, _, sp) => (s, *sp),
                };
                let (idx, entry) = by_literal[lit];
                used.insert(lit.clone());
                let (kind, pattern) = literal_parts(lit);
                let (terminal, user_name, skip) = match &entry.user_name {
                    pt::MatchMapping::Skip => (None, None, true),
                    pt::MatchMapping::Terminal(t) => {
                        let bare = match t {
                            pt::TerminalString::Bare(a) => Some(a.to_string()),
                            _ => None,
                        };
                        (Some(t.to_string()), bare, false)
                    }
                };
                rows.push(MatchRow {
                    group: gi,
                    implicit: false,
                    kind,
                    pattern,
                    terminal,
                    user_name,
                    skip,
                    line: Some(line_of(&l.text, span.0)),
                    precedence: entry.precedence,
                    match_index: idx,
                });
            }
        }
    } else {
        catch_all = true;
    }
    for (i, e) in intern.match_entries.iter().enumerate() {
        if used.contains(&e.match_literal) {
            continue;
        }
        let (kind, pattern) = literal_parts(&e.match_literal);
        let terminal = match &e.user_name {
            pt::MatchMapping::Skip => None,
            pt::MatchMapping::Terminal(t) => Some(t.to_string()),
        };
        rows.push(MatchRow {
            group: n_groups,
            implicit: true,
            kind,
            pattern,
            terminal,
            user_name: None,
            skip: false,
            line: None,
            precedence: e.precedence,
            match_index: i,
        });
    }
    (rows, n_groups, catch_all)
}

/// The string lalrpop's `lexer::intern_token::compile` hands to `regex` at run time:
/// `^(<Hir printed back>)`.
fn runtime_regex(r: &MatchRow) -> Option<String> {
    dfa::parse_pattern(r.kind, &r.pattern)
        .ok()
        .map(|hir| format!("^({})", hir))
}

fn match_row_json(r: &MatchRow) -> Value {
    json!({
        "runtime_regex": runtime_regex(r),
        "leftmost_first": crate::lfcheck::facts_json(r.kind, &r.pattern),
        "pattern_kind": r.kind.as_str(),
        "pattern": r.pattern,
        "user_name": r.user_name,
        "terminal": r.terminal,
        "skip": r.skip,
        "line": r.line,
        "group": r.group,
        "implicit": r.implicit,
        "precedence": r.precedence,
        "match_index": r.match_index,
    })
}

// ---------------------------------------------------------------------------------------------
// lowered / normalised grammar

fn sym_kind(g: &r::Grammar, s: &r::Symbol) -> &'static str {
    match s {
        r::Symbol::Terminal(pt::TerminalString::Error) => "error",
        r::Symbol::Terminal(_) => "terminal",
        r::Symbol::Nonterminal(n) => {
            // `@L` / `@R` are lowered to inline nonterminals whose single empty production has a
            // lookaround action
            if let Some(data) = g.nonterminals.get(n) {
                if data.productions.len() == 1 && data.productions[0].symbols.is_empty() {
                    if let r::ActionFnDefnKind::Lookaround(ref la) =
                        g.action_fn_defns[data.productions[0].action.index()].kind
                    {
                        return match la {
                            r::LookaroundActionFnDefn::Lookahead => "lookahead",
                            r::LookaroundActionFnDefn::Lookbehind => "lookbehind",
                        };
                    }
                }
            }
            "nonterminal"
        }
    }
}

fn productions_json(l: &Loaded, g: &r::Grammar) -> Value {
    let mut out = Vec::new();
    let mut index = 0usize;
    for data in g.nonterminals.values() {
        for (alt_i, p) in data.productions.iter().enumerate() {
            let defn = &g.action_fn_defns[p.action.index()];
            let names: Option<&Vec<r::Name>> = match defn.kind {
                r::ActionFnDefnKind::User(ref u) => Some(&u.arg_patterns),
                _ => None,
            };
            let symbols: Vec<Value> = p
                .symbols
                .iter()
                .enumerate()
                .map(|(i, s)| {
                    let (named, mutable) = match names.and_then(|n| n.get(i)) {
                        Some(n) if n.name.as_ref() as &str != "_" => {
                            (Some(n.name.to_string()), n.mutable)
                        }
                        _ => (None, false),
                    };
                    json!({
                        "kind": sym_kind(g, s),
                        "name": s.to_string(),
                        "named": named,
                        "mutable": mutable,
                    })
                })
                .collect();
            out.push(json!({
                "index": index,
                "nonterminal": p.nonterminal.to_string(),
                "alternative": alt_i,
                "symbols": symbols,
                "action": p.action.index(),
                "line": line_of(&l.text, p.span.0),
                "span": [p.span.0, p.span.1],
            }));
            index += 1;
        }
    }
    Value::Array(out)
}

fn is_inline(data: &r::NonterminalData) -> bool {
    data.annotations
        .iter()
        .any(|a| a.id.as_ref() as &str == lalrpop::grammar::consts::INLINE)
}

fn nonterminals_json(l: &Loaded, g: &r::Grammar, written: &BTreeSet<String>) -> Value {
    let start_internal: BTreeSet<String> = g
        .start_nonterminals
        .values()
        .map(|v| v.to_string())
        .collect();
    Value::Array(
        g.nonterminals
            .values()
            .map(|d| {
                let name = d.name.to_string();
                let origin = if start_internal.contains(&name) {
                    "start"
                } else if written.contains(&name) {
                    "written"
                } else {
                    "generated"
                };
                json!({
                    "name": name,
                    "origin": origin,
                    "inline": is_inline(d),
                    "visibility": visibility_str(&d.visibility),
                    "type": g.types.lookup_nonterminal_type(&d.name).map(|t| t.to_string()),
                    "annotations": annotations_json(&d.annotations),
                    "line": line_of(&l.text, d.span.0),
                    "production_count": d.productions.len(),
                })
            })
            .collect(),
    )
}

/// user / lookaround actions transitively called by action `i`
pub fn base_actions(g: &r::Grammar, i: usize, out: &mut BTreeSet<usize>) {
    match g.action_fn_defns[i].kind {
        r::ActionFnDefnKind::User(_) | r::ActionFnDefnKind::Lookaround(_) => {
            out.insert(i);
        }
        r::ActionFnDefnKind::Inline(ref d) => {
            base_actions(g, d.action.index(), out);
            for s in &d.symbols {
                if let r::InlinedSymbol::Inlined(a, _) = s {
                    base_actions(g, a.index(), out);
                }
            }
        }
    }
}

fn action_defn_json(g: &r::Grammar, i: usize, lowered_count: usize) -> Value {
    let d = &g.action_fn_defns[i];
    let loc = g.types.terminal_loc_type().to_string();
    let mut m = Map::new();
    m.insert("index".into(), json!(i));
    m.insert("fn_name".into(), json!(format!("{}action{}", g.prefix, i)));
    m.insert("fallible".into(), json!(d.fallible));
    m.insert("ret_type".into(), json!(d.ret_type.to_string()));
    m.insert(
        "phase".into(),
        json!(if i < lowered_count { "lower" } else { "inline" }),
    );
    let extra = json!([
        format!("{}lookbehind: &{}", g.prefix, loc),
        format!("{}lookahead: &{}", g.prefix, loc)
    ]);
    match d.kind {
        r::ActionFnDefnKind::User(ref u) => {
            m.insert("kind".into(), json!("user"));
            m.insert("code".into(), json!(u.code));
            m.insert(
                "arg_names".into(),
                json!(u.arg_patterns.iter().map(|n| n.name.to_string()).collect::<Vec<_>>()),
            );
            m.insert(
                "arg_patterns".into(),
                json!(u.arg_patterns.iter().map(|n| n.to_string()).collect::<Vec<_>>()),
            );
            m.insert(
                "arg_types".into(),
                json!(u.arg_types.iter().map(|t| t.to_string()).collect::<Vec<_>>()),
            );
            m.insert("tuple_param_count".into(), json!(u.arg_patterns.len()));
            m.insert(
                "extra_params".into(),
                if u.arg_patterns.is_empty() { extra } else { json!([]) },
            );
        }
        r::ActionFnDefnKind::Lookaround(ref la) => {
            m.insert(
                "kind".into(),
                json!(match la {
                    r::LookaroundActionFnDefn::Lookahead => "lookahead",
                    r::LookaroundActionFnDefn::Lookbehind => "lookbehind",
                }),
            );
            m.insert("code".into(), Value::Null);
            m.insert("tuple_param_count".into(), json!(0));
            m.insert("extra_params".into(), extra);
        }
        r::ActionFnDefnKind::Inline(ref inl) => {
            m.insert("kind".into(), json!("inline"));
            m.insert("code".into(), Value::Null);
            m.insert("calls".into(), json!(inl.action.index()));
            let mut flat = 0usize;
            let syms: Vec<Value> = inl
                .symbols
                .iter()
                .map(|s| match s {
                    r::InlinedSymbol::Original(sym) => {
                        flat += 1;
                        json!({ "original": sym.to_string() })
                    }
                    r::InlinedSymbol::Inlined(a, syms) => {
                        flat += syms.len();
                        json!({
                            "inlined_action": a.index(),
                            "symbols": syms.iter().map(|x| x.to_string()).collect::<Vec<_>>(),
                        })
                    }
                })
                .collect();
            m.insert("inlined_symbols".into(), json!(syms));
            m.insert("tuple_param_count".into(), json!(flat));
            m.insert("extra_params".into(), if flat == 0 { extra } else { json!([]) });
            let mut base = BTreeSet::new();
            base_actions(g, i, &mut base);
            m.insert("base_actions".into(), json!(base.into_iter().collect::<Vec<_>>()));
        }
    }
    Value::Object(m)
}

fn action_param_rule(g: &r::Grammar) -> Value {
    let loc = g.types.terminal_loc_type().to_string();
    json!({
        "spec_claim_holds": false,
        "leading_params": g.parameters.iter().map(|p| p.to_string()).collect::<Vec<_>>(),
        "type_parameters": g.type_parameters.iter().map(|p| p.to_string()).collect::<Vec<_>>(),
        "location_type": loc,
        "text": format!(
            "fn {p}action{{i}} takes the grammar parameters in `leading_params` order (the \
             user's parameters, then the `input` lalrpop appends for its built-in lexer), then \
             exactly one `(L, T, L)` tuple parameter per symbol of the lowered production, in \
             production order (user actions: pattern `(_, <arg_name>, _)`, `_` when the symbol \
             is not selected; inline actions: `{p}{{k}}: (L, T, L)` over the flattened symbols). \
             Exception to the SPEC's claim: when that leaves zero tuple parameters (empty \
             production; every `@L`/`@R` lookaround action) the function instead takes the two \
             parameters `{p}lookbehind: &L, {p}lookahead: &L` (see `extra_params` / \
             `tuple_param_count` of each entry).  Source: lalrpop-0.19.8 src/build/action.rs.",
            p = g.prefix
        ),
    })
}

// ---------------------------------------------------------------------------------------------
// terminals

fn terminals_json(g: &r::Grammar, rows: &[MatchRow]) -> Value {
    Value::Array(
        g.terminals
            .all
            .iter()
            .enumerate()
            .map(|(i, t)| {
                let display = t.to_string();
                let kind = match t {
                    pt::TerminalString::Bare(_) => "bare",
                    pt::TerminalString::Literal(pt::TerminalLiteral::Quoted(_)) => "quoted",
                    pt::TerminalString::Literal(pt::TerminalLiteral::Regex(_)) => "regex",
                    pt::TerminalString::Error => "error",
                };
                let text = match t {
                    pt::TerminalString::Bare(a) => a.to_string(),
                    pt::TerminalString::Literal(pt::TerminalLiteral::Quoted(a)) => a.to_string(),
                    pt::TerminalString::Literal(pt::TerminalLiteral::Regex(a)) => a.to_string(),
                    pt::TerminalString::Error => "error".to_string(),
                };
                let patterns: Vec<Value> = rows
                    .iter()
                    .filter(|r| r.terminal.as_deref() == Some(display.as_str()))
                    .map(|r| {
                        json!({
                            "pattern_kind": r.kind.as_str(),
                            "pattern": r.pattern,
                            "group": r.group,
                            "precedence": r.precedence,
                            "match_index": r.match_index,
                        })
                    })
                    .collect();
                json!({
                    "index": i,
                    "name": display,
                    "kind": kind,
                    "text": text,
                    "patterns": patterns,
                    // lalrpop's `__expected_tokens` leaves the error terminal out
                    "in_expected_lists": !matches!(t, pt::TerminalString::Error),
                    "token_type": g.types.terminal_type(t).to_string(),
                })
            })
            .collect(),
    )
}

// ---------------------------------------------------------------------------------------------

fn sets_json(m: &BTreeMap<String, BTreeSet<String>>) -> Value {
    Value::Object(
        m.iter()
            .map(|(k, v)| (k.clone(), json!(v.iter().cloned().collect::<Vec<_>>())))
            .collect(),
    )
}

/// lalrpop names a helper nonterminal by the canonical text of the symbol it expands
/// (`parse_tree::Symbol::canonical_form`, exported as `canonical` on every parse-tree symbol);
/// the name is exported verbatim as `text` and classified by its shape.
fn origin_json(name: &str, start_of: Option<String>) -> Value {
    if let Some(user) = start_of {
        return json!({ "kind": "start", "text": name, "of": user });
    }
    if name == "@L" {
        return json!({ "kind": "lookahead", "text": name });
    }
    if name == "@R" {
        return json!({ "kind": "lookbehind", "text": name });
    }
    if let Some(op) = name.chars().last().filter(|c| "*+?".contains(*c)) {
        let inner = &name[..name.len() - 1];
        return json!({ "kind": "repeat", "text": name, "op": op.to_string(), "inner": inner });
    }
    if name.starts_with('(') && name.ends_with(')') {
        return json!({ "kind": "expr", "text": name });
    }
    if name.ends_with('>') {
        if let Some(i) = name.find('<') {
            return json!({ "kind": "macro", "text": name, "macro": &name[..i] });
        }
    }
    json!({ "kind": "other", "text": name })
}

pub struct FactsOptions {
    /// start symbols to build automata for; None = all public nonterminals
    pub automata: Option<Vec<String>>,
}

pub fn facts(l: &Loaded, opts: &FactsOptions) -> Result<Value, String> {
    let mut top = Map::new();
    top.insert("lalrpop_version".into(), json!(VENDORED_LALRPOP_VERSION));
    top.insert("gramfacts_version".into(), json!(env!("CARGO_PKG_VERSION")));
    top.insert("grammar_file".into(), json!(l.path));
    top.insert(
        "grammar_sha256".into(),
        json!(sha256::hex(l.text.as_bytes())),
    );
    top.insert("prefix".into(), json!(l.lowered.prefix));
    top.insert("uses_error_recovery".into(), json!(l.lowered.uses_error_recovery));
    top.insert(
        "algorithm".into(),
        json!({
            "lalr": l.lowered.algorithm.lalr,
            "codegen": format!("{:?}", l.lowered.algorithm.codegen),
            "construction": algorithm_name(&l.lowered),
        }),
    );

    // grammar parameters as the user wrote them (the lowered grammar additionally has `input`)
    top.insert(
        "grammar_params".into(),
        json!(l
            .raw
            .parameters
            .iter()
            .map(|p| json!({ "name": p.name.to_string(), "type": p.ty.to_string() }))
            .collect::<Vec<_>>()),
    );
    top.insert(
        "generated_fn_params".into(),
        json!(l
            .lowered
            .parameters
            .iter()
            .map(|p| json!({ "name": p.name.to_string(), "type": p.ty.to_string() }))
            .collect::<Vec<_>>()),
    );

    top.insert("parse_tree".into(), parse_tree_json(l));

    // match block
    let (rows, n_groups, catch_all) = match_rows(l);
    let group_count = if rows.iter().any(|r| r.implicit) {
        n_groups + 1
    } else {
        n_groups
    };
    let mut groups: Vec<Vec<Value>> = vec![Vec::new(); group_count];
    for r in &rows {
        groups[r.group].push(match_row_json(r));
    }
    top.insert("match_block".into(), json!(groups));
    top.insert(
        "match_block_info".into(),
        json!({
            "explicit_groups": n_groups,
            "catch_all": catch_all,
            "entry_count": rows.len(),
            // intern_token::compile appends `(r"^(\s*)", true)` when no entry is a skip entry
            "default_whitespace_skip": l.lowered.intern_token.is_some() && !rows.iter().any(|r| r.skip),
            "lexer_order": l.lowered.intern_token.as_ref().map(|it| it
                .match_entries
                .iter()
                .map(|e| e.match_literal.to_string())
                .collect::<Vec<_>>()),
        }),
    );

    top.insert("terminals".into(), terminals_json(&l.normalized, &rows));

    // lowered
    let written: BTreeSet<String> = l
        .resolved
        .items
        .iter()
        .filter_map(pt::GrammarItem::as_nonterminal)
        .map(|n| n.name.to_string())
        .collect();
    let lowered_count = l.lowered.action_fn_defns.len();
    let all_defns: Vec<Value> = (0..l.normalized.action_fn_defns.len())
        .map(|i| action_defn_json(&l.normalized, i, lowered_count))
        .collect();
    // the inliner only appends: the lowered definitions are a prefix of the normalised ones
    for i in 0..lowered_count {
        if l.lowered.action_fn_defns[i] != l.normalized.action_fn_defns[i] {
            return Err(format!("action {} changed during inlining", i));
        }
    }
    let origin: Map<String, Value> = l
        .lowered
        .nonterminals
        .values()
        .filter(|d| !written.contains(&d.name.to_string()))
        .map(|d| {
            let name = d.name.to_string();
            let is_start = l
                .lowered
                .start_nonterminals
                .iter()
                .find(|(_, v)| v.to_string() == name)
                .map(|(k, _)| k.to_string());
            (name.clone(), origin_json(&name, is_start))
        })
        .collect();
    top.insert(
        "lowered".into(),
        json!({
            "productions": productions_json(l, &l.lowered),
            "nonterminals": nonterminals_json(l, &l.lowered, &written),
            "action_fn_defns": all_defns[..lowered_count].to_vec(),
            "action_fn_count": lowered_count,
            "action_param_rule": action_param_rule(&l.lowered),
            "nonterminal_origin": origin,
            "start_nonterminals": l.lowered.start_nonterminals.iter()
                .map(|(k, v)| (k.to_string(), json!(v.to_string())))
                .collect::<Map<String, Value>>(),
        }),
    );
    top.insert(
        "normalized".into(),
        json!({
            "productions": productions_json(l, &l.normalized),
            "nonterminals": nonterminals_json(l, &l.normalized, &written),
            "action_fn_defns": all_defns,
            "action_fn_count": l.normalized.action_fn_defns.len(),
        }),
    );

    // sets over the lowered grammar
    let s = sets::compute(&l.lowered);
    top.insert(
        "nullable".into(),
        Value::Object(s.nullable.iter().map(|(k, v)| (k.clone(), json!(v))).collect()),
    );
    top.insert("first".into(), sets_json(&s.first));
    top.insert("last".into(), sets_json(&s.last));

    // automata
    let starts: Vec<String> = match &opts.automata {
        Some(v) => v.clone(),
        None => l
            .normalized
            .start_nonterminals
            .keys()
            .map(|k| k.to_string())
            .collect(),
    };
    let mut autos = Vec::new();
    for st in &starts {
        autos.push(automata::automaton_json(&l.normalized, st)?);
    }
    top.insert("automata".into(), json!(autos));

    // token DFAs
    let mut dfas = Vec::new();
    for r in &rows {
        let d = dfa::build(r.kind, &r.pattern)
            .map_err(|e| format!("pattern {:?}: {}", r.pattern, e))?;
        dfas.push(json!({
            "pattern_kind": r.kind.as_str(),
            "pattern": r.pattern,
            "user_name": r.user_name,
            "terminal": r.terminal,
            "skip": r.skip,
            "group": r.group,
            "implicit": r.implicit,
            "precedence": r.precedence,
            "match_index": r.match_index,
            "leftmost_first": crate::lfcheck::facts_json(r.kind, &r.pattern),
            "dfa": d.to_json(),
            "lf_dfa": crate::lfcheck::build_lf_dfa(r.kind, &r.pattern)
                .map(|d| d.to_json())
                .unwrap_or(Value::Null),
        }));
    }
    top.insert("token_dfas".into(), json!(dfas));

    Ok(Value::Object(top))
}
