//! nullable / FIRST / LAST over a `repr::Grammar` by plain fixpoint iteration.
//! (lalrpop's own `lr1::first::FirstSets` only offers FIRST with EOF doubling as the epsilon
//! flag and needs the LR(1) TLS; LAST does not exist there.)

use lalrpop::grammar::repr as r;
use std::collections::{BTreeMap, BTreeSet};

pub struct Sets {
    pub nullable: BTreeMap<String, bool>,
    pub first: BTreeMap<String, BTreeSet<String>>,
    pub last: BTreeMap<String, BTreeSet<String>>,
}

pub fn compute(g: &r::Grammar) -> Sets {
    let names: Vec<String> = g.nonterminals.keys().map(|k| k.to_string()).collect();
    let mut nullable: BTreeMap<String, bool> = names.iter().map(|n| (n.clone(), false)).collect();
    let mut first: BTreeMap<String, BTreeSet<String>> =
        names.iter().map(|n| (n.clone(), BTreeSet::new())).collect();
    let mut last = first.clone();

    let prods: Vec<(String, Vec<(bool, String)>)> = g
        .nonterminals
        .values()
        .flat_map(|d| d.productions.iter())
        .map(|p| {
            (
                p.nonterminal.to_string(),
                p.symbols
                    .iter()
                    .map(|s| match s {
                        r::Symbol::Terminal(t) => (true, t.to_string()),
                        r::Symbol::Nonterminal(n) => (false, n.to_string()),
                    })
                    .collect(),
            )
        })
        .collect();

    let mut changed = true;
    while changed {
        changed = false;
        for (nt, syms) in &prods {
            // nullable
            let all_null = syms
                .iter()
                .all(|(is_t, n)| !*is_t && *nullable.get(n).unwrap_or(&false));
            if all_null && !nullable[nt] {
                nullable.insert(nt.clone(), true);
                changed = true;
            }
            // first
            let mut add: BTreeSet<String> = BTreeSet::new();
            for (is_t, n) in syms.iter() {
                if *is_t {
                    add.insert(n.clone());
                    break;
                }
                if let Some(f) = first.get(n) {
                    add.extend(f.iter().cloned());
                }
                if !*nullable.get(n).unwrap_or(&false) {
                    break;
                }
            }
            let f = first.get_mut(nt).unwrap();
            let before = f.len();
            f.extend(add);
            changed |= f.len() != before;
            // last
            let mut add: BTreeSet<String> = BTreeSet::new();
            for (is_t, n) in syms.iter().rev() {
                if *is_t {
                    add.insert(n.clone());
                    break;
                }
                if let Some(l) = last.get(n) {
                    add.extend(l.iter().cloned());
                }
                if !*nullable.get(n).unwrap_or(&false) {
                    break;
                }
            }
            let l = last.get_mut(nt).unwrap();
            let before = l.len();
            l.extend(add);
            changed |= l.len() != before;
        }
    }
    Sets {
        nullable,
        first,
        last,
    }
}
