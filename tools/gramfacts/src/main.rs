fn main() { println!("hi"); }
