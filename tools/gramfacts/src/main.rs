//! gramfacts - grammar fact extractor on top of the vendored lalrpop 0.19.8 front-end.
//! See SPEC.md / README.md next to Cargo.toml.

mod automata;
mod dfa;
mod facts;
mod frontend;
mod langdiff;
mod lfcheck;
mod sets;
mod sha256;

use serde_json::{json, Value};
use std::collections::BTreeSet;
use std::io::{Read, Write};

const USAGE: &str = "\
usage:
  gramfacts facts <grammar.lalrpop> [--lock <Cargo.lock>] [--automata all|none|A,B,..]
                  [--features a,b] [--pretty]
  gramfacts regex2dfa [--leftmost-first] [--pretty]
                  (stdin: JSON list of {kind: regex|literal, pattern})
  gramfacts lfcheck [--grammar <grammar.lalrpop>] [--pretty]
                  (stdin: JSON list of {kind: regex|literal, pattern}; with --grammar the
                  match entries of that grammar are checked instead and stdin is not read)
  gramfacts langdiff <ref.lalrpop> <cur.lalrpop> --start NT --bound N [--drop-error-alts]
                  [--max-pairs M] [--pretty]
exit codes: 0 ok / no difference, 1 language difference found (langdiff), 2 usage or input
error, 3 langdiff stopped by --max-pairs before the bound";

fn fail(msg: &str) -> ! {
    eprintln!("gramfacts: {}", msg);
    std::process::exit(2);
}

fn emit(v: &Value, pretty: bool) {
    let s = if pretty {
        serde_json::to_string_pretty(v).unwrap()
    } else {
        serde_json::to_string(v).unwrap()
    };
    let out = std::io::stdout();
    let mut out = out.lock();
    out.write_all(s.as_bytes()).unwrap();
    out.write_all(b"\n").unwrap();
}

/// Versions of every `lalrpop` package entry of a Cargo.lock.
fn lalrpop_versions_in_lock(text: &str) -> Vec<String> {
    let mut out = Vec::new();
    let mut name: Option<String> = None;
    let mut version: Option<String> = None;
    let mut flush = |name: &mut Option<String>, version: &mut Option<String>| {
        if name.as_deref() == Some("lalrpop") {
            out.push(version.clone().unwrap_or_default());
        }
        *name = None;
        *version = None;
    };
    for line in text.lines() {
        let line = line.trim();
        if line == "[[package]]" {
            flush(&mut name, &mut version);
        } else if let Some(rest) = line.strip_prefix("name = ") {
            name = Some(rest.trim_matches('"').to_string());
        } else if let Some(rest) = line.strip_prefix("version = ") {
            if name.is_some() && version.is_none() {
                version = Some(rest.trim_matches('"').to_string());
            }
        }
    }
    flush(&mut name, &mut version);
    out
}

struct Args {
    positional: Vec<String>,
    options: Vec<(String, Option<String>)>,
}

fn parse_args(args: &[String], with_value: &[&str], flags: &[&str]) -> Args {
    let mut positional = Vec::new();
    let mut options = Vec::new();
    let mut i = 0;
    while i < args.len() {
        let a = &args[i];
        if with_value.contains(&a.as_str()) {
            if i + 1 >= args.len() {
                fail(&format!("option {} needs a value\n{}", a, USAGE));
            }
            options.push((a.clone(), Some(args[i + 1].clone())));
            i += 2;
        } else if flags.contains(&a.as_str()) {
            options.push((a.clone(), None));
            i += 1;
        } else if a.starts_with("--") {
            fail(&format!("unknown option {}\n{}", a, USAGE));
        } else {
            positional.push(a.clone());
            i += 1;
        }
    }
    Args { positional, options }
}

impl Args {
    fn value(&self, name: &str) -> Option<&str> {
        self.options
            .iter()
            .rev()
            .find(|(n, _)| n == name)
            .and_then(|(_, v)| v.as_deref())
    }
    fn flag(&self, name: &str) -> bool {
        self.options.iter().any(|(n, _)| n == name)
    }
}

fn cmd_facts(args: &[String]) {
    let a = parse_args(args, &["--lock", "--automata", "--features"], &["--pretty"]);
    if a.positional.len() != 1 {
        fail(&format!("facts needs exactly one grammar file\n{}", USAGE));
    }
    if let Some(lock) = a.value("--lock") {
        let text = std::fs::read_to_string(lock)
            .unwrap_or_else(|e| fail(&format!("cannot read {}: {}", lock, e)));
        let versions = lalrpop_versions_in_lock(&text);
        if versions.is_empty() {
            fail(&format!("{}: no `lalrpop` package entry found", lock));
        }
        for v in &versions {
            if v != facts::VENDORED_LALRPOP_VERSION {
                fail(&format!(
                    "{}: lalrpop version {} is locked but the vendored front-end is {}",
                    lock,
                    v,
                    facts::VENDORED_LALRPOP_VERSION
                ));
            }
        }
    }
    let features: Option<BTreeSet<String>> = a.value("--features").map(|s| {
        s.split(',')
            .filter(|x| !x.is_empty())
            .map(|x| x.to_string())
            .collect()
    });
    let automata = match a.value("--automata") {
        None | Some("all") => None,
        Some("none") => Some(Vec::new()),
        Some(list) => Some(list.split(',').map(|s| s.to_string()).collect()),
    };
    let loaded = frontend::load(
        &a.positional[0],
        &frontend::LoadOptions {
            drop_error_alts: false,
            features,
        },
    )
    .unwrap_or_else(|e| fail(&e));
    let v = facts::facts(&loaded, &facts::FactsOptions { automata }).unwrap_or_else(|e| fail(&e));
    emit(&v, a.flag("--pretty"));
}

fn cmd_regex2dfa(args: &[String]) {
    let a = parse_args(args, &[], &["--pretty", "--leftmost-first"]);
    let lf = a.flag("--leftmost-first");
    let build = |kind: dfa::PatternKind, p: &str| {
        if lf {
            lfcheck::build_lf_dfa(kind, p)
        } else {
            dfa::build(kind, p)
        }
    };
    if !a.positional.is_empty() {
        fail(&format!("regex2dfa reads its input from stdin\n{}", USAGE));
    }
    let mut input = String::new();
    std::io::stdin()
        .read_to_string(&mut input)
        .unwrap_or_else(|e| fail(&format!("stdin: {}", e)));
    let v: Value =
        serde_json::from_str(&input).unwrap_or_else(|e| fail(&format!("stdin is not JSON: {}", e)));
    let list = v
        .as_array()
        .unwrap_or_else(|| fail("stdin must be a JSON list"));
    let mut out = Vec::new();
    let mut errors = 0;
    for (i, item) in list.iter().enumerate() {
        let kind = item.get("kind").and_then(|k| k.as_str());
        let pattern = item.get("pattern").and_then(|k| k.as_str());
        let res = match (kind, pattern) {
            (Some("regex"), Some(p)) => build(dfa::PatternKind::Regex, p),
            (Some("literal"), Some(p)) => build(dfa::PatternKind::Literal, p),
            _ => Err("entry must be {kind: \"regex\"|\"literal\", pattern: <string>}".to_string()),
        };
        match res {
            Ok(d) => out.push(d.to_json()),
            Err(e) => {
                eprintln!("gramfacts: regex2dfa entry {}: {}", i, e);
                errors += 1;
                out.push(json!({ "error": e }));
            }
        }
    }
    emit(&Value::Array(out), a.flag("--pretty"));
    if errors > 0 {
        std::process::exit(2);
    }
}

/// Patterns for `lfcheck`: the match entries of a grammar, or the JSON list on stdin.
fn lfcheck_inputs(a: &Args) -> Vec<Result<(dfa::PatternKind, String), String>> {
    if let Some(path) = a.value("--grammar") {
        let loaded = frontend::load(
            path,
            &frontend::LoadOptions {
                drop_error_alts: false,
                features: None,
            },
        )
        .unwrap_or_else(|e| fail(&e));
        let (rows, _, _) = facts::match_rows(&loaded);
        return rows.into_iter().map(|r| Ok((r.kind, r.pattern))).collect();
    }
    let mut input = String::new();
    std::io::stdin()
        .read_to_string(&mut input)
        .unwrap_or_else(|e| fail(&format!("stdin: {}", e)));
    let v: Value =
        serde_json::from_str(&input).unwrap_or_else(|e| fail(&format!("stdin is not JSON: {}", e)));
    let list = v
        .as_array()
        .unwrap_or_else(|| fail("stdin must be a JSON list"));
    list.iter()
        .map(|item| {
            let kind = item.get("kind").and_then(|k| k.as_str());
            let pattern = item.get("pattern").and_then(|k| k.as_str());
            match (kind, pattern) {
                (Some("regex"), Some(p)) => Ok((dfa::PatternKind::Regex, p.to_string())),
                (Some("literal"), Some(p)) => Ok((dfa::PatternKind::Literal, p.to_string())),
                _ => Err("entry must be {kind: \"regex\"|\"literal\", pattern: <string>}".to_string()),
            }
        })
        .collect()
}

fn cmd_lfcheck(args: &[String]) {
    // --selftest / --budget are deliberately not in USAGE (validation against the regex crate)
    let a = parse_args(args, &["--grammar", "--budget"], &["--pretty", "--selftest"]);
    if !a.positional.is_empty() {
        fail(&format!("lfcheck takes no positional arguments\n{}", USAGE));
    }
    let budget: usize = match a.value("--budget") {
        Some(v) => v
            .parse()
            .unwrap_or_else(|_| fail("--budget must be an integer")),
        None => 4000,
    };
    let selftest = a.flag("--selftest");
    let mut out = Vec::new();
    let mut errors = 0;
    let mut failed = 0;
    for (i, item) in lfcheck_inputs(&a).into_iter().enumerate() {
        let res = item.and_then(|(kind, pattern)| {
            if selftest {
                lfcheck::selftest(kind, &pattern, budget)
            } else {
                lfcheck::check_json(kind, &pattern)
            }
        });
        match res {
            Ok(v) => {
                if selftest && v["ok"] != json!(true) {
                    eprintln!("gramfacts: lfcheck selftest entry {} FAILED: {}", i, v["failures"]);
                    failed += 1;
                }
                out.push(v)
            }
            Err(e) => {
                eprintln!("gramfacts: lfcheck entry {}: {}", i, e);
                errors += 1;
                out.push(json!({ "error": e }));
            }
        }
    }
    emit(&Value::Array(out), a.flag("--pretty"));
    if errors > 0 {
        std::process::exit(2);
    }
    if failed > 0 {
        std::process::exit(1);
    }
}

fn cmd_langdiff(args: &[String]) {
    let a = parse_args(
        args,
        &["--start", "--bound", "--max-pairs", "--threads"],
        &["--drop-error-alts", "--pretty"],
    );
    if a.positional.len() != 2 {
        fail(&format!("langdiff needs <ref.lalrpop> <cur.lalrpop>\n{}", USAGE));
    }
    let start = a
        .value("--start")
        .unwrap_or_else(|| fail("langdiff needs --start <nonterminal>"));
    let bound: usize = a
        .value("--bound")
        .unwrap_or_else(|| fail("langdiff needs --bound <N>"))
        .parse()
        .unwrap_or_else(|_| fail("--bound must be a non-negative integer"));
    let max_pairs: usize = match a.value("--max-pairs") {
        Some(v) => v
            .parse()
            .unwrap_or_else(|_| fail("--max-pairs must be an integer")),
        None => 400_000_000,
    };
    let opts = langdiff::Options {
        ref_path: a.positional[0].clone(),
        cur_path: a.positional[1].clone(),
        start: start.to_string(),
        bound,
        drop_error_alts: a.flag("--drop-error-alts"),
        max_pairs,
    };
    let (v, code) = langdiff::run(&opts).unwrap_or_else(|e| fail(&e));
    emit(&v, a.flag("--pretty"));
    std::process::exit(code);
}

fn main() {
    let args: Vec<String> = std::env::args().skip(1).collect();
    if args.is_empty() {
        fail(USAGE);
    }
    match args[0].as_str() {
        "facts" => cmd_facts(&args[1..]),
        "regex2dfa" => cmd_regex2dfa(&args[1..]),
        "lfcheck" => cmd_lfcheck(&args[1..]),
        "langdiff" => cmd_langdiff(&args[1..]),
        "-h" | "--help" | "help" => {
            println!("{}", USAGE);
        }
        other => fail(&format!("unknown sub-command `{}`\n{}", other, USAGE)),
    }
}
