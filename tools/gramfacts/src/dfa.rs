//! Single-pattern DFAs over Unicode scalar values.
//!
//! Pipeline: pattern text -> `lalrpop::lexer::re` (regex-syntax 0.6 `Hir`, the parse the
//! generator itself uses) -> `lalrpop::lexer::nfa::NFA` -> `lalrpop::lexer::dfa::build_dfa`
//! (lalrpop's subset construction, one regex, precedence 0).  The result is then converted by
//! this module to an explicit interval automaton: the `other` edge is expanded to the complement
//! ranges, dead states are removed (a missing edge = reject), the automaton is minimised
//! (Moore refinement over the atomic intervals) and renumbered breadth-first from the start
//! state, so the exported form is canonical for the language.

use lalrpop::lexer::dfa::{self, Kind, Precedence};
use lalrpop::lexer::re;
use serde_json::{json, Value};
use std::collections::{BTreeMap, BTreeSet, VecDeque};

pub const MAX_SCALAR: u32 = 0x10FFFF;
const SURR_LO: u32 = 0xD800;
const SURR_HI: u32 = 0xDFFF;

#[derive(Clone, Debug, PartialEq, Eq)]
pub struct Dfa {
    pub start: usize,
    pub states: Vec<DfaState>,
}

#[derive(Clone, Debug, PartialEq, Eq)]
pub struct DfaState {
    pub accept: bool,
    /// disjoint, sorted, inclusive ranges of Unicode scalar values
    pub edges: Vec<(u32, u32, usize)>,
}

#[derive(Clone, Copy, Debug, PartialEq, Eq)]
pub enum PatternKind {
    Literal,
    Regex,
}

impl PatternKind {
    pub fn as_str(self) -> &'static str {
        match self {
            PatternKind::Literal => "literal",
            PatternKind::Regex => "regex",
        }
    }
}

pub fn parse_pattern(kind: PatternKind, pattern: &str) -> Result<re::Regex, String> {
    match kind {
        PatternKind::Literal => Ok(re::parse_literal(pattern)),
        PatternKind::Regex => {
            re::parse_regex(pattern).map_err(|e| format!("invalid regular expression: {}", e))
        }
    }
}

/// Build the canonical single-pattern DFA.
pub fn build(kind: PatternKind, pattern: &str) -> Result<Dfa, String> {
    let regex = parse_pattern(kind, pattern)?;
    let raw = dfa::build_dfa(&[regex], &[Precedence(0)]).map_err(|e| match e {
        dfa::DFAConstructionError::NFAConstructionError { error, .. } => {
            format!("unsupported regular expression feature: {:?}", error)
        }
        dfa::DFAConstructionError::Ambiguity { .. } => "ambiguity in single-pattern DFA".to_string(),
    })?;
    Ok(minimize(&from_lalrpop(&raw)))
}

/// Remove the surrogate block from an inclusive range (0, 1 or 2 result ranges).
fn scalar_ranges(lo: u32, hi: u32, out: &mut Vec<(u32, u32)>) {
    let hi = hi.min(MAX_SCALAR);
    if lo > hi {
        return;
    }
    if hi < SURR_LO || lo > SURR_HI {
        out.push((lo, hi));
        return;
    }
    if lo < SURR_LO {
        out.push((lo, SURR_LO - 1));
    }
    if hi > SURR_HI {
        out.push((SURR_HI + 1, hi));
    }
}

/// Expand lalrpop's `test_edges` + `other_edge` representation to explicit ranges.
fn from_lalrpop(raw: &dfa::DFA) -> Dfa {
    let mut states = Vec::with_capacity(raw.states.len());
    for st in &raw.states {
        let accept = matches!(st.kind, Kind::Accepts(_));
        // test edges: [start, end) in u32; remove_overlap made them disjoint
        let mut tests: Vec<(u32, u32, usize)> = st
            .test_edges
            .iter()
            .filter(|(t, _)| t.end > t.start)
            .map(|(t, to)| (t.start, t.end - 1, to.index()))
            .collect();
        tests.sort();
        for w in tests.windows(2) {
            assert!(w[0].1 < w[1].0, "lalrpop DFA test edges overlap");
        }
        let other = st.other_edge.index();
        let mut edges: Vec<(u32, u32, usize)> = Vec::new();
        let mut tmp = Vec::new();
        let mut next: u32 = 0; // first code point not yet covered
        let mut covered_all = false;
        for &(lo, hi, to) in &tests {
            if lo > next {
                tmp.clear();
                scalar_ranges(next, lo - 1, &mut tmp);
                edges.extend(tmp.iter().map(|&(a, b)| (a, b, other)));
            }
            tmp.clear();
            scalar_ranges(lo, hi, &mut tmp);
            edges.extend(tmp.iter().map(|&(a, b)| (a, b, to)));
            if hi >= MAX_SCALAR {
                covered_all = true;
                break;
            }
            next = hi + 1;
        }
        if !covered_all {
            tmp.clear();
            scalar_ranges(next, MAX_SCALAR, &mut tmp);
            edges.extend(tmp.iter().map(|&(a, b)| (a, b, other)));
        }
        states.push(DfaState { accept, edges });
    }
    Dfa { start: 0, states }
}

/// Moore minimisation + dead state removal + canonical renumbering.
pub fn minimize(d: &Dfa) -> Dfa {
    let n = d.states.len();
    let dead = n; // virtual sink
    // atomic intervals
    let mut bounds: BTreeSet<u32> = BTreeSet::new();
    bounds.insert(0);
    for st in &d.states {
        for &(lo, hi, _) in &st.edges {
            bounds.insert(lo);
            bounds.insert(hi + 1);
        }
    }
    let bounds: Vec<u32> = bounds.into_iter().collect();
    // atoms: [bounds[i], bounds[i+1]-1]; the last bound opens an atom up to MAX_SCALAR (if any)
    let mut atoms: Vec<(u32, u32)> = Vec::new();
    for i in 0..bounds.len() {
        let lo = bounds[i];
        let hi = if i + 1 < bounds.len() {
            bounds[i + 1] - 1
        } else {
            MAX_SCALAR
        };
        if lo <= hi && lo <= MAX_SCALAR {
            atoms.push((lo, hi.min(MAX_SCALAR)));
        }
    }
    // transition table
    let mut delta: Vec<Vec<usize>> = vec![vec![dead; atoms.len()]; n + 1];
    for (s, st) in d.states.iter().enumerate() {
        for &(lo, hi, to) in &st.edges {
            // atoms are aligned to edge bounds
            let first = atoms.partition_point(|a| a.0 < lo);
            let mut k = first;
            while k < atoms.len() && atoms[k].1 <= hi {
                if atoms[k].0 >= lo {
                    delta[s][k] = to;
                }
                k += 1;
            }
        }
    }
    // Moore refinement
    let mut class: Vec<usize> = (0..=n)
        .map(|s| if s < n && d.states[s].accept { 1 } else { 0 })
        .collect();
    loop {
        let mut sig_ids: BTreeMap<(usize, Vec<usize>), usize> = BTreeMap::new();
        let mut new_class = vec![0usize; n + 1];
        for s in 0..=n {
            let sig: Vec<usize> = delta[s].iter().map(|&t| class[t]).collect();
            let key = (class[s], sig);
            let next_id = sig_ids.len();
            let id = *sig_ids.entry(key).or_insert(next_id);
            new_class[s] = id;
        }
        let changed = sig_ids.len() != class.iter().collect::<BTreeSet<_>>().len();
        class = new_class;
        if !changed {
            break;
        }
    }
    let dead_class = class[dead];
    // representative per class
    let mut repr: BTreeMap<usize, usize> = BTreeMap::new();
    for s in 0..=n {
        repr.entry(class[s]).or_insert(s);
    }
    // BFS renumbering from the start class, skipping the dead class
    let start_class = class[d.start];
    let mut order: Vec<usize> = Vec::new();
    let mut number: BTreeMap<usize, usize> = BTreeMap::new();
    let mut queue = VecDeque::new();
    number.insert(start_class, 0);
    order.push(start_class);
    queue.push_back(start_class);
    while let Some(c) = queue.pop_front() {
        if c == dead_class {
            continue;
        }
        let s = repr[&c];
        for k in 0..atoms.len() {
            let tc = class[delta[s][k]];
            if tc == dead_class {
                continue;
            }
            if !number.contains_key(&tc) {
                number.insert(tc, order.len());
                order.push(tc);
                queue.push_back(tc);
            }
        }
    }
    let mut states = Vec::with_capacity(order.len());
    for &c in &order {
        let s = repr[&c];
        let accept = s < n && d.states[s].accept;
        let mut edges: Vec<(u32, u32, usize)> = Vec::new();
        if c != dead_class {
            for k in 0..atoms.len() {
                let tc = class[delta[s][k]];
                if tc == dead_class {
                    continue;
                }
                let to = number[&tc];
                let (lo, hi) = atoms[k];
                if let Some(last) = edges.last_mut() {
                    if last.2 == to && last.1 + 1 == lo {
                        last.1 = hi;
                        continue;
                    }
                }
                edges.push((lo, hi, to));
            }
        }
        states.push(DfaState { accept, edges });
    }
    Dfa { start: 0, states }
}

impl Dfa {
    #[allow(dead_code)]
    pub fn accepts(&self, s: &str) -> bool {
        let mut cur = self.start;
        for ch in s.chars() {
            let c = ch as u32;
            let st = &self.states[cur];
            match st.edges.iter().find(|e| e.0 <= c && c <= e.1) {
                Some(e) => cur = e.2,
                None => return false,
            }
        }
        self.states[cur].accept
    }

    pub fn to_json(&self) -> Value {
        let states: Vec<Value> = self
            .states
            .iter()
            .map(|s| {
                json!({
                    "accept": s.accept,
                    "edges": s.edges.iter().map(|&(lo, hi, to)| json!([lo, hi, to])).collect::<Vec<_>>(),
                })
            })
            .collect();
        json!({ "start": self.start, "states": states })
    }

    /// Strings of the language in shortest-first order (one representative character per edge,
    /// preferring a lowercase letter / digit inside the range), at most `limit` results.
    pub fn sample_strings(&self, limit: usize, max_len: usize) -> Vec<String> {
        let mut out = Vec::new();
        let mut queue: VecDeque<(usize, String)> = VecDeque::new();
        queue.push_back((self.start, String::new()));
        let mut expanded = 0usize;
        while let Some((st, s)) = queue.pop_front() {
            if self.states[st].accept {
                out.push(s.clone());
                if out.len() >= limit {
                    break;
                }
            }
            if s.chars().count() >= max_len {
                continue;
            }
            expanded += 1;
            if expanded > 20_000 {
                break;
            }
            for &(lo, hi, to) in &self.states[st].edges {
                let pick = ['x' as u32, 'a' as u32, 'A' as u32, '1' as u32, '0' as u32]
                    .iter()
                    .cloned()
                    .find(|c| lo <= *c && *c <= hi)
                    .unwrap_or(lo);
                if let Some(ch) = char::from_u32(pick) {
                    let mut t = s.clone();
                    t.push(ch);
                    queue.push_back((to, t));
                }
            }
        }
        out
    }
}

/// Run lalrpop's *combined* tokenizer DFA (`InternToken::dfa`, built by `token_check` from all
/// match entries with their precedences) over a whole string; returns the index of the match
/// entry that wins for exactly this string, if any.
pub fn combined_dfa_match(d: &dfa::DFA, s: &str) -> Option<usize> {
    let mut cur = 0usize;
    for ch in s.chars() {
        let c = ch as u32;
        let st = &d.states[cur];
        let mut next = st.other_edge.index();
        for (t, to) in &st.test_edges {
            if t.start <= c && c < t.end {
                next = to.index();
                break;
            }
        }
        cur = next;
    }
    match d.states[cur].kind {
        Kind::Accepts(i) => Some(i.index()),
        _ => None,
    }
}
