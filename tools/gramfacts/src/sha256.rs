//! Small self-contained SHA-256 (FIPS 180-4) so the tool needs no extra crate.

const K: [u32; 64] = [
    0x428a2f98, 0x71374491, 0xb5c0fbcf, 0xe9b5dba5, 0x3956c25b, 0x59f111f1, 0x923f82a4, 0xab1c5ed5,
    0xd807aa98, 0x12835b01, 0x243185be, 0x550c7dc3, 0x72be5d74, 0x80deb1fe, 0x9bdc06a7, 0xc19bf174,
    0xe49b69c1, 0xefbe4786, 0x0fc19dc6, 0x240ca1cc, 0x2de92c6f, 0x4a7484aa, 0x5cb0a9dc, 0x76f988da,
    0x983e5152, 0xa831c66d, 0xb00327c8, 0xbf597fc7, 0xc6e00bf3, 0xd5a79147, 0x06ca6351, 0x14292967,
    0x27b70a85, 0x2e1b2138, 0x4d2c6dfc, 0x53380d13, 0x650a7354, 0x766a0abb, 0x81c2c92e, 0x92722c85,
    0xa2bfe8a1, 0xa81a664b, 0xc24b8b70, 0xc76c51a3, 0xd192e819, 0xd6990624, 0xf40e3585, 0x106aa070,
    0x19a4c116, 0x1e376c08, 0x2748774c, 0x34b0bcb5, 0x391c0cb3, 0x4ed8aa4a, 0x5b9cca4f, 0x682e6ff3,
    0x748f82ee, 0x78a5636f, 0x84c87814, 0x8cc70208, 0x90befffa, 0xa4506ceb, 0xbef9a3f7, 0xc67178f2,
];

pub fn digest(data: &[u8]) -> [u8; 32] {
    let mut h: [u32; 8] = [
        0x6a09e667, 0xbb67ae85, 0x3c6ef372, 0xa54ff53a, 0x510e527f, 0x9b05688c, 0x1f83d9ab,
        0x5be0cd19,
    ];
    let mut msg = data.to_vec();
    let bit_len = (data.len() as u64).wrapping_mul(8);
    msg.push(0x80);
    while msg.len() % 64 != 56 {
        msg.push(0);
    }
    msg.extend_from_slice(&bit_len.to_be_bytes());
    for chunk in msg.chunks(64) {
        let mut w = [0u32; 64];
        for i in 0..16 {
            w[i] = u32::from_be_bytes([chunk[4 * i], chunk[4 * i + 1], chunk[4 * i + 2], chunk[4 * i + 3]]);
        }
        for i in 16..64 {
            let s0 = w[i - 15].rotate_right(7) ^ w[i - 15].rotate_right(18) ^ (w[i - 15] >> 3);
            let s1 = w[i - 2].rotate_right(17) ^ w[i - 2].rotate_right(19) ^ (w[i - 2] >> 10);
            w[i] = w[i - 16]
                .wrapping_add(s0)
                .wrapping_add(w[i - 7])
                .wrapping_add(s1);
        }
        let mut a = h;
        for i in 0..64 {
            let s1 = a[4].rotate_right(6) ^ a[4].rotate_right(11) ^ a[4].rotate_right(25);
            let ch = (a[4] & a[5]) ^ (!a[4] & a[6]);
            let t1 = a[7]
                .wrapping_add(s1)
                .wrapping_add(ch)
                .wrapping_add(K[i])
                .wrapping_add(w[i]);
            let s0 = a[0].rotate_right(2) ^ a[0].rotate_right(13) ^ a[0].rotate_right(22);
            let maj = (a[0] & a[1]) ^ (a[0] & a[2]) ^ (a[1] & a[2]);
            let t2 = s0.wrapping_add(maj);
            a[7] = a[6];
            a[6] = a[5];
            a[5] = a[4];
            a[4] = a[3].wrapping_add(t1);
            a[3] = a[2];
            a[2] = a[1];
            a[1] = a[0];
            a[0] = t1.wrapping_add(t2);
        }
        for i in 0..8 {
            h[i] = h[i].wrapping_add(a[i]);
        }
    }
    let mut out = [0u8; 32];
    for i in 0..8 {
        out[4 * i..4 * i + 4].copy_from_slice(&h[i].to_be_bytes());
    }
    out
}

pub fn hex(data: &[u8]) -> String {
    digest(data).iter().map(|b| format!("{:02x}", b)).collect()
}
