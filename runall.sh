#!/bin/sh
# runs every claimed check (quick by default) in parallel; usage: ./runall.sh [quick|thorough]
cd "$(dirname "$0")"
tier=${1:-quick}
python3 -c "import sys; sys.path.insert(0,'rules'); import core; core.ensure_facts()" || exit 2
ids=$(python3 -c "import json; print(' '.join(c['property_id'] for c in json.load(open('MANIFEST.json'))['checks']))")
rc=0
for i in $ids; do ( ./check $i --tier $tier > .work/out.$i 2>&1; echo $? > .work/rc.$i ) & done; wait
for i in $ids; do tail -1 .work/out.$i; grep -E "^VIOLATION" .work/out.$i; [ "$(cat .work/rc.$i)" = 0 ] || rc=1; done
exit $rc
