#!/bin/bash
# usage: corpus_ids.sh <verif home> <file with patch paths> <ID ...>  - runs only the given checks on each patch (no cargo test): quick regression of a rule change
V=$1; list=$2; shift 2
while read f; do
  n=$(basename "$f" .diff)
  W=$(mktemp -d /tmp/corpwt.XXXXXX); rmdir "$W"
  git -C /repo worktree add -q --detach "$W" HEAD || exit 3
  if ! git -C "$W" apply "$f" 2>/dev/null; then echo "$n: PATCH DOES NOT APPLY"; git -C /repo worktree remove --force "$W"; continue; fi
  fired=""
  for id in "$@"; do
    out=$(VERIF_REPO="$W" $V/check "$id" 2>&1); rc=$?
    if [ $rc -ne 0 ]; then fired="$fired $id"; echo "$out" | grep -E "rule=" | head -3 | sed "s/^/      [$n $id]/"; fi
  done
  echo "$n: checks firing:${fired:- none}"
  git -C /repo worktree remove --force "$W"
done < "$list"
