#!/bin/bash
# usage: seedeval.sh <dir with patch.diff + seed_demo.rs> [ID ...]
# Confirms a seeded change in a scratch worktree of /repo (demo passes without / fails with the change,
# full suite passes with it), then runs the given checks (default: all) against the changed tree.
set -u
dir=$(readlink -f "$1"); shift
V=${VERIF_HOME:-/verif}   # a frozen copy of /verif may be used so that rules can be edited while seeds are evaluated
ids="$*"
[ -z "$ids" ] && ids=$(python3 -c "import json; print(' '.join(c['property_id'] for c in json.load(open('$V/MANIFEST.json'))['checks']))")
W=$(mktemp -d /tmp/seedwt.XXXXXX); rmdir "$W"
git -C /repo worktree add -q "$W" HEAD || exit 3
export CARGO_NET_OFFLINE=true
export CARGO_TARGET_DIR=${CARGO_TARGET_DIR:-/tmp/seedeval-target}
res="$dir/EVAL.txt"; : > "$res"
cp "$dir/seed_demo.rs" "$W/tests/seed_demo.rs"
( cd "$W" && cargo test --offline --test seed_demo > "$W/demo_clean.log" 2>&1 ); rc_clean=$?
echo "demo on unchanged tree: rc=$rc_clean (expect 0)" | tee -a "$res"
if ! git -C "$W" apply "$dir/patch.diff"; then echo "PATCH DOES NOT APPLY" | tee -a "$res"; git -C /repo worktree remove --force "$W"; exit 4; fi
( cd "$W" && cargo test --offline --test seed_demo > "$W/demo_changed.log" 2>&1 ); rc_changed=$?
echo "demo with change: rc=$rc_changed (expect != 0)" | tee -a "$res"
rm "$W/tests/seed_demo.rs"
( cd "$W" && cargo test --offline > "$W/suite.log" 2>&1 ); rc_suite=$?
echo "existing suite with change: rc=$rc_suite (expect 0) $(grep -c '^test result: ok' "$W/suite.log") ok-groups, $(grep -E '^test result' "$W/suite.log" | tr '\n' ' ' | cut -c1-200)" | tee -a "$res"
caught=""
for id in $ids; do
  out=$(VERIF_REPO="$W" $V/check "$id" 2>&1); rc=$?
  if [ $rc -ne 0 ]; then caught="$caught $id"; echo "--- $id reports:" >> "$res"; echo "$out" | grep -E "rule=|^  [a-zA-Z]" | cut -c1-400 | head -12 >> "$res"; fi
done
echo "checks that report a violation:${caught:- NONE}" | tee -a "$res"
git -C /repo worktree remove --force "$W"
