#!/bin/bash
# usage: seed_own.sh <verif home> <file with seed directory names>  - regression: applies each confirmed seeded change to a scratch
# worktree and runs only the check of the property it was written against (no cargo test: the change was confirmed when collected)
V=$1; list=$2
while read d; do
  id=${d%%_*}
  W=$(mktemp -d /tmp/seedwt.XXXXXX); rmdir "$W"
  git -C /repo worktree add -q --detach "$W" HEAD || exit 3
  if ! git -C "$W" apply /verif/seeded/$d/patch.diff 2>/dev/null; then echo "$d: PATCH DOES NOT APPLY"; git -C /repo worktree remove --force "$W"; continue; fi
  out=$(VERIF_REPO="$W" $V/check "$id" 2>&1); rc=$?
  if [ $rc -ne 0 ]; then echo "$d: own check $id reports: $(echo "$out" | grep -E 'rule=' | head -2 | tr '\n' ' ' | cut -c1-200)"; else echo "$d: own check $id SILENT"; fi
  git -C /repo worktree remove --force "$W"
done < "$list"
