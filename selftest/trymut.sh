#!/bin/bash
# usage: trymut.sh "<sed -i expression or patch file>" <file relative to repo | -> <ID>...
# copies /repo to a scratch dir, applies the edit, runs the checks with VERIF_REPO, removes the copy
set -u
edit="$1"; file="$2"; shift 2
D=$(mktemp -d /tmp/mut.XXXXXX)
rsync -a --exclude target --exclude .git /repo/ "$D/"
if [ "$file" = "-" ]; then (cd "$D" && patch -p1 -s --no-backup-if-mismatch < "$edit") || { echo "PATCH FAILED"; rm -rf "$D"; exit 3; }
else sed -i "$edit" "$D/$file"; fi
(cd "$D" && diff -r -q /repo/src src | head -3)
rc=0
for id in "$@"; do VERIF_REPO="$D" /verif/check "$id" | grep -E "VIOLATION|KNOWN|rule=|obligations|  [a-z]" | cut -c1-400; done
rm -rf "$D"
