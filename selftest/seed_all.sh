#!/bin/bash
# evaluates every /verif/seeded/<name> with seedeval.sh, 4 at a time (separate cargo target dirs), then writes meta.json
cd /verif/seeded
ls -d */ | sed "s|/||" | grep "${1:-.}" | sort > /tmp/seed_list.txt
n=0
while read d; do
  slot=$((n % 4)); n=$((n+1))
  ( CARGO_TARGET_DIR=/tmp/seedeval-target-$slot /verif/selftest/seedeval.sh /verif/seeded/$d > /tmp/seedeval.$d.log 2>&1 ) &
  if [ $((n % 4)) -eq 0 ]; then wait; fi
done < /tmp/seed_list.txt
wait
python3 /verif/selftest/seed_meta.py
echo done
