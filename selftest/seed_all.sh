#!/bin/bash
# evaluates every /tmp/seed_out/<ID>/<a|b> with seedeval.sh, 4 at a time (separate cargo target dirs)
cd /tmp/seed_out
ls -d C*/[ab] | sort > /tmp/seed_list.txt
run() { d=$1; slot=$2; CARGO_TARGET_DIR=/tmp/seedeval-target-$slot /verif/selftest/seedeval.sh /tmp/seed_out/$d > /tmp/seed_out/$d/EVAL.log 2>&1; }
n=0
while read d; do
  slot=$((n % 4)); n=$((n+1))
  run $d $slot &
  if [ $((n % 4)) -eq 0 ]; then wait; fi
done < /tmp/seed_list.txt
wait
for d in $(cat /tmp/seed_list.txt); do echo "== $d"; cat /tmp/seed_out/$d/EVAL.txt | grep -E "^demo|^existing|^checks"; done > /tmp/seed_out/SUMMARY.txt
echo done
