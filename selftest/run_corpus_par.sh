#!/bin/bash
# usage: run_corpus_par.sh benign|mutants [pattern]   - like run_corpus.sh, four patches at a time (separate cargo target dirs)
kind=$1; pat=${2:-}
ls /verif/selftest/$kind/*${pat}*.diff | sort > /tmp/corpus_list.txt
n=0
while read f; do
  slot=$((n % 4)); n=$((n+1))
  b=$(basename "$f" .diff)
  ( CORPUS_SLOT=$slot /verif/selftest/run_corpus_one.sh "$f" > /tmp/corpus.$b.log 2>&1 ) &
  if [ $((n % 4)) -eq 0 ]; then wait; fi
done < /tmp/corpus_list.txt
wait
while read f; do b=$(basename "$f" .diff); cat /tmp/corpus.$b.log; rm -f /tmp/corpus.$b.log; done < /tmp/corpus_list.txt
