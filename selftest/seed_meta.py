#!/usr/bin/env python3
"""writes /verif/seeded/<name>/meta.json from NOTES.md (sub-agent's own description) and EVAL.txt (our confirmation run)"""
import json, os, re
base = "/verif/seeded"
rows = []
for d in sorted(os.listdir(base)):
    p = os.path.join(base, d)
    if not os.path.isdir(p) or not os.path.exists(os.path.join(p, "EVAL.txt")):
        continue
    ev = open(os.path.join(p, "EVAL.txt")).read()
    notes = open(os.path.join(p, "NOTES.md")).read() if os.path.exists(os.path.join(p, "NOTES.md")) else ""
    prop = d.split("_")[0]
    g = lambda pat: (re.search(pat, ev) or [None, None])[1]
    checks = (re.search(r"checks that report a violation:(.*)", ev) or [None, ""])[1].split()
    checks = [c for c in checks if c != "NONE"]
    reports = {}
    for m in re.finditer(r"--- (C\d+) reports:\n((?:.+\n)+?)(?=---|checks that)", ev):
        keys = re.findall(r"key=(.*)", m.group(2))
        reports[m.group(1)] = keys[:4]
    files = sorted(set(re.findall(r"^\+\+\+ b/(\S+)", open(os.path.join(p, "patch.diff")).read(), re.M)))
    # first paragraph-ish lines of the notes
    summ = " ".join(l.strip() for l in notes.split("\n") if l.strip() and not l.startswith("#"))[:700]
    needs = ""
    m = re.search(r"(?is)(what it needs|needs to manifest|manifest|trigger)[^\n]*\n+(.{0,500})", notes)
    if m:
        needs = " ".join(m.group(2).split())[:400]
    meta = {
        "breaks_property": prop,
        "variant": d.split("_")[1],
        "origin": "independent sub-agent given only the property text and a scratch worktree of /repo (HEAD 1084460)",
        "files_changed": files,
        "what_it_is": summ,
        "needs_to_manifest": needs,
        "confirmation": {
            "ran": "selftest/seedeval.sh %s (scratch worktree of /repo: cargo test --offline --test seed_demo without / with the patch; cargo test --offline with the patch; then every registered check with VERIF_REPO=<worktree>)" % p,
            "demo_on_unchanged_tree_rc": int(g(r"demo on unchanged tree: rc=(\d+)") or -1),
            "demo_with_change_rc": int(g(r"demo with change: rc=(\d+)") or -1),
            "existing_suite_with_change_rc": int(g(r"existing suite with change: rc=(\d+)") or -1),
        },
        "checks_reporting_a_violation": checks,
        "caught_by_the_check_of_its_own_property": prop in checks,
        "violation_keys": reports,
    }
    meta["confirmed"] = meta["confirmation"]["demo_on_unchanged_tree_rc"] == 0 and meta["confirmation"]["demo_with_change_rc"] != 0 and meta["confirmation"]["existing_suite_with_change_rc"] == 0
    json.dump(meta, open(os.path.join(p, "meta.json"), "w"), indent=1)
    rows.append((d, meta["confirmed"], checks))
with open(os.path.join(base, "SUMMARY.md"), "w") as fh:
    fh.write("| seeded change | confirmed | checks that report it |\n|---|---|---|\n")
    for d, c, ch in rows:
        fh.write("| %s | %s | %s |\n" % (d, "yes" if c else "NO", ", ".join(ch) or "none"))
print(len(rows), "seeds;", sum(1 for r in rows if r[2]), "caught;", sum(1 for r in rows if r[0].split("_")[0] in r[2]), "caught by own property")
