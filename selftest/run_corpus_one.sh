#!/bin/bash
# usage: run_corpus_one.sh <patch file>  - applies the patch to a scratch worktree of /repo, runs the library's suite and every check
f=$1
n=$(basename "$f" .diff)
ids=$(python3 -c "import json; print(' '.join(c['property_id'] for c in json.load(open('/verif/MANIFEST.json'))['checks']))")
export CARGO_NET_OFFLINE=true CARGO_TARGET_DIR=/tmp/corpus-target-${CORPUS_SLOT:-0}
W=$(mktemp -d /tmp/corpwt.XXXXXX); rmdir "$W"
git -C /repo worktree add -q "$W" HEAD || exit 3
if ! git -C "$W" apply "$f" 2>/dev/null; then echo "$n: PATCH DOES NOT APPLY"; git -C /repo worktree remove --force "$W"; exit 0; fi
( cd "$W" && cargo test --offline > "$W/suite.log" 2>&1 ); rcs=$?
fired=""
for id in $ids; do
  out=$(VERIF_REPO="$W" /verif/check "$id" 2>&1); rc=$?
  if [ $rc -ne 0 ]; then fired="$fired $id"; echo "$out" | grep -E "rule=" | head -3 | sed "s/^/      [$id]/" > "$W/fired.$id"; fi
done
echo "$n: suite rc=$rcs; checks firing:${fired:- none}"
cat "$W"/fired.* 2>/dev/null | cut -c1-260
git -C /repo worktree remove --force "$W"
