#!/bin/bash
# usage: seed_round.sh <dir with one sub-directory per delivered change> [jobs]
# copies each delivered change into /verif/seeded/<name>/ and evaluates it with seedeval.sh, <jobs> at a time.
# With VERIF_HOME=<frozen copy of /verif> the checks run from the copy.
src=$1; jobs=${2:-6}; LIST=$(mktemp /tmp/seed_round_list.XXXXXX)
ls "$src" | sort > $LIST
n=0
while read d; do
  [ -f "$src/$d/patch.diff" ] && [ -f "$src/$d/seed_demo.rs" ] || { echo "$d: incomplete delivery"; continue; }
  mkdir -p /verif/seeded/$d; cp "$src/$d/patch.diff" "$src/$d/seed_demo.rs" /verif/seeded/$d/; [ -f "$src/$d/NOTES.md" ] && cp "$src/$d/NOTES.md" /verif/seeded/$d/
  slot=$((n % jobs)); n=$((n+1))
  ( CARGO_TARGET_DIR=/tmp/seedeval-target-${SLOT_PREFIX:-}$slot /verif/selftest/seedeval.sh /verif/seeded/$d > /tmp/seedeval.$d.log 2>&1; echo "$d: $(tail -1 /verif/seeded/$d/EVAL.txt)" ) &
  if [ $((n % jobs)) -eq 0 ]; then wait; fi
done < $LIST
wait
echo done
